#!/venv/bin/python
"""Single entry point:  check.py <Cxx> --tier quick|thorough [--replay file]

Steps (always from /repo's working tree):
  1 regenerate coq/Gen from the source (T1)       2 build the proof closure, Print Assumptions
  3 correspondence model vs implementation (T2/T3) 4 property oracle on the implementation
  5 decide: exit 0 / `VIOLATION property=<id> replay=<path>`   6 write evidence/<id>.json
"""
import argparse
import importlib
import json
import os
import random
import shutil
import sys
import time
import traceback

sys.path.insert(0, os.path.dirname(os.path.abspath(__file__)))
import common  # noqa: E402


def main():
    ap = argparse.ArgumentParser()
    ap.add_argument("prop")
    ap.add_argument("--tier", default=os.environ.get("VERIF_TIER", "quick"),
                    choices=["quick", "thorough"])
    ap.add_argument("--replay", default=None)
    args = ap.parse_args()
    pid = args.prop
    seed = int(os.environ.get("VERIF_SEED", "0"))
    os.environ["VERIF_SEED"] = str(seed)
    t0 = time.time()
    workdir = os.path.join(common.BUILD, "%s.%d" % (pid, os.getpid()))
    os.makedirs(workdir, exist_ok=True)

    tie_broken = []          # (what, detail)
    violations = []          # dicts with 'what' and replay payload
    known_seen = []
    notes = []

    # ---- 1. regenerate tables
    ok, msg = common.regen_tables()
    notes.append("gen_tables: " + msg.splitlines()[-1] if msg else "gen_tables: (no output)")
    if not ok:
        tie_broken.append(("translator", msg))

    # ---- 2. proofs
    proof_ok = False
    axioms = {}
    n_lemmas, lemma_names, closure_files = 0, [], []
    if ok:
        bok, out = common.coq_make(["Properties/%s.vo" % pid])
        if not bok:
            tie_broken.append(("proof", "make Properties/%s.vo failed:\n%s" % (pid, out[-2500:])))
        else:
            ax, raw = common.print_assumptions(pid, workdir)
            if ax is None:
                tie_broken.append(("proof", "Print Assumptions failed:\n" + raw))
            else:
                axioms = ax
                bad_ax = {t: [a for a in v if a not in common.ALLOWED_AXIOMS] for t, v in ax.items()}
                bad_ax = {t: v for t, v in bad_ax.items() if v}
                if bad_ax:
                    tie_broken.append(("axioms", json.dumps(bad_ax)))
                else:
                    proof_ok = True
            n_lemmas, lemma_names, closure_files = common.lemmas_in_closure(pid)
    # the correspondence evaluates the executable model: every Model/*.vo must be current too
    model_built = False
    if ok:
        with open(os.path.join(common.COQ, "_CoqProject")) as f:
            mt = [ln.strip()[:-2] + ".vo" for ln in f if ln.startswith("Model/") and ln.strip().endswith(".v")]
        mok, mout = common.coq_make(mt, jobs=16)
        if not mok:
            tie_broken.append(("model-build", "make Model/*.vo failed:\n%s" % mout[-2500:]))
        model_built = mok
    forb = common.scan_forbidden()
    if forb:
        tie_broken.append(("forbidden-construct", "; ".join(forb[:10])))
        proof_ok = False

    # ---- 3/4. property plugin: correspondence + oracle
    plugin = importlib.import_module("props." + pid)
    ctx = {
        "tier": args.tier, "seed": seed, "workdir": workdir, "rng": random.Random(seed * 7919 + 13),
        "replay": args.replay, "model_ok": ok and model_built,
        "escalate": bool(tie_broken),
    }
    try:
        res = plugin.run(ctx)
    except Exception:
        res = {"evaluations": 0, "distinct": 0, "mismatches": [], "violations": [],
               "samples": [], "distribution": {}, "corr_errors": [traceback.format_exc()]}
    for e in res.get("corr_errors", []):
        tie_broken.append(("correspondence-run", e))
    for m in res.get("mismatches", []):
        tie_broken.append(("correspondence", m))
    violations.extend(res.get("violations", []))

    # ---- 5. decide
    known = common.load_known()
    klist = [k for k in known.get("findings", []) if k["property"] == pid]
    real = []
    for v in violations:
        match = None
        for k in klist:
            if k["key"] == v.get("key"):
                match = k
                break
        if match is not None:
            known_seen.append(match)
        else:
            real.append(v)
    exit_code = 0
    lines = []
    seenk = set()
    for k in known_seen:
        if k["key"] not in seenk:
            seenk.add(k["key"])
            lines.append("KNOWN-FINDING: property=%s %s" % (pid, k["what"]))
    if real:
        exit_code = 1
        for v in real[:5]:
            path = common.write_replay(pid, {"property": pid, "kind": "failing-input",
                                             "violation": common.jsonable(v),
                                             "broken_ties": [list(t) for t in tie_broken][:5]})
            lines.append("VIOLATION property=%s replay=%s" % (pid, path))
    elif tie_broken:
        exit_code = 1
        what, detail = tie_broken[0]
        path = common.write_replay(pid, {
            "property": pid, "kind": "tie-broken",
            "no_longer_checks": [{"what": w, "detail": common.jsonable(d)} for w, d in tie_broken][:8],
            "theorems": common.theorems_of(pid) if os.path.exists(
                os.path.join(common.COQ, "Properties", pid + ".v")) else []})
        lines.append("VIOLATION property=%s replay=%s no-failing-input-found" % (pid, path))

    # ---- 6. evidence
    wall = time.time() - t0
    thms = sorted(axioms.keys())
    # source functions regenerated as Gallina on this run that the property's proof closure speaks about
    translated = []
    try:
        import json as _json
        import re as _re
        man = _json.load(open(os.path.join(common.COQ, "Gen", "Src.manifest.json")))
        used = set()
        for fn in closure_files:
            if fn.startswith("Gen/"):
                continue
            try:
                used.update(_re.findall(r"\bsrc_\w+", open(os.path.join(common.COQ, fn)).read()))
            except OSError:
                pass
        translated = [{"coq": m_["coq"], "source": "%s%s.%s:%d" % (m_["module"], ("." + m_["class"]) if m_["class"] else "",
                                                                 m_["function"], m_["line"]), "sha256": m_["sha256"]}
                      for m_ in man.get("translated", []) if m_["coq"] in used]
        for f_ in man.get("failed", []):
            notes.append("gen_src: NOT TRANSLATABLE %s.%s: %s" % (f_["module"], f_["function"], f_["error"]))
    except Exception as e:
        notes.append("gen_src manifest unreadable: %r" % e)
    coverage = {
        "source_functions_translated_and_proved_equal_to_model": translated,
        "obligations": n_lemmas,
        "discharged": n_lemmas if proof_ok else 0,
        "checker_cmd": "cd /verif/coq && make Properties/%s.vo  (coqc 8.16.1, full .vo build) "
                       "+ Print Assumptions on %d property theorems" % (pid, len(thms)),
        "trusted_base": plugin.TRUSTED_BASE,
        "property_theorems": thms,
        "axioms": {t: axioms[t] for t in thms},
        "closure_files": closure_files,
        "evaluations": int(res.get("evaluations", 0)),
        "distinct_nontrivial": int(res.get("distinct", 0)),
        "rule": plugin.RULE,
        "samples": common.jsonable(res.get("samples", []))[:6],
        "input_distribution": common.jsonable(res.get("distribution", {})),
        "programs": int(res.get("evaluations", 0)),
        "disagreements_checked": int(res.get("compared", 0)),
        "traces_validated_against_impl": int(res.get("compared", 0)),
        "explanation": plugin.EXPLANATION,
        "exhaustive": bool(res.get("exhaustive", False)),
        "ties_broken": [w for w, _ in tie_broken],
        "known_findings_seen": sorted(seenk),
        "notes": notes + res.get("notes", []),
    }
    common.write_evidence(pid, args.tier, seed, plugin.LEVEL, coverage, plugin.ASSUMPTIONS, wall,
                          len(real) + (1 if (tie_broken and not real) else 0))
    for ln in lines:
        print(ln)
    print("%s tier=%s seed=%d proofs=%s cases=%d compared=%d mismatches=%d violations=%d wall=%.1fs"
          % (pid, args.tier, seed, "ok" if proof_ok else "BROKEN", res.get("evaluations", 0),
             res.get("compared", 0), len(res.get("mismatches", [])), len(real), wall))
    shutil.rmtree(workdir, ignore_errors=True)
    return exit_code


if __name__ == "__main__":
    sys.exit(main())
