"""Shared machinery of every property check: regenerate tables from /repo, build the proof
closure, read Print Assumptions, scan for forbidden constructs, run correspondence shards,
decide, write evidence, print VIOLATION / KNOWN-FINDING lines."""
import fcntl
import json
import os
import re
import subprocess
import sys
import time

VERIF = os.path.dirname(os.path.dirname(os.path.abspath(__file__)))
COQ = os.path.join(VERIF, "coq")
BUILD = os.path.join(VERIF, "build")
EVIDENCE = os.path.join(VERIF, "evidence")
PY = "/venv/bin/python"

sys.path.insert(0, os.path.join(VERIF, "harness"))

ALLOWED_AXIOMS = set()     # target: every property theorem is closed under the global context

FORBIDDEN = re.compile(
    r"\b(Admitted|admit|Axiom|Axioms|Parameter|Parameters|Conjecture|Conjectures|"
    r"Unset\s+Guard\s+Checking|bypass_check|Admit\s+Obligations|Unset\s+Positivity\s+Checking|"
    r"Unset\s+Universe\s+Checking|native_compute)\b")


class Outcome:
    def __init__(self):
        self.notes = []
        self.tie_broken = []          # descriptions of broken generator / proof / correspondence
        self.violations = []          # dicts: what, replay payload
        self.known = []               # known findings observed
        self.stats = {}


def env_for_children():
    e = dict(os.environ)
    e["PYTHONHASHSEED"] = "0"
    e["PYTHONPATH"] = os.path.join(VERIF, "harness")
    e.setdefault("VERIF_SEED", "0")
    return e


def regen_tables():
    """T1: regenerate coq/Gen/*.v from /repo. Returns (ok, message)."""
    p = subprocess.run([PY, os.path.join(VERIF, "tools", "gen_tables.py")],
                       stdout=subprocess.PIPE, stderr=subprocess.STDOUT, text=True,
                       env=env_for_children(), timeout=300)
    if p.returncode != 0:
        return False, p.stdout.strip()
    # T0: the source translator (functions regenerated as Gallina from the Python source text)
    q = subprocess.run([PY, os.path.join(VERIF, "tools", "gen_src.py")],
                       stdout=subprocess.PIPE, stderr=subprocess.STDOUT, text=True,
                       env=env_for_children(), timeout=300)
    return q.returncode == 0, (p.stdout.strip() + "\n" + q.stdout.strip())


class BuildLock:
    def __enter__(self):
        os.makedirs(BUILD, exist_ok=True)
        self.f = open(os.path.join(BUILD, ".lock"), "w")
        fcntl.flock(self.f, fcntl.LOCK_EX)
        return self

    def __exit__(self, *a):
        fcntl.flock(self.f, fcntl.LOCK_UN)
        self.f.close()


def coq_make(targets, timeout=1500, jobs=8):
    """Full .vo build of the given targets (never -vos/-vok)."""
    with BuildLock():
        if not os.path.exists(os.path.join(COQ, "Makefile")):
            subprocess.run(["coq_makefile", "-f", "_CoqProject", "-o", "Makefile"], cwd=COQ,
                           stdout=subprocess.DEVNULL, stderr=subprocess.DEVNULL)
        p = subprocess.run(["timeout", str(timeout), "make", "-j%d" % jobs] + targets, cwd=COQ,
                           stdout=subprocess.PIPE, stderr=subprocess.STDOUT, text=True)
    return p.returncode == 0, p.stdout


def scan_forbidden():
    bad = []
    for root, _, files in os.walk(COQ):
        if "/Corpus" in root:
            continue
        for fn in files:
            if not fn.endswith(".v"):
                continue
            path = os.path.join(root, fn)
            with open(path) as f:
                src = f.read()
            src = re.sub(r"\(\*.*?\*\)", "", src, flags=re.S)      # comments do not count
            for m in FORBIDDEN.finditer(src):
                bad.append("%s: %s" % (os.path.relpath(path, VERIF), m.group(0)))
    return bad


def theorems_of(prop_id):
    path = os.path.join(COQ, "Properties", prop_id + ".v")
    with open(path) as f:
        src = f.read()
    return re.findall(r"^\s*Theorem\s+(\w+)", src, flags=re.M)


def lemmas_in_closure(prop_id):
    """Count of Theorem/Lemma/Example statements compiled in the .vo closure of the property."""
    p = subprocess.run(["coqdep", "-Q", ".", "PowHsm", "-sort", "Properties/%s.v" % prop_id],
                       cwd=COQ, stdout=subprocess.PIPE, stderr=subprocess.DEVNULL, text=True)
    files = [x for x in p.stdout.split() if x.endswith(".v")]
    n = 0
    names = []
    for fn in files:
        try:
            with open(os.path.join(COQ, fn)) as f:
                src = re.sub(r"\(\*.*?\*\)", "", f.read(), flags=re.S)
        except FileNotFoundError:
            continue
        found = re.findall(r"^\s*(?:Theorem|Lemma|Example|Corollary|Fact)\s+(\w+)", src, flags=re.M)
        n += len(found)
        names.extend(found)
    return n, names, files


def print_assumptions(prop_id, workdir):
    """Ask Coq for the axioms each property theorem depends on. Returns {thm: [axioms]} or None."""
    thms = theorems_of(prop_id)
    os.makedirs(workdir, exist_ok=True)
    path = os.path.join(workdir, "assume_%s.v" % prop_id)
    with open(path, "w") as f:
        f.write("From PowHsm Require Import Properties.%s.\n" % prop_id)
        for t in thms:
            f.write('Goal True. idtac "@@THM %s". exact I. Qed.\nPrint Assumptions %s.\n' % (t, t))
    p = subprocess.run(["coqc", "-Q", COQ, "PowHsm", path], cwd=workdir, stdout=subprocess.PIPE,
                       stderr=subprocess.STDOUT, text=True, timeout=600)
    if p.returncode != 0:
        return None, p.stdout[-1500:]
    res = {}
    cur = None
    for line in p.stdout.splitlines():
        m = re.match(r"@@THM (\w+)", line)
        if m:
            cur = m.group(1)
            res[cur] = []
            continue
        if cur is None:
            continue
        if line.startswith("Closed under the global context"):
            continue
        if line.startswith("Axioms:"):
            continue
        m = re.match(r"^(\S+)\s*:", line)
        if m and not line.startswith(" "):
            res[cur].append(m.group(1))
    return res, p.stdout


def load_known():
    path = os.path.join(VERIF, "known_findings.json")
    try:
        with open(path) as f:
            return json.load(f)
    except FileNotFoundError:
        return {"findings": [], "fixed": []}


def write_replay(prop_id, payload):
    d = os.path.join(BUILD, "replays")
    os.makedirs(d, exist_ok=True)
    path = os.path.join(d, "%s_%d.json" % (prop_id, int(time.time() * 1000) % 100000000))
    with open(path, "w") as f:
        json.dump(payload, f, indent=1, default=repr)
    return path


def write_evidence(prop_id, tier, seed, level, coverage, assumptions, wall, violations):
    os.makedirs(EVIDENCE, exist_ok=True)
    ev = {
        "property_id": prop_id,
        "tier": tier,
        "seed": seed,
        "level": level,
        "coverage": coverage,
        "assumptions": assumptions,
        "wall_s": round(wall, 2),
        "violations": violations,
    }
    with open(os.path.join(EVIDENCE, prop_id + ".json"), "w") as f:
        json.dump(ev, f, indent=1, default=repr, sort_keys=True)
        f.write("\n")


def jsonable(x):
    if isinstance(x, bytes):
        return x.hex()
    if isinstance(x, (list, tuple)):
        return [jsonable(y) for y in x]
    if isinstance(x, dict):
        return {str(k): jsonable(v) for k, v in x.items()}
    if isinstance(x, (str, int, float, bool)) or x is None:
        return x
    return repr(x)
