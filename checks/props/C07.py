"""C07 — an SGX attestation is accepted only if the whole quote-to-root chain verifies."""
import os
import certs
import certs_v2 as v2
from . import funcases

LEVEL = "proof"
RULE = ("genuine SGX chains over fresh P-256 keys and X.509 certificates generated with `cryptography` "
        "(depth 2..3, QE auth data 0..1000 bytes, a P-384 quoting-enclave variant) and every single-point "
        "corruption: bit flips in each region of the quote / report body / report data / custom data / "
        "signatures / attestation key / auth data / certificate DER, signatures by a foreign key, replaced "
        "custom or auth data, re-parenting, wrong root, clock before / after validity, alternative key "
        "encodings, target variations; non-trivial = every certificate; distinct by document text")
EXPLANATION = ("Theorems C07_* unfold the three link predicates of the Gallina model (offsets from the "
               "generated struct layouts) and combine them with the C06 chain theorems into the conjunction "
               "of the property; the model's predicates run on oracle tables computed independently "
               "(cryptography for the ECDSA links the code checks with ecdsa, ecdsa for the X.509 signatures "
               "the code checks with cryptography) and are compared with every is_valid verdict and every "
               "validate_and_get_values result of the implementation; an oracle recomputes the expected "
               "verdict from an independent Python statement of the three links.")
TRUSTED_BASE = ["Coq 8.16.1 kernel (vm_compute)", "tools/gen_tables.py (struct layouts, type names, root name)",
                "cryptography / ecdsa / hashlib as oracles, each link cross-checked with the library the code "
                "does not use", "SHA-256 computed by the Gallina model (Model/Sha256.v) inside the checker",
                "hand-written Gallina model tied by differential runs"]
ASSUMPTIONS = ["X.509 parsing, ECDSA P-256/P-384 and validity dates are oracles",
               "the clock is patched to a fixed instant during the runs"]


def expected(doc, root_b64, now_ts):
    els = {e["name"]: e for e in doc["elements"]}
    out = []
    for tg in doc["targets"]:
        path = []
        cur = els[tg]
        while True:
            path.append(cur)
            if cur["signed_by"] == "sgx_root":
                break
            cur = els[cur["signed_by"]]
        path.reverse()
        cf = v2.ROOT
        res = None
        for e in path:
            if not v2.link_truth(e, cf, root_b64, now_ts):
                res = (False, e["name"])
                break
            cf = e
        if res is None:
            t = path[-1]
            res = ("valid", t)
        out.append(res)
    return out


IMPOSTOR_ROOT = [None]


class FakeDatetime:
    now_value = None

    @classmethod
    def now(cls, tz=None):
        # as datetime.now: naive local time without a zone, aware time in the zone given
        if tz is None:
            return cls.now_value.astimezone().replace(tzinfo=None)
        return cls.now_value.astimezone(tz)


def run(ctx):
    import admin.certificate_v2 as cv2
    from admin.certificate import HSMCertificateV2, HSMCertificateV2ElementX509
    rng = ctx["rng"]
    n = 4 if ctx["tier"] == "quick" else 60
    res = {"evaluations": 0, "compared": 0, "distinct": 0, "mismatches": [], "violations": [],
           "samples": [], "distribution": {}, "corr_errors": [], "notes": []}
    tmp = os.path.join(ctx["workdir"], "c07")
    os.makedirs(tmp, exist_ok=True)
    terms, descs = [], []
    dist = {}
    real_dt = cv2.datetime
    cv2.datetime = FakeDatetime
    # the verifying host is not in UTC
    import time as _time
    os.environ["TZ"] = "Etc/GMT+5"
    _time.tzset()
    try:
        from cryptography.hazmat.primitives.asymmetric import ec
        irk = v2.new_key(rng)
        IMPOSTOR_ROOT[0] = v2.b64der(v2.make_cert(rng, "SGX Root CA", "SGX Root CA", irk, irk))
        for i in range(n):
            depth = 3 if i % 3 else 2
            doc, root_b64, sec = v2.genuine(rng, depth=depth, auth_len=(0 if i == 1 else None))
            variants = [("genuine", doc, root_b64, v2.NOW)] + v2.corruptions(rng, doc, root_b64, sec)
            if i % 2 == 0:
                d384, r384, _ = v2.genuine(rng, depth=3, qe_curve=ec.SECP384R1())
                variants.append(("qe-p384", d384, r384, v2.NOW))
            for label, d, rb64, now in variants:
                FakeDatetime.now_value = now
                now_ts = int(now.timestamp())

                def root_factory(rb64=rb64):
                    return HSMCertificateV2ElementX509({"name": "sgx_root", "message": rb64,
                                                        "signed_by": "sgx_root"})
                # history: every second variant is validated on an object that was first validated
                # against another root carrying the same name (the genuine one for the wrong-root variant)
                prior = None
                if (len(terms) + res["evaluations"]) % 2 == 1 or label == "wrong-root":
                    other = root_b64 if label == "wrong-root" else IMPOSTOR_ROOT[0]

                    def prior(other=other):
                        return HSMCertificateV2ElementX509({"name": "sgx_root", "message": other,
                                                            "signed_by": "sgx_root"})
                obs = certs.impl_load_validate(d, root_factory, tmp, with_resave=False, prior_root_factory=prior)
                res["evaluations"] += 1
                res["distinct"] += 1
                kind = label.split("-")[0]
                dist[kind] = dist.get(kind, 0) + 1
                if not obs["loaded"]:
                    res["violations"].append({"key": "C07:load", "what": "well-formed certificate failed to "
                                              "load (%s): %s" % (label, obs["error"])})
                    continue
                cert = obs.pop("cert")
                impl_links = certs.impl_links(cert, root_factory())
                exp = expected(d, rb64, now_ts)
                got = obs["results"]
                for tg, e_, g in zip(d["targets"], exp, got):
                    if e_[0] is False:
                        if tuple(g) != e_:
                            res["violations"].append({
                                "key": "C07:verdict:%s" % kind,
                                "what": "%s: expected %r (first failing link from the root), got %r"
                                        % (label, e_, g if g[0] != "raises" else g)})
                    else:
                        t = e_[1]
                        if t["type"] == "sgx_quote":
                            ok = (g[0] is True and g[1]["message"] == bytes.fromhex(t["custom_data"]).hex()
                                  and g[1]["sgx_quote"].get_raw_data() == bytes.fromhex(t["message"])[:432])
                            if not ok:
                                res["violations"].append({
                                    "key": "C07:valid-not-reported:%s" % kind,
                                    "what": "%s: every link verifies but the result is %r" % (label, g[:2])})
                        elif g[0] != "raises":
                            res["violations"].append({"key": "C07:nonquote-value", "what": repr(g)})
                if label == "genuine" and not (got and got[0][0] is True):
                    res["violations"].append({"key": "C07:genuine-rejected", "what": "genuine chain rejected: %r"
                                              % (got,)})
                terms.append(v2.to_v2case(d, rb64, now, obs, impl_links))
                descs.append({"label": label, "results": repr(got)[:300]})
                if len(res["samples"]) < 3:
                    res["samples"].append({"label": label, "targets": d["targets"],
                                           "verdicts": repr([g[:2] for g in got])[:200]})
    finally:
        cv2.datetime = real_dt
    cmp_n, mism, errs = funcases.run(ctx, "c07", v2.HEADER, "check_v2case", terms, descs, shard=6)
    res["compared"] = cmp_n
    res["mismatches"] += mism
    res["corr_errors"] += errs
    res["distribution"] = dist
    return res
