"""C13 — query replies report the device's data verbatim."""
import gen
import devices
import stack
from . import servercases

LEVEL = "proof"
RULE = ("server-level query cases (getPubKey x 6 paths, blockchainState, blockchainParameters, "
        "signerHeartbeat, uiHeartbeat with mode transitions) against randomised simulated device "
        "states; a case is non-trivial when at least one APDU was exchanged; distinct by (request, "
        "device answers)")
EXPLANATION = ("Theorems C13_* state, for every device datum, that the reply field is that datum; the "
               "model they are about is compared with the implementation on recorded runs "
               "(check_scase under vm_compute) and an independent oracle compares each JSON reply "
               "with the simulated device's state.")
TRUSTED_BASE = ["Coq 8.16.1 kernel (vm_compute used, native_compute not)",
                "tools/gen_tables.py (selectors, flag offsets, opcodes, network ids read from the source)",
                "harness: fake transport, device simulator written from firmware bc_state.c/heartbeat.c",
                "hand-written Gallina model of ledger/hsm2dongle.py getters and ledger/protocol.py reply assembly"]
ASSUMPTIONS = ["the device simulator is the ground truth for 'what the device holds'",
               "JSON parsing/printing (json module) trusted"]

DER31 = True


def expected_state(d):
    return {
        "best_block": d.hashes[1].hex(), "newest_valid_block": d.hashes[2].hex(),
        "ancestor_block": d.hashes[3].hex(), "ancestor_receipts_root": d.hashes[5].hex(),
        "updating": {
            "best_block": d.hashes[0x81].hex(), "newest_valid_block": d.hashes[0x82].hex(),
            "next_expected_block": d.hashes[0x84].hex(), "total_difficulty": d.difficulty,
            "in_progress": bool(d.flags[0]), "already_validated": bool(d.flags[1]),
            "found_best_block": bool(d.flags[2])}}


def oracle(case, obs):
    meta = case["meta"]
    d = case["device"]
    r = obs["replies"][-1]
    j = stack.reply_json(r)
    if j is None:
        return {"key": "C13:noreply", "what": "no single-line JSON reply to a query"}
    kind = meta["q"]
    if meta.get("expect_error"):
        if j.get("errorcode", 0) >= 0:
            return {"key": "C13:%s:accepted-bad" % kind, "what": "%s succeeded on a device answer "
                    "that cannot be reported verbatim" % kind}
        return None
    exp = None
    if kind == "pubkey":
        exp = {"errorcode": 0, "pubKey": d.pubkeys[gen.path_binary(meta["path"])].hex()}
    elif kind == "state":
        exp = {"errorcode": 0, "state": expected_state(d)}
    elif kind == "params":
        exp = {"errorcode": 0, "parameters": {
            "checkpoint": d.params[0].hex(), "minimum_difficulty": d.params[1],
            "network": {1: "mainnet", 2: "testnet", 3: "regtest"}[d.params[2]]}}
    elif kind in ("shb", "uihb"):
        hb = d.hb if kind == "shb" else d.uihb
        exp = {"errorcode": 0, "pubKey": hb["pubkey"].hex(), "message": hb["msg"].hex(),
               "tweak": hb["hash"].hex(),
               "signature": {"r": hb["sig"][0].hex(), "s": hb["sig"][1].hex()}}
        if kind == "uihb":
            if meta.get("sequence"):
                # the first request met a device error: it must have said so, and the second one, which
                # succeeds, must leave the device in the signer
                j0 = stack.reply_json(obs["replies"][0])
                if j0 is None or j0.get("errorcode", 0) >= 0:
                    return {"key": "C13:uihb:error-not-reported", "what": "uiHeartbeat succeeded although "
                            "the heartbeat exchange failed"}
                if j.get("errorcode") == 0 and d.mode != 3:
                    return {"key": "C13:uihb:sequence-mode", "what": "second uiHeartbeat ok but the device "
                            "is in mode %r, not the signer" % d.mode}
                if j.get("errorcode") != 0:
                    return None
            if meta["modes"] == "fault":
                # a device-range status somewhere in the mode dance: the request either still ends with the
                # device back in the signer, or it is answered with the device-error code
                code = j.get("errorcode")
                if r["stop"] or not (code == -905 or (code == 0 and d.mode == 3)):
                    return {"key": "C13:uihb:neither-signer-nor-device-error",
                            "what": "status %s at exchange %d of a uiHeartbeat: reply %r, manager stopped=%s, "
                                    "device left in mode %r" % (hex(meta["fault"][1]), meta["fault"][0], r["raw"][:80],
                                                                r["stop"], d.mode)}
                if code != 0:
                    return None
            elif meta["modes"] != "ok":
                # the device did not come back to the signer: must be a device error
                if j.get("errorcode") == 0:
                    return {"key": "C13:uihb:not-back", "what": "uiHeartbeat succeeded although the "
                            "device did not return to signer mode"}
                return None
            if j.get("errorcode") == 0 and meta["start"] == 3 and d.mode != 3:
                return {"key": "C13:uihb:mode", "what": "uiHeartbeat ok but device not in signer mode"}
    if j != exp:
        return {"key": "C13:%s:mismatch" % kind, "what": "%s reply differs from the device's data" % kind,
                "expected": exp, "got": j}
    return None


class Reseeded:
    """after its first answer the device is replaced (wiped and re-onboarded with another seed, or another
    unit with other parameters and another blockchain state is plugged in); the manager notices a link
    error on the next exchange"""

    def __init__(self, inner, new_state):
        self.__dict__.update(inner=inner, new_state=new_state, n=0)

    def __call__(self, apdu):
        self.__dict__["n"] += 1
        if self.n == 2:
            for k, v in self.new_state.items():
                setattr(self.inner, k, v)
            return ("W",)
        return self.inner(apdu)

    def __getattr__(self, name):
        return getattr(self.inner, name)


def gen_cases(rng, n):
    cases = []
    for i in range(n):
        if i % 40 == 7:
            d = gen.random_device(rng)
            d2 = gen.random_device(rng)
            p = gen.PATHS[(i // 40) % 6]
            new_state = {"pubkeys": {k: gen.rbytes(rng, 65) for k in d.pubkeys}, "params": d2.params,
                         "hashes": d2.hashes, "difficulty": d2.difficulty, "flags": d2.flags}
            q = ["pubkey", "params", "state"][(i // 40) % 3]
            req = {"pubkey": {"command": "getPubKey", "version": 5, "keyId": p},
                   "params": {"command": "blockchainParameters", "version": 5},
                   "state": {"command": "blockchainState", "version": 5}}[q]
            other = {"command": "blockchainParameters" if q != "params" else "blockchainState", "version": 5}
            cases.append({"mode": "v5", "kind": "ledger", "lines": [gen.line(req), gen.line(other), gen.line(req)],
                          "connects": [True], "device": Reseeded(d, new_state),
                          "meta": {"q": q, "path": p, "history": "device-replaced"}})
            continue
        q = ["pubkey", "state", "params", "shb", "uihb"][i % 5]
        d = gen.random_device(rng)
        meta = {"q": q}
        if q == "pubkey":
            p = gen.PATHS[(i // 5) % 6]
            meta["path"] = p
            req = {"command": "getPubKey", "version": 5, "keyId": p}
        elif q == "state":
            req = {"command": "blockchainState", "version": 5}
        elif q == "params":
            req = {"command": "blockchainParameters", "version": 5}
            if rng.random() < 0.15:
                d.params = (d.params[0], d.params[1], rng.choice([0, 4, 5, 255]))
                meta["expect_error"] = True
        elif q == "shb":
            req = {"command": "signerHeartbeat", "version": 5, "udValue": gen.rbytes(rng, 16).hex()}
            if rng.random() < 0.3:
                d_orig = devices.der

        else:
            req = {"command": "uiHeartbeat", "version": 5, "udValue": gen.rbytes(rng, 32).hex()}
            r = rng.random()
            if i % 10 == 9:
                # a status word of the device's own error range at one of the exchanges of the mode dance
                # (mode query, exit, mode query, heartbeat, exit, mode query)
                d.mode, d.after_exit, meta["start"] = 3, [4, 3], 3
                k = (i // 10) % 10
                sw = rng.choice([0x6A99, 0x6B01, 0x69A1, 0x6D00, 0x6BFF, 0x69A0])
                d.inject_at[k] = sw
                meta["modes"], meta["fault"] = "fault", (k, sw)
            elif r < 0.45:
                d.mode, d.after_exit, meta["modes"], meta["start"] = 3, [4, 3], "ok", 3
            elif r < 0.6:
                # the exit from the UI heartbeat lands somewhere that is neither signer nor UI heartbeat
                d.mode, d.after_exit, meta["start"] = 3, [4, rng.choice([2, 5, 0xFF, 0])], 3
                meta["modes"] = "lands-elsewhere"
            elif r < 0.7:
                d.mode, d.after_exit, meta["modes"], meta["start"] = 4, None, "ok", 4
            elif r < 0.8:
                d.mode, d.after_exit, meta["modes"], meta["start"] = 3, [3, 3], "stuck-first", 3
            elif r < 0.9:
                d.mode, d.after_exit, meta["modes"], meta["start"] = 3, [4, 4], "stuck-second", 3
            else:
                d.mode, d.after_exit, meta["modes"], meta["start"] = 2, None, "bootloader", 2
        if q == "uihb" and meta.get("modes") == "ok" and meta.get("start") == 3 and rng.random() < 0.4:
            # sequences: a first UI heartbeat whose heartbeat exchange fails with a device error, then a
            # second one (what the first leaves behind decides how the second starts)
            d.after_exit = [4, 3, 4, 3]
            d.inject[(0x60, "*")] = rng.choice([0x6A99, 0x6B01, 0x69A1])
            meta["sequence"] = True
            req2 = {"command": "uiHeartbeat", "version": 5, "udValue": gen.rbytes(rng, 32).hex()}
            cases.append({"mode": "v5", "kind": "ledger", "lines": [gen.line(req), gen.line(req2)],
                          "device": d, "meta": meta, "connects": [True] * 6})
            continue
        mode = "v5"
        if q == "pubkey" and rng.random() < 0.3:
            mode = "v1"
            req["version"] = 1
        cases.append({"mode": mode, "kind": "ledger", "lines": [gen.line(req)], "device": d,
                      "meta": meta})
    return cases


def run(ctx):
    n = 400 if ctx["tier"] == "quick" else 6000
    cases = gen_cases(ctx["rng"], n)
    return servercases.run(ctx, cases, oracle)
