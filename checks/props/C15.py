"""C15 — attestations gathered from a genuine device verify end to end."""
import hashlib
import json
import os
import admincmd
import certs
import certs_v2 as v2
import gen
import genuine
import verifycmd as vc
import env
from . import funcases

LEVEL = "proof"
RULE = ("simulated genuine devices over fresh keys: Ledger (root -> device -> attestation key, UI and signer "
        "attestations, message pages of 40/80/255 bytes, legacy and current signer framing) driven through the "
        "real onboard -> attestation -> pubkeys -> verify commands on real temporary files; SGX (quote envelope, "
        "QE auth data 1..1000 bytes, PEM chains of 2..3 certificates, envelope pages) driven through attestation "
        "-> pubkeys -> verify; then every single-point alteration of the device's answers (each signature, "
        "signed message, key, hash, certificate, auth data, envelope tail) and a wrong root; non-trivial = every "
        "run; distinct by (device, alteration)")
EXPLANATION = ("Theorems C15_* prove over the Gallina models of gathering (paging, envelope parsing, element "
               "construction) and verification (C06-C08 models) that what a genuine device answers is turned "
               "into a certificate the verify functions accept with the device's values, for every device and "
               "page size; the real commands are run end to end on simulated genuine devices and on every "
               "single-point alteration of their answers, which must make gathering or verification fail.")
TRUSTED_BASE = ["Coq 8.16.1 kernel (vm_compute)", "tools/gen_tables.py (layouts, opcodes)",
                "harness: simulated genuine devices written from docs/attestation.md and the firmware",
                "ECDSA / X.509 / SHA-256 / HMAC libraries as oracles (unforgeability is cryptography's, not the "
                "repository's)"]
ASSUMPTIONS = ["an alteration is a single bit flip in one answer of the device, or a different root of trust"]

UD = "aa" * 16 + "bb" * 16


def ledger_flow(rng, tmp, legacy, alter, wrong_root=False, **kw):
    """returns (stage reached, error, verify stdout, device)"""
    import admin.onboard as onboard
    import admin.ledger_attestation as latt
    import admin.pubkeys as pubkeys
    import admin.verify_ledger_attestation as VL
    import admin.misc as misc
    import admin.unlock as unlock
    from comm.platform import Platform
    import types
    ud = kw.pop("ud", UD)
    reattest = kw.pop("reattest", False)
    ts = kw.pop("timestamp", None)
    dev = genuine.GenuineLedger(rng, legacy_signer=legacy, alter=alter, **kw)
    if ts is not None:
        dev.timestamp = ts
    dev.expected_ud = ud[2:] if ud.startswith("0x") else ud
    world = env.World(device=dev)
    env.install_transport(world)
    Platform.set("Ledger")
    misc.time = types.SimpleNamespace(sleep=lambda s: None)
    onboard.gen_seed = lambda: gen.rbytes(rng, 32)
    att1, att2 = os.path.join(tmp, "attestation-key.json"), os.path.join(tmp, "attestation.json")
    keys_txt = os.path.join(tmp, "pubkeys.txt")
    for f in (att1, att2, keys_txt, os.path.join(tmp, "pubkeys.json")):
        if os.path.exists(f):
            os.unlink(f)
    import sys
    stdin = admincmd.Stdin(["yes", ""])
    real = sys.stdin
    sys.stdin = stdin
    try:
        opt = admincmd.Opt(pin="abcd1234", output_file_path=att1)
        err, out = vc.run_cmd(onboard.do_onboard, opt)
        if err:
            return "onboard", err, out, dev
        dev.mode, dev.unlocked = 2, False         # the operator re-plugs the device
        opt = admincmd.Opt(pin="abcd1234", output_file_path=att2, attestation_certificate_file_path=att1,
                           attestation_ud_source=ud)
        err, out = vc.run_cmd(latt.do_attestation, opt)
        if err:
            return "attestation", err, out, dev
        dev.mode, dev.unlocked = 2, False
        if reattest:
            # later the operator attests again, starting from the certificate of the previous attestation,
            # with a new UD value and after the blockchain state has moved on
            ud2 = gen.rbytes(rng, 32).hex()
            dev.best_block = gen.rbytes(rng, 32)
            dev.timestamp += 1000
            att3 = os.path.join(tmp, "attestation-2.json")
            opt = admincmd.Opt(pin="abcd1234", output_file_path=att3, attestation_certificate_file_path=att2,
                               attestation_ud_source=ud2)
            err, out = vc.run_cmd(latt.do_attestation, opt)
            if err:
                return "attestation", err, out, dev
            dev.expected_ud = ud2
            att2 = att3
            dev.mode, dev.unlocked = 2, False
        opt = admincmd.Opt(pin="abcd1234", output_file_path=keys_txt)
        err, out = vc.run_cmd(pubkeys.do_get_pubkeys, opt)
        if err:
            return "pubkeys", err, out, dev
        root = (certs.K1Key(rng) if wrong_root else dev.root).pub().hex()
        opt = admincmd.Opt(attestation_certificate_file_path=att2, pubkeys_file_path=os.path.join(tmp, "pubkeys.json"),
                           root_authority=root)
        err, out = vc.run_cmd(VL.do_verify_attestation, opt)
        return ("verify" if err else "ok"), err, out, dev
    finally:
        sys.stdin = real


def sgx_flow(rng, tmp, alter, wrong_root=False, root_variant=None, **kw):
    import admin.sgx_attestation as satt
    import admin.pubkeys as pubkeys
    import admin.verify_sgx_attestation as VS
    import admin.certificate_v2 as cv2
    import admin.misc as misc
    from comm.platform import Platform
    import types
    ts = kw.pop("timestamp", None)
    dev = genuine.GenuineSgx(rng, alter=alter, **kw)
    if ts is not None:
        dev.timestamp = ts
    world = env.World(device=dev)
    env.install_transport(world)
    Platform.set("SGX", {"sgx_host": "h", "sgx_port": 1})
    misc.time = types.SimpleNamespace(sleep=lambda s: None)
    att, keys_txt, rootp = (os.path.join(tmp, x) for x in ("sgx-att.json", "sgx-keys.txt", "sgx-root.pem"))
    for f in (att, keys_txt, os.path.join(tmp, "sgx-keys.json")):
        if os.path.exists(f):
            os.unlink(f)

    class FakeDatetime:
        @classmethod
        def now(cls, tz=None):
            return v2.NOW
    real_dt = cv2.datetime
    cv2.datetime = FakeDatetime
    try:
        opt = admincmd.Opt(pin="abcd1234", output_file_path=att, attestation_ud_source=UD)
        err, out = vc.run_cmd(satt.do_attestation, opt)
        if err:
            return "attestation", err, out, dev
        dev.mode, dev.unlocked = 2, False
        opt = admincmd.Opt(pin="abcd1234", output_file_path=keys_txt)
        err, out = vc.run_cmd(pubkeys.do_get_pubkeys, opt)
        if err:
            return "pubkeys", err, out, dev
        from cryptography.hazmat.primitives import serialization
        rootc = dev.root_c
        if wrong_root:
            rk = v2.new_key(rng)
            rootc = v2.make_cert(rng, "SGX Root CA", "SGX Root CA", rk, rk)
        pem = rootc.public_bytes(serialization.Encoding.PEM)
        if root_variant == "sig-bit":
            # the genuine root with one bit of its own signature flipped (same key, same names)
            import base64
            der = bytearray(rootc.public_bytes(serialization.Encoding.DER))
            der[-1 - rng.randrange(8)] ^= 1 << rng.randrange(8)
            b64 = base64.encodebytes(bytes(der)).decode().replace("\n", "")
            pem = ("-----BEGIN CERTIFICATE-----\n" + "\n".join(b64[k:k + 64] for k in range(0, len(b64), 64))
                   + "\n-----END CERTIFICATE-----\n").encode()
        elif root_variant == "expired":
            # a root re-issued for the same key whose validity period has lapsed
            import datetime
            lapsed = v2.make_cert(rng, "SGX Root CA", "SGX Root CA", dev.root_k, dev.root_k,
                                  v2.NOW - datetime.timedelta(days=800), v2.NOW - datetime.timedelta(hours=3))
            pem = lapsed.public_bytes(serialization.Encoding.PEM)
        open(rootp, "wb").write(pem)
        opt = admincmd.Opt(attestation_certificate_file_path=att,
                           pubkeys_file_path=os.path.join(tmp, "sgx-keys.json"), root_authority=rootp)
        err, out = vc.run_cmd(VS.do_verify_attestation, opt)
        return ("verify" if err else "ok"), err, out, dev
    finally:
        cv2.datetime = real_dt


LEDGER_ALTER = ["device_sig", "device_pub", "att_sig", "att_pub", "ui_hash", "ui_msg", "ui_sig", "signer_sig",
                "signer_msg", "signer_hash"]
def pem_ders(text):
    """the certificates a PEM text holds, decoded independently of the code under test: for each BEGIN marker
    the base64 alphabet characters up to the next armour dash, decoded leniently; None where undecodable"""
    import base64
    import re
    out = []
    for m in re.finditer(rb"-----BEGIN CERTIFICATE-----\n", text):
        body = text[m.end():]
        cut = body.find(b"-")
        body = body[:cut] if cut >= 0 else body
        b64 = re.sub(rb"[^A-Za-z0-9+/=]", b"", body)
        try:
            out.append(base64.b64decode(b64))
        except Exception:
            out.append(None)
    return out


def certs_changed(dev):
    from cryptography.hazmat.primitives import serialization
    pems = [c.public_bytes(serialization.Encoding.PEM) for c in (dev.qe_c, dev.plat_c, dev.root_c)]
    cd = b"".join(pems[:dev.ncerts])
    genuine_ders = [c.public_bytes(serialization.Encoding.DER) for c in (dev.qe_c, dev.plat_c, dev.root_c)][:dev.ncerts]
    return pem_ders(dev.alt("certs", cd)) != genuine_ders


SGX_ALTER = ["quote", "sig", "attkey", "qe_body", "qe_sig", "auth", "certs", "tail", "msg"]


def run(ctx):
    rng = ctx["rng"]
    n = 1 if ctx["tier"] == "quick" else 12
    res = {"evaluations": 0, "compared": 0, "distinct": 0, "mismatches": [], "violations": [],
           "samples": [], "distribution": {"ok": 0, "onboard": 0, "attestation": 0, "pubkeys": 0, "verify": 0},
           "corr_errors": [], "notes": []}
    tmp = os.path.join(ctx["workdir"], "c15")
    os.makedirs(tmp, exist_ok=True)
    for i in range(n):
        # the 109-byte UI message in 1, 2, 3 and 4 pages (4 is the most the manager accepts); the
        # signer message in 1..5 pages
        for legacy, kw in ((False, {}), (True, {}), (False, dict(ui_pages=255, pages=255)),
                           (False, dict(ui_pages=60, pages=64)), (False, dict(ui_pages=37, pages=43)),
                           (False, dict(ui_pages=28, pages=26)), (True, dict(ui_pages=28)),
                           # UD values that begin with ASCII digits / letters (they follow the text headers)
                           (False, dict(ud="37" + gen.rbytes(rng, 31).hex())),
                           (True, dict(ud="3039" + gen.rbytes(rng, 30).hex())),
                           (False, dict(ud=gen.rbytes(rng, 32).hex())),
                           (False, dict(ud="00" + gen.rbytes(rng, 31).hex())),
                           (True, dict(ud="0x0" + gen.rbytes(rng, 32).hex()[1:])),
                           # blockchain state at the ends of its ranges
                           (False, dict(timestamp=2 ** 63)), (False, dict(timestamp=2 ** 64 - 1)),
                           (False, dict(timestamp=0)),
                           (False, dict(reattest=True)), (True, dict(reattest=True))):
            stage, err, out, dev = ledger_flow(rng, tmp, legacy, None, **kw)
            note(res, stage)
            if stage != "ok":
                res["violations"].append({"key": "C15:ledger-genuine-fails", "what": "genuine Ledger device "
                                          "(legacy=%s, page sizes %r) failed at %s: %s" % (legacy, kw, stage, err)})
            else:
                obs = vc.parse_ledger_stdout(out)
                exp_ud = bytes.fromhex(dev.expected_ud)
                bad = []
                if obs.get("ud") != exp_ud:
                    bad.append("UD value")
                if obs.get("keys_hash") != dev.keys_hash():
                    bad.append("keys hash")
                if obs.get("ui_hash") != dev.ui_hash or obs.get("signer_hash") != dev.signer_hash:
                    bad.append("ui/signer hash")
                if obs.get("auth_signer_hash") != dev.signer_hash or obs.get("iteration") != dev.signer_iteration:
                    bad.append("authorized signer")
                if not legacy and (obs.get("powhsm") or {}).get("best_block") != dev.best_block:
                    bad.append("best block")
                if not legacy and (obs.get("powhsm") or {}).get("timestamp") != dev.timestamp:
                    bad.append("timestamp")
                if bad:
                    res["violations"].append({"key": "C15:ledger-values", "what": "verification printed values "
                                              "that are not the device's: %s" % bad})
                if len(res["samples"]) < 2:
                    res["samples"].append({"flow": "ledger", "legacy": legacy, "stage": stage})
            alts = LEDGER_ALTER if (ctx["tier"] == "thorough" or i == 0) else LEDGER_ALTER[:3]
            if kw and ctx["tier"] == "quick":
                alts = []            # alterations once per framing in the quick tier
            for what in alts:
                alter = {what: (rng.randrange(1000), rng.randrange(8))}
                stage, err, out, dev = ledger_flow(rng, tmp, legacy, alter)
                note(res, stage)
                if stage == "ok":
                    res["violations"].append({"key": "C15:ledger-alteration-accepted:%s" % what,
                                              "what": "a bit flipped in the device's %s went unnoticed: gathering "
                                                      "and verification both succeeded" % what, "alter": alter})
            stage, err, out, dev = ledger_flow(rng, tmp, legacy, None, wrong_root=True)
            note(res, stage)
            if stage == "ok":
                res["violations"].append({"key": "C15:ledger-wrong-root-accepted", "what": "verified under a "
                                          "different root of trust"})
        for ncerts, auth_len, ts in ((2, None, None), (3, 1, 2 ** 63), (3, 1000, 2 ** 64 - 1), (2, 0, 0)):
            stage, err, out, dev = sgx_flow(rng, tmp, None, ncerts=ncerts, auth_len=auth_len, timestamp=ts)
            note(res, stage)
            if stage != "ok":
                res["violations"].append({"key": "C15:sgx-genuine-fails", "what": "genuine SGX device (certs=%d, "
                                          "%s bytes of QE auth data) failed at %s: %s"
                                          % (ncerts, len(dev.auth), stage, err)})
            else:
                obs = vc.parse_sgx_stdout(out)
                if obs.get("keys_hash") != dev.keys_hash() or obs.get("mrenclave") != dev.mrenclave or \
                        obs.get("mrsigner") != dev.mrsigner or obs["powhsm"]["best_block"] != dev.best_block or \
                        obs["powhsm"]["ud"] != bytes.fromhex(UD) or obs["powhsm"]["timestamp"] != dev.timestamp:
                    res["violations"].append({"key": "C15:sgx-values", "what": "verification printed values that "
                                              "are not the device's"})
                if len(res["samples"]) < 3:
                    res["samples"].append({"flow": "sgx", "certs": ncerts, "stage": stage})
        alts = SGX_ALTER if (ctx["tier"] == "thorough" or i == 0) else SGX_ALTER[:3]
        for what in alts:
            alter = {what: (rng.randrange(5000), rng.randrange(8))}
            stage, err, out, dev = sgx_flow(rng, tmp, alter)
            note(res, stage)
            if stage == "ok" and what == "certs" and not certs_changed(dev):
                # the flipped bit fell in the PEM armour (a line break, the END marker, unused padding bits):
                # every certificate of the chain decodes to the same DER, so no certificate was altered
                res["distribution"]["neutral_armour_alterations"] = \
                    res["distribution"].get("neutral_armour_alterations", 0) + 1
                continue
            if stage == "ok":
                res["violations"].append({"key": "C15:sgx-alteration-accepted:%s" % what,
                                          "what": "a bit flipped in the device's %s went unnoticed" % what,
                                          "alter": alter})
        stage, err, out, dev = sgx_flow(rng, tmp, None, wrong_root=True)
        note(res, stage)
        if stage == "ok":
            res["violations"].append({"key": "C15:sgx-wrong-root-accepted", "what": "verified under a different "
                                      "root of trust"})
        for rv in ("sig-bit", "expired"):
            stage, err, out, dev = sgx_flow(rng, tmp, None, root_variant=rv)
            note(res, stage)
            if stage == "ok":
                res["violations"].append({"key": "C15:sgx-altered-root-accepted:%s" % rv,
                                          "what": "verified against an altered root of trust (%s) that still "
                                                  "carries the genuine key" % rv})
    gather_correspondence(ctx, res)
    return res


GHEADER = "From PowHsm Require Import Model.Gather Model.CaseCheckGather.\nOpen Scope N_scope.\n"


def gather_correspondence(ctx, res):
    """envelope parsing, r||s -> DER and get_device_key slicing: model vs implementation"""
    import ecdsa
    from coqgen import c_bytes, c_list, c_opt
    from sgx.envelope import SgxEnvelope
    from admin.dongle_admin import DongleAdmin
    rng = ctx["rng"]
    n = 12 if ctx["tier"] == "quick" else 300
    gterms, gdescs, sterms, dterms = [], [], [], []
    for i in range(n):
        dev = genuine.GenuineSgx(rng, ncerts=rng.choice([1, 2, 3]), auth_len=rng.choice([0, 1, 32, 1000]))
        dev.ud = gen.rbytes(rng, 32)
        env_b = dev.envelope()
        custom = dev.message()
        variants = [(env_b, custom)]
        for _ in range(4):
            r = rng.random()
            if r < 0.3:
                variants.append((env_b[:rng.randrange(len(env_b))], custom))
            elif r < 0.5:
                variants.append((env_b + gen.rbytes(rng, 2), custom))
            elif r < 0.7:
                b = bytearray(env_b)
                j = rng.randrange(1012, min(len(b), 1030))
                b[j] ^= 1 << rng.randrange(8)
                variants.append((bytes(b), custom))
            else:
                variants.append((env_b, custom[:-1]))
        for eb, cu in variants:
            try:
                e = SgxEnvelope(eb, cu)
                parsed = (e.quote.get_raw_data(), e.quote_auth_data.signature.r + e.quote_auth_data.signature.s,
                          e.quote_auth_data.attestation_key.x + e.quote_auth_data.attestation_key.y,
                          e.quote_auth_data.qe_report_body.get_raw_data(),
                          e.quote_auth_data.qe_report_body_signature.r + e.quote_auth_data.qe_report_body_signature.s,
                          e.qe_auth_data.data, e.qe_cert_data.certs)
            except Exception:
                parsed = None
            res["evaluations"] += 1
            if parsed is None:
                pt = "None"
            else:
                pt = "(Some (%s, %s, %s, %s, %s, %s, %s))" % tuple(
                    [c_bytes(x) for x in parsed[:6]] + [c_list(c_bytes(c) for c in parsed[6])])
            gterms.append("(mkGcase %s %s %s)" % (c_bytes(eb), c_bytes(cu), pt))
            gdescs.append({"env_len": len(eb), "parsed": parsed is not None})
        rs = gen.rbytes(rng, 64) if i % 3 else b"\x00" * rng.randrange(1, 31) + gen.rbytes(rng, 64)[:64]
        rs = (rs + b"\x00" * 64)[:64]
        r_, s_ = ecdsa.util.sigdecode_string(rs, ecdsa.NIST256p.order)
        sterms.append("(%s, %s)" % (c_bytes(rs), c_bytes(ecdsa.util.sigencode_der(r_, s_, ecdsa.NIST256p.order))))
        # get_device_key slicing on random responses
        hl, kl, sl = rng.randrange(0, 6), rng.choice([65, 33, 0]), rng.randrange(0, 73)
        resp = bytes([hl]) + gen.rbytes(rng, hl) + bytes([kl]) + gen.rbytes(rng, kl) + bytes([sl]) + gen.rbytes(rng, sl)
        if i % 4 == 0:
            resp = resp[:rng.randrange(len(resp))]
        adm = DongleAdmin(False)
        adm.dongle = type("D", (), {"opened": True, "exchange": staticmethod(lambda c, timeout=None: bytearray(resp))})()
        try:
            ki = adm.get_device_key()
            kt = "(Some (%s, %s))" % (c_bytes(bytes.fromhex(ki["message"])), c_bytes(bytes.fromhex(ki["signature"])))
        except Exception:
            kt = "None"
        dterms.append("(%s, %s)" % (c_bytes(resp), kt))
    for name, chk, terms, descs in (("genv", "check_gcase", gterms, gdescs),
                                    ("gder", "check_sigder", sterms, [{"i": k} for k in range(len(sterms))]),
                                    ("gdev", "check_devkey", dterms, [{"i": k} for k in range(len(dterms))])):
        c, m, e = funcases.run(ctx, name, GHEADER, chk, terms, descs, shard=20)
        res["compared"] += c
        res["mismatches"] += m
        res["corr_errors"] += e


def note(res, stage):
    res["evaluations"] += 1
    res["distinct"] += 1
    res["distribution"][stage] = res["distribution"].get(stage, 0) + 1
