"""C04 — device outcomes map onto the result codes documented for each command."""
import json
import os
import gen
import commands
import stack
from . import servercases

LEVEL = "proof"
RULE = ("for each command shape (sign auth legacy/segwit, unauth, v1, getPubKey, advance with brothers / "
        "partial, updateAncestor, reset, state, parameters, both heartbeats) the honest exchange is "
        "recorded, then every exchange step is replayed with a status word (boundary set in quick, all "
        "65536 in thorough), a timeout, a link error, an unexpected opcode and a short answer injected at "
        "that step; non-trivial = injected fault reached; distinct by (shape, step, fault)")
EXPLANATION = ("Theorems C04_* bound every handler's result codes by the generated translation tables and "
               "ladders and check those tables against the documented sets; the step x status matrix is "
               "tabulated on the implementation and compared cell by cell with the model.")
TRUSTED_BASE = ["Coq 8.16.1 kernel (vm_compute)", "tools/gen_tables.py (tables, ladders, docs/protocol.md code lists)",
                "harness: fake transport, honest device simulator, fault injector",
                "hand-written status/name specification (firmware bc_err.h, auth.h vs docs/protocol.md)",
                "hand-written Gallina model tied by differential runs"]
ASSUMPTIONS = ["status words 0x9000/0x61xx/0x6Cxx are the transport's success words and never appear as errors"]

ADV = 0x6B87


def adv(n):
    return ADV + n


# hand-written: status whose cause the documentation names -> the documented code (per exchange op)
NAMED = {
    "sign-tx": ({0x6A88, 0x6A8D, 0x6A8E, 0x6A97, 0x6A98}, -102),
    "sign-receipt": ({0x6A8A, 0x6A8B, 0x6A8C}, -101),
    "sign-proof": ({0x6A92, 0x6A93, 0x6A94, 0x6A95, 0x6A96}, -101),
    "sign-unauth": ({0x6A8F}, -103),
    "pubkey": ({0x6A8F, 0x6A87}, -103),
}
ADV_NAMED = {}
for n in (1, 2, 3, 4, 6, 7, 8, 9, 10, 12, 16, 17, 18):     # invalid blocks
    ADV_NAMED[adv(n)] = -204
for n in (11, 13, 14, 15, 22):                              # PoW
    ADV_NAMED[adv(n)] = -202
ADV_NAMED[adv(19)] = -201
for n in (23, 24, 25, 26):
    ADV_NAMED[adv(n)] = -205
UPD_NAMED = {adv(19): -201, adv(21): -203}
for n in (1, 2, 3, 4, 5, 6, 9, 12, 18):
    UPD_NAMED[adv(n)] = -204


def is_transport_ok(sw):
    return sw == 0x9000 or (sw & 0xFF00) in (0x6100, 0x6C00)


def user_defined(sw):
    return 0x69A0 <= sw <= 0x6BFF or sw == 0x6D00


def boundary_words():
    ws = set()
    for base in list(range(0x6A87, 0x6A99)) + list(range(0x6B87, 0x6BA3)) + \
            [0x69A0, 0x6BFF, 0x6C00, 0x6D00, 0x6F00, 0x9000, 0x6100, 0x61FF, 0x6A01, 0x6A02, 0x6A99,
             0x6BEE, 0x6BF1, 0, 0xFFFF, 0x6E00, 0x6E11, 0x6D01, 0x6CFF, 0x699F]:
        for d in (-1, 0, 1):
            w = base + d
            if 0 <= w <= 0xFFFF and not is_transport_ok(w):
                ws.add(w)
    return sorted(ws)


def doc_codes():
    with open(os.path.join(os.path.dirname(__file__), "..", "..", "build", "doc_codes.json")) as f:
        return json.load(f)


def step_kind(name, apdu):
    """which exchange of the command this APDU belongs to (for the named-status spec)"""
    cmd, op = apdu[1], (apdu[2] if len(apdu) > 2 else None)
    if name.startswith("sign-auth"):
        return {1: "sign-path", 2: "sign-tx", 4: "sign-receipt", 8: "sign-proof"}.get(op)
    if name in ("sign-unauth", "sign-v1"):
        return "sign-unauth"
    if name.startswith("getPubKey"):
        return "pubkey"
    if name.startswith("advance") and op in (4, 9):
        return "adv-chunk"
    if name.startswith("advance") and op == 7:
        return "adv-brolist-meta"
    if name.startswith("update") and op == 4:
        return "upd-chunk"
    return None


def make_oracle(docs):
    def oracle(case, obs):
        meta = case["meta"]
        r = obs["replies"][-1]
        j = stack.reply_json(r)
        cmdname = meta["command"]
        fault = meta["fault"]
        if fault[0] == "S" and user_defined(fault[1]) and meta["reached"](obs):
            if r["stop"] or j is None or "errorcode" not in j:
                return {"key": "C04:%s:in-range-status-stops" % cmdname,
                        "what": "status %s in the device's error range at step %d of %s stops the "
                                "manager (reply %r)" % (hex(fault[1]), meta["step"], meta["name"], r["raw"])}
        if j is None or not isinstance(j.get("errorcode"), int):
            return None      # unanswered / stopped: allowed outside the device range (C03 covers requests)
        code = j["errorcode"]
        if case["mode"] == "v5":
            allowed = set(docs["codes"][cmdname]) | set(docs["generic"])
            if code not in allowed:
                return {"key": "C04:%s:undocumented-code" % cmdname,
                        "what": "%s answered %d which the documentation does not list" % (cmdname, code)}
        if fault[0] != "none" and meta["reached"](obs) and code in (0, 1) and not meta.get("benign"):
            return {"key": "C04:%s:ok-without-success" % cmdname,
                    "what": "code %d although the device did not report success (fault %r at step %d)"
                            % (code, fault, meta["step"])}
        if fault[0] == "none" and code != meta["honest_code"]:
            return {"key": "C04:honest", "what": "honest run expected %d got %d" % (meta["honest_code"], code)}
        if fault[0] == "S" and case["mode"] == "v5" and meta["reached"](obs):
            sk = meta["step_kind"]
            want = None
            if sk in NAMED and fault[1] in NAMED[sk][0]:
                want = NAMED[sk][1]
            elif sk == "adv-chunk":
                want = ADV_NAMED.get(fault[1])
            elif sk == "upd-chunk":
                want = UPD_NAMED.get(fault[1])
            elif sk == "adv-brolist-meta":
                # the firmware answers "too many brothers" to the brother count itself (bc_advance.c)
                want = {adv(23): -205}.get(fault[1])
            if want is not None and code != want:
                return {"key": "C04:%s:named-status" % cmdname,
                        "what": "status %s at %s should yield %d, got %d" % (hex(fault[1]), sk, want, code)}
        return None
    return oracle


QUICK_WORDS = [0x6A87, 0x6A88, 0x6A8A, 0x6A8F, 0x6A94, 0x6B87, 0x6B88, 0x6B92, 0x6B9A, 0x6B9C, 0x6B9D,
               0x6B9E, 0x69A0, 0x6BFF, 0x6D00, 0x6F00, 0x699F, 0x6E00]


def gen_cases(rng, tier, words=None):
    cases = []
    words = words or (QUICK_WORDS if tier == "quick" else boundary_words())
    for name, mode, req, dev in commands.standard_requests(rng):
        answers, obs = commands.honest_transcript(mode, req, dev)
        j = stack.reply_json(obs["replies"][-1])
        apdus = [e[1] for e in obs["trace"] if e[0] == "A"]
        cmdname = req["command"]
        base = {"name": name, "command": cmdname, "honest_code": j["errorcode"]}
        cases.append({"mode": mode, "kind": "ledger", "lines": [gen.line(req)], "script": list(answers),
                      "meta": dict(base, fault=("none",), step=-1, reached=lambda o: True, step_kind=None)})
        for i in range(len(answers)):
            ok_ans = answers[i]
            faults = [("S", w) for w in words] + [("T",), ("W",), ("R",), ("E", "ValueError")]
            if ok_ans[0] == "D" and len(ok_ans[1]) > 2:
                b = bytearray(ok_ans[1])
                b[2] = 0x55
                faults.append(("D", bytes(b)))          # unexpected opcode in the answer
            for f in faults:
                script = list(answers[:i]) + [f]
                n_at = i

                def reached(o, n_at=n_at):
                    return len([e for e in o["trace"] if e[0] == "A"]) > n_at
                benign = (name.startswith("uiHeartbeat") and apdus[i][1] == 0xFF and f[0] in ("W", "R")) \
                    or (f[0] == "D" and cmdname in ("getPubKey", "blockchainParameters",
                                                    "signerHeartbeat", "uiHeartbeat"))
                cases.append({"mode": mode, "kind": "ledger", "lines": [gen.line(req)], "script": script,
                              "meta": dict(base, fault=f, step=i, reached=reached, benign=benign,
                                           step_kind=step_kind(name, apdus[i]))})
    return cases


def run(ctx):
    docs = doc_codes()
    words = None
    cases = gen_cases(ctx["rng"], ctx["tier"], words)
    res = servercases.run(ctx, cases, make_oracle(docs), shard=150)
    res["exhaustive"] = ctx["tier"] == "thorough"
    return res
