"""C04 — device outcomes map onto the result codes documented for each command."""
import json
import os
import gen
import commands
import stack
from . import servercases

LEVEL = "proof"
RULE = ("for each command shape (sign auth legacy/segwit, unauth, v1, getPubKey, advance with brothers / "
        "partial, updateAncestor, reset, state, parameters, both heartbeats) the honest exchange is "
        "recorded, then every exchange step is replayed with a status word (18 words in quick, ~200 boundary "
        "words in thorough, and in thorough ALL 65536 words at one step of every distinct kind of exchange "
        "(command x mode x instruction x operation), compared with the model run-length encoded), a timeout, a link error, an unexpected opcode and a short answer injected at "
        "that step; non-trivial = injected fault reached; distinct by (shape, step, fault)")
EXPLANATION = ("Theorems C04_* bound every handler's result codes by the generated translation tables and "
               "ladders and check those tables against the documented sets; the step x status matrix is "
               "tabulated on the implementation and compared cell by cell with the model.")
TRUSTED_BASE = ["Coq 8.16.1 kernel (vm_compute)", "tools/gen_tables.py (tables, ladders, docs/protocol.md code lists)",
                "harness: fake transport, honest device simulator, fault injector",
                "hand-written status/name specification (firmware bc_err.h, auth.h vs docs/protocol.md)",
                "hand-written Gallina model tied by differential runs"]
ASSUMPTIONS = ["status words 0x9000/0x61xx/0x6Cxx are the transport's success words and never appear as errors"]

ADV = 0x6B87


def adv(n):
    return ADV + n


# hand-written: status whose cause the documentation names -> the documented code (per exchange op)
NAMED = {
    "sign-tx": ({0x6A88, 0x6A8D, 0x6A8E, 0x6A97, 0x6A98}, -102),
    "sign-receipt": ({0x6A8A, 0x6A8B, 0x6A8C}, -101),
    "sign-proof": ({0x6A92, 0x6A93, 0x6A94, 0x6A95, 0x6A96}, -101),
    "sign-unauth": ({0x6A8F}, -103),
    "pubkey": ({0x6A8F, 0x6A87}, -103),
}
ADV_NAMED = {}
for n in (1, 2, 3, 4, 6, 7, 8, 9, 10, 12, 16, 17, 18):     # invalid blocks
    ADV_NAMED[adv(n)] = -204
for n in (11, 13, 14, 15, 22):                              # PoW
    ADV_NAMED[adv(n)] = -202
ADV_NAMED[adv(19)] = -201
for n in (23, 24, 25, 26):
    ADV_NAMED[adv(n)] = -205
UPD_NAMED = {adv(19): -201, adv(21): -203}
for n in (1, 2, 3, 4, 5, 6, 9, 12, 18):
    UPD_NAMED[adv(n)] = -204


def is_transport_ok(sw):
    return sw == 0x9000 or (sw & 0xFF00) in (0x6100, 0x6C00)


def user_defined(sw):
    return 0x69A0 <= sw <= 0x6BFF or sw == 0x6D00


def boundary_words():
    ws = set()
    for base in list(range(0x6A87, 0x6A99)) + list(range(0x6B87, 0x6BA3)) + \
            [0x69A0, 0x6BFF, 0x6C00, 0x6D00, 0x6F00, 0x9000, 0x6100, 0x61FF, 0x6A01, 0x6A02, 0x6A99,
             0x6BEE, 0x6BF1, 0, 0xFFFF, 0x6E00, 0x6E11, 0x6D01, 0x6CFF, 0x699F]:
        for d in (-1, 0, 1):
            w = base + d
            if 0 <= w <= 0xFFFF and not is_transport_ok(w):
                ws.add(w)
    return sorted(ws)


def doc_codes():
    with open(os.path.join(os.path.dirname(__file__), "..", "..", "build", "doc_codes.json")) as f:
        return json.load(f)


def step_kind(name, apdu):
    """which exchange of the command this APDU belongs to (for the named-status spec)"""
    cmd, op = apdu[1], (apdu[2] if len(apdu) > 2 else None)
    if name.startswith("sign-auth"):
        return {1: "sign-path", 2: "sign-tx", 4: "sign-receipt", 8: "sign-proof"}.get(op)
    if name in ("sign-unauth", "sign-v1"):
        return "sign-unauth"
    if name.startswith("getPubKey"):
        return "pubkey"
    if name.startswith("advance") and op in (4, 9):
        return "adv-chunk"
    if name.startswith("advance") and op == 7:
        return "adv-brolist-meta"
    if name.startswith("update") and op == 4:
        return "upd-chunk"
    return None


def make_oracle(docs):
    def oracle(case, obs):
        meta = case["meta"]
        r = obs["replies"][-1]
        j = stack.reply_json(r)
        cmdname = meta["command"]
        fault = meta["fault"]
        if fault[0] == "connfail":
            # the device cannot be reached at all when the command starts (pending repair fails)
            if r["stop"] or j is None or not isinstance(j.get("errorcode"), int):
                return {"key": "C04:%s:unreachable-device-stops" % cmdname,
                        "what": "%s with the device unreachable (reconnection fails) stops the manager / "
                                "gives no code (reply %r)" % (meta["name"], r["raw"])}
            if j["errorcode"] in (0, 1):
                return {"key": "C04:%s:ok-without-success" % cmdname, "what": "success code although the "
                        "device could not be reached"}
        if fault[0] == "S" and user_defined(fault[1]) and meta["reached"](obs):
            if r["stop"] or j is None or "errorcode" not in j:
                return {"key": "C04:%s:in-range-status-stops" % cmdname,
                        "what": "status %s in the device's error range at step %d of %s stops the "
                                "manager (reply %r)" % (hex(fault[1]), meta["step"], meta["name"], r["raw"])}
        if fault[0] in ("T", "W", "R") and meta["reached"](obs) and not meta.get("benign"):
            # a time-out or a link error is an outcome of the exchange like any other: it gets a code
            if r["stop"] or j is None or not isinstance(j.get("errorcode"), int):
                return {"key": "C04:%s:link-outcome-without-code" % cmdname,
                        "what": "%s at step %d of %s: reply %r, manager stopped: %s"
                                % ({"T": "time-out", "W": "write error", "R": "read error"}[fault[0]],
                                   meta["step"], meta["name"], r["raw"][:60], r["stop"])}
        if fault[0] == "none" and (r["stop"] or j is None or not isinstance(j.get("errorcode"), int)):
            return {"key": "C04:%s:honest-without-code" % cmdname,
                    "what": "%s against an honest device: reply %r, manager stopped: %s"
                            % (meta["name"], r["raw"][:80], r["stop"])}
        if j is None or not isinstance(j.get("errorcode"), int):
            return None      # unanswered / stopped: allowed outside the device range (C03 covers requests)
        code = j["errorcode"]
        if case["mode"] == "v5":
            allowed = set(docs["codes"][cmdname]) | set(docs["generic"])
            if code not in allowed:
                return {"key": "C04:%s:undocumented-code" % cmdname,
                        "what": "%s answered %d which the documentation does not list" % (cmdname, code)}
        if fault[0] != "none" and meta["reached"](obs) and code in (0, 1) and not meta.get("benign"):
            return {"key": "C04:%s:ok-without-success" % cmdname,
                    "what": "code %d although the device did not report success (fault %r at step %d)"
                            % (code, fault, meta["step"])}
        if fault[0] == "none" and code != meta["honest_code"]:
            return {"key": "C04:honest", "what": "honest run expected %d got %d" % (meta["honest_code"], code)}
        if fault[0] == "S" and case["mode"] == "v5" and meta["reached"](obs):
            sk = meta["step_kind"]
            want = None
            if sk in NAMED and fault[1] in NAMED[sk][0]:
                want = NAMED[sk][1]
            elif sk == "adv-chunk":
                want = ADV_NAMED.get(fault[1])
            elif sk == "upd-chunk":
                want = UPD_NAMED.get(fault[1])
            elif sk == "adv-brolist-meta":
                # the firmware answers "too many brothers" to the brother count itself (bc_advance.c)
                want = {adv(23): -205}.get(fault[1])
            if want is not None and code != want:
                return {"key": "C04:%s:named-status" % cmdname,
                        "what": "status %s at %s should yield %d, got %d" % (hex(fault[1]), sk, want, code)}
        return None
    return oracle


# opcodes by which the device reports that the whole command succeeded (firmware: bc_advance.h / bc_ancestor.h /
# auth.h): total or partial success of advanceBlockchain, success of updateAncestorBlock, signature of sign
SUCCESS_OPS = {"advanceBlockchain": (5, 6), "updateAncestorBlock": (5,), "sign": (0x81,)}

QUICK_WORDS = [0x6A87, 0x6A88, 0x6A8A, 0x6A8F, 0x6A94, 0x6B87, 0x6B88, 0x6B92, 0x6B9A, 0x6B9C, 0x6B9D,
               0x6B9E, 0x69A0, 0x6BFF, 0x6D00, 0x6F00, 0x699F, 0x6E00]


def gen_cases(rng, tier, words=None):
    cases = []
    words = words or (QUICK_WORDS if tier == "quick" else boundary_words())
    for name, mode, req, dev in commands.standard_requests(rng):
        answers, obs = commands.honest_transcript(mode, req, dev)
        j = stack.reply_json(obs["replies"][-1])
        apdus = [e[1] for e in obs["trace"] if e[0] == "A"]
        cmdname = req["command"]
        # the code an honest run must produce is what the DEVICE reported (0 total / 1 partial success), not what
        # the implementation made of it
        dv = commands.device_verdict(cmdname, obs["device"])
        if j is None or not isinstance(j.get("errorcode"), int):
            # the honest exchange itself ends without a result code: reported by the oracle below
            cases.append({"mode": mode, "kind": "ledger", "lines": [gen.line(req)], "device": dev(),
                          "meta": {"name": name, "command": cmdname, "honest_code": 0 if dv is None else dv,
                                   "fault": ("none",), "step": -1, "reached": (lambda o: True), "step_kind": None}})
            continue
        base = {"name": name, "command": cmdname, "honest_code": j["errorcode"] if dv is None else dv}
        cases.append({"mode": mode, "kind": "ledger", "lines": [gen.line(req)], "script": list(answers),
                      "meta": dict(base, fault=("none",), step=-1, reached=lambda o: True, step_kind=None)})
        if answers:
            cases.append({"mode": mode, "kind": "ledger", "lines": [gen.line(req)], "script": [],
                          "issue": True, "connects": [False],
                          "meta": dict(base, fault=("connfail",), step=-1, reached=lambda o: True,
                                       step_kind=None)})
        for i in range(len(answers)):
            ok_ans = answers[i]
            faults = [("S", w) for w in words] + [("T",), ("W",), ("R",), ("E", "ValueError")]
            if ok_ans[0] == "D" and len(ok_ans[1]) > 2:
                # an answer carrying another opcode than the one the exchange calls for: an opcode no protocol
                # knows, and (at the first and the last three steps in the quick tier, everywhere in the
                # thorough one) every other opcode of the device's own protocols - "go on with the next
                # header / chunk / brother" where the exchange should end, and so on - except the ones by which
                # the device REPORTS success (those are not faults: a success code is then legitimate)
                ops = [0x55]
                if tier != "quick" or i == 0 or i >= len(answers) - 3:
                    ops += [o for o in (1, 2, 3, 4, 7, 8, 9, 10, 0x80) if o not in SUCCESS_OPS.get(cmdname, ())]
                for o in ops:
                    if o == ok_ans[1][2]:
                        continue
                    b = bytearray(ok_ans[1])
                    b[2] = o
                    faults.append(("D", bytes(b)))
            for f in faults:
                script = list(answers[:i]) + [f]
                n_at = i

                def reached(o, n_at=n_at):
                    return len([e for e in o["trace"] if e[0] == "A"]) > n_at
                benign = (name.startswith("uiHeartbeat") and apdus[i][1] == 0xFF and f[0] in ("W", "R")) \
                    or (f[0] == "D" and cmdname in ("getPubKey", "blockchainParameters",
                                                    "signerHeartbeat", "uiHeartbeat"))
                cases.append({"mode": mode, "kind": "ledger", "lines": [gen.line(req)], "script": script,
                              "meta": dict(base, fault=f, step=i, reached=reached, benign=benign,
                                           step_kind=step_kind(name, apdus[i]))})
    # histories: the named statuses of one block command after the other block command has run on the
    # same manager (tables shared between the two must not leak one command's codes into the other)
    std = {name: (mode, req, dev) for name, mode, req, dev in commands.standard_requests(rng)}
    for first, second in (("advanceBlockchain", "updateAncestorBlock"), ("updateAncestorBlock", "advanceBlockchain")):
        m1, r1, d1 = std[first]
        m2, r2, d2 = std[second]
        a1, _ = commands.honest_transcript(m1, r1, d1)
        a2, o2 = commands.honest_transcript(m2, r2, d2)
        ap2 = [e[1] for e in o2["trace"] if e[0] == "A"]
        j2 = stack.reply_json(o2["replies"][-1])
        chunk_steps = [i for i, a in enumerate(ap2) if step_kind(second, a) in ("adv-chunk", "upd-chunk")][:2]
        for i in chunk_steps:
            for w in sorted(set(ADV_NAMED) | set(UPD_NAMED)):
                n_at = len(a1) + i
                cases.append({"mode": "v5", "kind": "ledger", "lines": [gen.line(r1), gen.line(r2)],
                              "script": list(a1) + list(a2[:i]) + [("S", w)],
                              "meta": {"name": second, "command": r2["command"], "honest_code": j2["errorcode"],
                                       "fault": ("S", w), "step": i, "benign": False,
                                       "reached": (lambda o, n_at=n_at: len([e for e in o["trace"] if e[0] == "A"]) > n_at),
                                       "step_kind": step_kind(second, ap2[i]), "history": first}})
    return cases


SWEEP_HEADER = "From PowHsm Require Import Model.CaseCheckSweep.\nOpen Scope N_scope.\n"


def _sweep_task(args):
    """all 65536 status words at one step of one shape: returns (coq term, violations, nclasses)"""
    import random as _r
    shape_idx, step, seed = args
    shapes = commands.standard_requests(_r.Random(seed), compact=True)
    name, mode, req, dev = shapes[shape_idx]
    answers, obs0 = commands.honest_transcript(mode, req, dev)
    apdus = [e[1] for e in obs0["trace"] if e[0] == "A"]
    docs = doc_codes()
    oracle = make_oracle(docs)
    j0 = stack.reply_json(obs0["replies"][-1])
    base = {"name": name, "command": req["command"], "honest_code": j0["errorcode"]}
    classes, index, runs, viol = [], {}, [], []
    cur = None
    for w in range(65536):
        case = {"mode": mode, "kind": "ledger", "lines": [gen.line(req)],
                "script": list(answers[:step]) + [("S", w)],
                "meta": dict(base, fault=("S", w), step=step, benign=False,
                             reached=(lambda o, n_at=step: len([e for e in o["trace"] if e[0] == "A"]) > n_at),
                             step_kind=step_kind(name, apdus[step]))}
        obs = stack.run_case(case)
        v = oracle(case, obs)
        if v and len(viol) < 5:
            v = dict(v)
            v["case"] = servercases.describe(case, obs)
            viol.append(v)
        rep = []
        expressible = True
        for r in obs["replies"]:
            j = stack.reply_json(r)
            if j is None or r["escaped"] is not None:
                expressible = False
                break
            rep.append("(%s, %s)" % (stack.c_json(j), stack.c_bool(r["stop"])))
        if not expressible:
            key = ("inexpressible", repr([(r["raw"], r["stop"], r["escaped"]) for r in obs["replies"]]))
            term = None
        else:
            term = "(%s, %s, %s)" % (stack.c_list(rep), stack.c_list(stack.c_event(e) for e in obs["trace"]),
                                     stack.c_bool(obs["issue_after"]))
            key = term
        if key not in index:
            index[key] = len(classes)
            classes.append(term)
        k = index[key]
        if cur is not None and cur[2] == k:
            cur[1] = w
        else:
            cur = [w, w, k]
            runs.append(cur)
    if any(c is None for c in classes):
        return None, viol + [{"key": "C04:%s:sweep-inexpressible" % req["command"],
                              "what": "some status word at step %d of %s gives an answer that is not one "
                                      "JSON line" % (step, name)}], len(classes)
    honest_case = {"mode": mode, "kind": "ledger", "lines": [gen.line(req)], "script": list(answers)}
    sc = stack.to_scase(honest_case, obs0)
    term = "(mkSweep %s %d%%nat %s %s)" % (
        sc, step, stack.c_list("(%d, %d, %d%%nat)" % (a, b, k) for a, b, k in runs), stack.c_list(classes))
    import coqgen as _cg
    return _cg.expand(term), viol, len(classes)


def sweep(ctx, res):
    """thorough tier: every status word at every step of every shape, implementation vs model"""
    import concurrent.futures
    import multiprocessing
    import coqgen
    seed = ctx["seed"] * 31 + 5
    import random as _r
    shapes = commands.standard_requests(_r.Random(seed), compact=True)
    tasks = []
    kinds = set()
    for si, (name, mode, req, dev) in enumerate(shapes):
        answers, obs = commands.honest_transcript(mode, req, dev)
        apdus = [e[1] for e in obs["trace"] if e[0] == "A"]
        for st in range(len(answers)):
            # one sweep per distinct kind of exchange (command, protocol mode, instruction, operation):
            # the other steps of the same kind get the boundary words above
            k = (req["command"], mode, apdus[st][1], apdus[st][2] if len(apdus[st]) > 2 else None)
            if k in kinds:
                continue
            kinds.add(k)
            tasks.append((si, st, seed))
    limit = int(os.environ.get("VERIF_SWEEP_LIMIT", "0"))
    if limit:
        tasks = tasks[:limit]
    with concurrent.futures.ProcessPoolExecutor(max_workers=14,
                                                mp_context=multiprocessing.get_context("fork")) as ex:
        out = list(ex.map(_sweep_task, tasks, chunksize=1))
    terms = []
    for (si, st, _), (term, viol, ncl) in zip(tasks, out):
        res["violations"] += viol
        res["evaluations"] += 65536
        if term is not None:
            terms.append(term)
    n, bad, errs = coqgen.run_case_files(os.path.join(ctx["workdir"], "sweep"), SWEEP_HEADER, "check_sweep",
                                         terms, shard=1, timeout=14000)
    res["compared"] += n * 65536
    res["corr_errors"] += errs
    for b in bad[:10]:
        si, st, _ = tasks[b]
        res["mismatches"].append({"what": "model and implementation disagree for some status word at step %d "
                                          "of shape %s (sweep)" % (st, shapes[si][0])})
    res["notes"].append("sweep: %d (shape, step) pairs x 65536 status words" % len(tasks))
    return len(tasks)


def run(ctx):
    docs = doc_codes()
    words = None
    cases = gen_cases(ctx["rng"], ctx["tier"], words)
    res = servercases.run(ctx, cases, make_oracle(docs), shard=150)
    res["exhaustive"] = False
    if ctx["tier"] == "thorough" or os.environ.get("VERIF_SWEEP"):
        sweep(ctx, res)
        res["exhaustive"] = True
    return res
