"""C17 — signer authorizations contain what the device will check."""
import hashlib
import json
import os
import sys
import ecdsa
import env
import gen
import ihexgen
import certs
from coqgen import c_bool, c_bytes, c_json, c_list, c_opt, c_resp, c_str, c_Z
from . import funcases
from .C19 import run_main

LEVEL = "proof"
RULE = ("authorization documents over random 32-byte hashes x iterations {0, 1, 65535, -1, 65536, decimal / 0x / "
        "padded / underscore / full-width / malformed strings, floats, booleans} x hashes {lower, upper, blanks "
        "between bytes, wrong length, non-hex, non-string} x 0..10 signatures by random secp256k1 keys, valid and "
        "malformed DER x device thresholds (authorized after the k-th signature, never); `signapp key` and "
        "`signapp message` run for real; non-trivial = every document; distinct by document text")
EXPLANATION = ("Theorems C17_* state the message text, the Ethereum wrapping, the iteration bounds, the file round "
               "trip and the exact APDU trace of the authorize command for every device script; the model is "
               "compared with SignerAuthorization / SignerVersion / HSM2Dongle.authorize_signer on every "
               "document; produced signatures are verified with libsecp256k1 against an independently computed "
               "digest. One genuine defect found and repaired (hash with blanks, commit c8b5cbf).")
TRUSTED_BASE = ["Coq 8.16.1 kernel (vm_compute)", "tools/gen_tables.py (opcodes, iteration size)",
                "Python int() and libsecp256k1 DER parsing supplied as finite oracle tables",
                "Keccak-256 (pycryptodome) and ECDSA are oracles", "hand-written Gallina model tied by differential runs"]
ASSUMPTIONS = ["the device rebuilds the message from the 32-byte hash and 2-byte iteration it is sent"]

HEADER = "From PowHsm Require Import Model.SignerAuth Model.CaseCheckSauth.\nOpen Scope N_scope.\n"


def keccak(b):
    from Crypto.Hash import keccak as K
    return K.new(digest_bits=256).update(b).digest()


class UiSim:
    """UI side of SIGNER_AUTH: authorised after `threshold` signatures (None = never)"""

    def __init__(self, threshold):
        self.threshold = threshold
        self.count = 0
        self.sigver = None
        self.sigs = []

    reject_version = None      # status word answered to the signer-version message (e.g. 0x6a03)

    def __call__(self, apdu):
        if apdu[1] != 0x51:
            return ("S", 0x6D00)
        if apdu[2] == 1:
            self.sigver = bytes(apdu[3:])
            if self.reject_version is not None:
                self.threshold = None
                return ("S", self.reject_version)
            return ("D", bytes([0x80, 0x51, 0x01]))
        self.sigs.append(bytes(apdu[3:]))
        self.count += 1
        done = self.threshold is not None and self.count >= self.threshold
        return ("D", bytes([0x80, 0x51, 0x02, 2 if done else 1]))


def py_int(x):
    """what Python's int() reads from a decimal string, or from a hexadecimal one after 0x (the
    interpreter's own parser is the oracle; the repository's helper is not consulted)"""
    try:
        return int(x, 16) if x.startswith("0x") else int(x, 10)
    except ValueError:
        return None


def der_ok(x):
    import secp256k1
    try:
        secp256k1.PrivateKey().ecdsa_deserialize(bytes.fromhex(x))
        return True
    except Exception:
        return False


ITERATIONS = [0, 1, 5, 32767, 32768, 65535, -1, 65536, 2 ** 40, "10", "0x1f", " 7 ", "1_0", "٣", "0X10", "abc", "", "-0",
              "+5", "65536", "0x10000", 5.0, True, None, [1],
              "0o17", "0O17", "0b101", "0B1", "007", "0123", "0x", "0x0_1", "1e3"]


def run(ctx):
    from admin.signer_authorization import SignerAuthorization, SignerVersion
    from ledger.hsm2dongle import HSM2Dongle, HSM2DongleError, HSM2DongleBaseError
    import signapp
    rng = ctx["rng"]
    res = {"evaluations": 0, "compared": 0, "distinct": 0, "mismatches": [], "violations": [],
           "samples": [], "distribution": {"loaded": 0, "refused": 0, "authorized": 0, "not_authorized": 0},
           "corr_errors": [], "notes": []}
    tmp = os.path.join(ctx["workdir"], "c17")
    os.makedirs(tmp, exist_ok=True)
    terms, descs = [], []
    reps = 2 if ctx["tier"] == "quick" else 40
    docs = []
    for _ in range(reps):
        hb = gen.rbytes(rng, 32)
        if _ % 2 == 1:
            hb = bytes([0, rng.randrange(16)]) + hb[2:]          # leading zero nibbles
        hashes = [hb.hex(), hb.hex().upper(), " ".join(hb.hex()[i:i + 2] for i in range(0, 64, 2)),
                  hb.hex()[:-2], hb.hex() + "00", "zz" * 32, 5, None, hb.hex()[:-1] + "g",
                  # 64 characters that are NOT 32 bytes: fewer bytes made up to length with blanks
                  hb.hex()[:62] + "  ", hb.hex()[:30] + " \t" + hb.hex()[30:60] + "\n ", " " + hb.hex()[:62] + " "]
        key = certs.K1Key(rng)
        good_sigs = [certs.K1Key(rng).sign(b"x").hex() for _ in range(10)]
        for it in ITERATIONS:
            docs.append({"version": 1, "signer": {"hash": hashes[0], "iteration": it},
                         "signatures": good_sigs[:rng.randint(0, 3)]})
        for h in hashes:
            docs.append({"version": 1, "signer": {"hash": h, "iteration": rng.randrange(65536)},
                         "signatures": good_sigs[:rng.randint(0, 10)]})
        for bad in (["zz"], ["30"], [good_sigs[0][:-2]], [5], "30440220", [good_sigs[0], "00"], None):
            docs.append({"version": 1, "signer": {"hash": hashes[0], "iteration": 3}, "signatures": bad})
        docs.append({"version": 2, "signer": {"hash": hashes[0], "iteration": 3}, "signatures": []})
        docs.append({"version": 1.0, "signer": {"hash": hashes[0], "iteration": 3}, "signatures": []})
        docs.append({"signer": {"hash": hashes[0], "iteration": 3}, "signatures": []})
        docs.append({"version": 1, "signatures": []})
        docs.append([1])
    for doc in docs:
        path = os.path.join(tmp, "auth.json")
        json.dump(doc, open(path, "w"))
        res["evaluations"] += 1
        res["distinct"] += 1
        loaded = None
        try:
            sa = SignerAuthorization.from_jsonfile(path)
            sv = sa.signer_version
            loaded = (sv.hash, sv.iteration, sa.signatures, sv.msg)
            eth = sv.get_authorization_msg()
            resave = sa.to_dict()
        except BaseException as e:
            sa = None
            err = type(e).__name__
        ints, ders = {}, {}
        if isinstance(doc, dict) and isinstance(doc.get("signer"), dict) and \
                isinstance(doc["signer"].get("iteration"), str):
            ints[doc["signer"]["iteration"]] = py_int(doc["signer"]["iteration"])
        if isinstance(doc, dict) and isinstance(doc.get("signatures"), list):
            for x in doc["signatures"]:
                if isinstance(x, str):
                    ders[x] = der_ok(x)
        auth_term = "None"
        script = []
        if sa is None:
            res["distribution"]["refused"] += 1
            v = should_load(doc, ints, ders)
            if v is True:
                res["violations"].append({"key": "C17:well-formed-refused", "what": "well-formed authorization "
                                          "refused: %s" % err, "doc": doc})
            terms.append("(mkAcase %s %s %s [] None None None None)" % (
                c_json(doc), c_list("(%s, %s)" % (c_str(k), c_opt(v_, c_Z)) for k, v_ in ints.items()),
                c_list("(%s, %s)" % (c_str(k), c_bool(v_)) for k, v_ in ders.items())))
            descs.append({"doc": json.dumps(doc)[:300], "loaded": False})
            continue
        res["distribution"]["loaded"] += 1
        v = should_load(doc, ints, ders)
        if v is False:
            res["violations"].append({"key": "C17:malformed-accepted", "what": "malformed hash / iteration / "
                                      "signature accepted", "doc": doc})
            continue         # what follows states what holds of well-formed authorizations
        # message text and wrapping, stated independently
        hb = bytes.fromhex(doc["signer"]["hash"])
        it = doc["signer"]["iteration"]
        n = it if isinstance(it, int) else ints[it]
        want_msg = "RSK_powHSM_signer_%s_iteration_%d" % (hb.hex(), n)
        want_eth = ("\x19Ethereum Signed Message:\n%d%s" % (len(want_msg), want_msg)).encode()
        if loaded[3] != want_msg or eth != want_eth:
            res["violations"].append({"key": "C17:message-text", "what": "text to sign is %r, expected %r"
                                      % (loaded[3], want_msg)})
        if sv.get_authorization_digest() != keccak(want_eth):
            res["violations"].append({"key": "C17:digest", "what": "digest is not Keccak-256 of the wrapped text"})
        # file round trip
        json.dump(resave, open(path, "w"))
        try:
            sa2 = SignerAuthorization.from_jsonfile(path)
        except BaseException as e:
            res["violations"].append({"key": "C17:roundtrip", "what": "an authorization that loaded cannot be loaded "
                                      "again after saving: %s" % type(e).__name__, "doc": doc})
            continue
        if (sa2.signer_version.hash, sa2.signer_version.iteration, sa2.signatures) != loaded[:3]:
            res["violations"].append({"key": "C17:roundtrip", "what": "save/load changed the authorization"})
        # a refused signature leaves the authorization as it was
        for bad_sig in ("not-a-signature", "30", loaded[2][0][:-2] if loaded[2] else "3006020101", ""):
            try:
                sa2.add_signature(bad_sig)
            except BaseException:
                pass
        kept = [x for x in sa2.signatures if not der_ok(x)]
        if kept:
            res["violations"].append({"key": "C17:refused-signature-kept", "what": "a malformed signature is "
                                      "held by the authorization after add_signature: %r" % kept[:2]})
        # the authorize exchange
        thr = rng.choice([None, 1, 2, len(loaded[2]), len(loaded[2]) + 1, 0]) if loaded[2] else rng.choice([None, 1])
        ui = UiSim(thr if thr != 0 else None)
        if rng.random() < 0.15:
            # the UI refuses the signer version outright (iteration not newer than the current one, ...)
            ui.reject_version = rng.choice([0x6A03, 0x6A01, 0x6A02])
        world = env.World(device=ui)
        env.install_transport(world)
        dongle = HSM2Dongle(False)
        dongle.dongle = env.FakeDongle(world)
        try:
            ok = dongle.authorize_signer(sa) is True
        except HSM2DongleBaseError:
            ok = False           # the command failed (device error result, link error, ...)
        except BaseException as e:
            ok = False
            res["violations"].append({"key": "C17:authorize-raises:%s" % type(e).__name__,
                                      "what": "authorize_signer raised %s: %s for a well-formed authorization "
                                              "(iteration %r)" % (type(e).__name__, e, n), "doc": doc})
        apdus = [e[1] for e in world.trace if e[0] == "A"]
        script = list(world.answers)
        k = ui.threshold
        want_ok = k is not None and k <= len(loaded[2])
        want_apdus = [bytes([0x80, 0x51, 0x01]) + hb + n.to_bytes(2, "big")] + \
            [bytes([0x80, 0x51, 0x02]) + bytes.fromhex(sg) for sg in loaded[2][:(k if want_ok else len(loaded[2]))]]
        if ui.reject_version is not None:
            want_ok, want_apdus = False, want_apdus[:1]
        if ok != want_ok or apdus != want_apdus:
            res["violations"].append({"key": "C17:authorize-trace", "what": "authorize sent %d APDUs / result %s; "
                                      "expected hash+iteration then signatures in file order until the device "
                                      "reports success (%d APDUs, result %s)"
                                      % (len(apdus), ok, len(want_apdus), want_ok)})
        res["distribution"]["authorized" if ok else "not_authorized"] += 1
        auth_term = "(Some (%s, %s))" % (c_bool(ok), c_list(c_bytes(a) for a in apdus))
        terms.append("(mkAcase %s %s %s %s (Some (%s, %s, %s, %s)) (Some %s) (Some %s) %s)" % (
            c_json(doc), c_list("(%s, %s)" % (c_str(k_), c_opt(v_, c_Z)) for k_, v_ in ints.items()),
            c_list("(%s, %s)" % (c_str(k_), c_bool(v_)) for k_, v_ in ders.items()),
            c_list(c_resp(i) for i in script), c_str(loaded[0]), c_Z(loaded[1]),
            c_list(c_str(x) for x in loaded[2]), c_str(loaded[3]), c_bytes(eth), c_json(resave), auth_term))
        descs.append({"doc": json.dumps(doc)[:300], "loaded": True, "ok": ok, "threshold": k})
        if len(res["samples"]) < 3:
            res["samples"].append(descs[-1])
    # ---- the tool's own signatures verify under the signing key for that digest
    import secp256k1
    for r in range(3 if ctx["tier"] == "quick" else 30):
        areas = ihexgen.random_image(rng)
        app = os.path.join(tmp, "app.hex")
        open(app, "w").write(ihexgen.write_image(areas, ihexgen.random_sizes(rng)))
        out = os.path.join(tmp, "signer_auth_%d.json" % r)
        if os.path.exists(out):
            os.unlink(out)
        sk = ecdsa.SigningKey.from_secret_exponent(rng.randrange(1, certs.N1), curve=ecdsa.SECP256k1)
        it = rng.randrange(65536)
        code, stdout = run_main(signapp, ["signapp", "key", "-a", app, "-i", str(it), "-o", out,
                                          "-k", sk.to_string().hex()])
        res["evaluations"] += 1
        app_hash = hashlib.sha256(b"".join(d for _, d in sorted(areas))).digest()
        msg = "RSK_powHSM_signer_%s_iteration_%d" % (app_hash.hex(), it)
        digest = keccak(("\x19Ethereum Signed Message:\n%d%s" % (len(msg), msg)).encode())
        try:
            d = json.load(open(out))
            sig = bytes.fromhex(d["signatures"][-1])
            pk = secp256k1.PublicKey(sk.get_verifying_key().to_string("compressed"), raw=True)
            rs = pk.ecdsa_signature_normalize(pk.ecdsa_deserialize(sig))[1]
            good = code == 0 and d["signer"] == {"hash": app_hash.hex(), "iteration": it} and \
                pk.ecdsa_verify(digest, rs, raw=True)
        except Exception as e:
            good = False
        if not good:
            res["violations"].append({"key": "C17:tool-signature", "what": "signature written by `signapp key` "
                                      "does not verify under the signing key for the authorization digest "
                                      "(exit %r, %s)" % (code, stdout[-200:])})
    cmp_n, mism, errs = funcases.run(ctx, "c17", HEADER, "check_acase", terms, descs, shard=40)
    res["compared"] = cmp_n
    res["mismatches"] += mism
    res["corr_errors"] += errs
    return res


def should_load(doc, ints, ders):
    """True / False when the property decides it, None when it does not (ambiguous spellings)"""
    if not isinstance(doc, dict) or doc.get("version") != 1 or type(doc.get("version")) not in (int,):
        return None if isinstance(doc, dict) and doc.get("version") == 1 else False
    sg = doc.get("signer")
    if not isinstance(sg, dict):
        return False
    h = sg.get("hash")
    if not isinstance(h, str):
        return False
    import re
    if not re.fullmatch(r"[0-9a-fA-F]{64}", h):
        stripped = re.sub(r"[ \t\n\r\x0b\x0c]", "", h)
        if re.fullmatch(r"[0-9a-fA-F]{64}", stripped) and len(stripped) == 64:
            return None          # blanks between bytes: tolerated spelling of the same 32 bytes
        return False
    it = sg.get("iteration")
    if type(it) == int:
        if not (0 <= it <= 65535):
            return False
    elif type(it) == str:
        v = ints.get(it)
        if v is None or not (0 <= v <= 65535):
            return False
        if not re.fullmatch(r"[0-9]+|0x[0-9a-fA-F]+", it):
            return None          # padded / underscore / other spellings Python's int() accepts
    else:
        return False
    sigs = doc.get("signatures")
    if not isinstance(sigs, list):
        return False
    for x in sigs:
        if not isinstance(x, str) or not ders.get(x, False):
            return False
    return True
