"""C16 — loading an attestation file always terminates with a usable verdict."""
import copy
import hashlib
import json
import os
import signal
import certs
from . import funcases

LEVEL = "proof"
RULE = ("JSON documents shaped like v1 / v2 certificates with up to 12 elements: missing / mistyped / duplicated "
        "fields, unknown versions and element types, names and signers drawn from a small pool (strings, "
        "numbers, booleans equal as dict keys, lists), self-signed and mutually-signed elements, dangling "
        "signers and targets; each load and validation under a wall-clock budget; link verdicts are a fixed "
        "pseudo-random function of (element, certifier) so that every path of the walk is taken; "
        "non-trivial = the document is an object with an elements list; distinct by document text")
EXPLANATION = ("Theorems C16_* prove for the Gallina _parse / validate walk that loading terminates (the fuel "
               "`number of elements + 1` is never exhausted), that an accepted certificate gives every target "
               "a duplicate-free path to the root and hence a verdict, and that to_dict/_parse round-trips; "
               "the model is compared with HSMCertificate.from_jsonfile / validate_and_get_values / to_dict "
               "on every generated document.")
TRUSTED_BASE = ["Coq 8.16.1 kernel (vm_compute)", "tools/gen_tables.py (valid names, roots, versions, types)",
                "base64 and P-256 point re-encoding supplied to the model as finite oracle tables",
                "hand-written Gallina model tied by differential runs"]
ASSUMPTIONS = ["signature checks replaced by a fixed function of (element, certifier) on both sides: "
               "cryptography is C06/C07's subject"]


class Hang(Exception):
    pass


def with_budget(seconds, fn):
    def handler(signum, frame):
        raise Hang()
    old = signal.signal(signal.SIGALRM, handler)
    signal.setitimer(signal.ITIMER_REAL, seconds)
    try:
        return fn()
    finally:
        signal.setitimer(signal.ITIMER_REAL, 0)
        signal.signal(signal.SIGALRM, old)


QUOTE_LEN = 432


def fake_link(name, cf_name, content=b""):
    """deterministic stand-in for a signature check: depends on who signs whom and, for the SGX quote
    and attestation-key elements, on the signed bytes (so that losing bytes on save shows)"""
    h = hashlib.sha256(repr((name, cf_name, bytes(content))).encode()).digest()[0]
    return h % 4 != 0          # 75% of the links hold


def signed_bytes_impl(el):
    import admin.certificate_v2 as v2
    if isinstance(el, (v2.HSMCertificateV2ElementSGXQuote, v2.HSMCertificateV2ElementSGXAttestationKey)):
        return el._message
    return b""


def signed_bytes_doc(doc, e):
    if doc.get("version") == 2 and e.get("type") in ("sgx_quote", "sgx_attestation_key") \
            and isinstance(e.get("message"), str):
        try:
            return bytes.fromhex(e["message"])
        except ValueError:
            return b""
    return b""


def patch_links():
    import admin.certificate_v1 as v1
    import admin.certificate_v2 as v2
    saved = []

    def mk():
        def is_valid(self, certifier):
            # the real link check of a quote first parses the 432-byte quote structure and answers
            # False when it cannot: a fake link may not be more permissive than that
            if isinstance(self, v2.HSMCertificateV2ElementSGXQuote) and len(self._message) < QUOTE_LEN:
                return False
            return fake_link(canon(self.name), ("elem", canon(certifier.name))
                             if hasattr(certifier, "signed_by") else "root", signed_bytes_impl(self))
        return is_valid
    for kls in (v1.HSMCertificateElement, v2.HSMCertificateV2ElementSGXQuote,
                v2.HSMCertificateV2ElementSGXAttestationKey, v2.HSMCertificateV2ElementX509):
        saved.append((kls, kls.is_valid))
        kls.is_valid = mk()
    return saved


def unpatch(saved):
    for kls, f in saved:
        kls.is_valid = f


def canon(x):
    """dict-key identity of a JSON scalar (1 == 1.0 == True)"""
    if isinstance(x, bool):
        return int(x)
    if isinstance(x, float) and x.is_integer():
        return int(x)
    return x


NAMES_V1 = ["device", "attestation", "ui", "signer"]
POOL_V2 = ["quote", "attestation", "quoting_enclave", "platform_ca", "a", "b", 1, 1.0, True, 2, None, "sgx_root"]


def rand_hex(rng, allow_bad=True):
    r = rng.random()
    if allow_bad and r < 0.08:
        return rng.choice(["", "zz", "a", 5, None, [], "ab cd"])
    return bytes(rng.getrandbits(8) for _ in range(rng.choice([1, 8, 33, 65]))).hex()


def good_hex(rng):
    return bytes(rng.getrandbits(8) for _ in range(rng.choice([1, 8, 33, 65]))).hex()


def gen_doc(rng):
    """mostly-valid documents (a forest hanging from the root), then 0..2 mutations"""
    v2 = rng.random() < 0.5
    root = "sgx_root" if v2 else "root"
    if v2:
        names = rng.sample(["quote", "attestation", "quoting_enclave", "platform_ca", "a", "b", 1, 2, None],
                           rng.randint(1, 8))
    else:
        names = rng.sample(NAMES_V1, rng.randint(1, 4))
    els = []
    for i, nm in enumerate(names):
        r = rng.random()
        if i == 0 or r < 0.35:
            sb = root
        elif r < 0.9:
            sb = rng.choice(names[:i])
        elif r < 0.95:
            sb = rng.choice(names)          # may be itself or a later one: cycles
        else:
            sb = rng.choice(["nobody", ["x"], 7])
        if not v2:
            e = {"name": nm, "signed_by": sb, "message": good_hex(rng), "signature": good_hex(rng)}
            if rng.random() < 0.5:
                e["tweak"] = good_hex(rng)
        else:
            ty = rng.choice(["sgx_quote", "sgx_attestation_key", "x509_pem", "x509_pem"])
            e = {"name": nm, "type": ty, "signed_by": sb}
            if ty == "sgx_quote":
                qlen = rng.choice([432, 432, 432, 100, 431, 433, 500])
                e.update(message=bytes(rng.getrandbits(8) for _ in range(qlen)).hex(),
                         custom_data=good_hex(rng), signature=good_hex(rng))
            elif ty == "sgx_attestation_key":
                ln = rng.choice([384, 384, 384, 384, 100, 400])
                e.update(message=bytes(rng.getrandbits(8) for _ in range(ln)).hex(),
                         key=rng.choice([GOOD_KEY_RAW, GOOD_KEY_UNCOMP, GOOD_KEY_COMP, GOOD_KEY_RAW,
                                         good_hex(rng)]),
                         auth_data=rng.choice([good_hex(rng), good_hex(rng), good_hex(rng), ""]),
                         signature=good_hex(rng))
            else:
                e.update(message=rng.choice(["QUJD", "QUJDRA==", "QU JD", "QUJDRA"]))
        els.append(e)
    targets = [rng.choice(names) for _ in range(rng.randint(0, 3))]
    if len(els) >= 2 and rng.random() < 0.1:
        # a lasso: a target whose chain of certifiers runs into a cycle it is not itself part of
        # (t -> a -> a, or t -> a -> b -> a)
        k = rng.choice([1, 2]) if len(els) >= 3 else 1
        loop = rng.sample(range(len(els)), k + 1)
        t_i, cyc = loop[0], loop[1:]
        for j, ci in enumerate(cyc):
            els[ci]["signed_by"] = els[cyc[(j + 1) % len(cyc)]]["name"]
        els[t_i]["signed_by"] = els[cyc[0]]["name"]
        targets = [els[t_i]["name"]] + targets[:1]
    if v2 and els and rng.random() < 0.08:
        # the root certificate bundled into the file as a self-signed element named like the root of trust
        els.append({"name": root, "type": "x509_pem", "signed_by": root, "message": "QUJD"})
        if rng.random() < 0.5:
            targets = targets + [root]
    doc = {"version": 2 if v2 else 1, "targets": targets, "elements": els}
    for _ in range(rng.choice([0, 0, 0, 1, 1, 2])):
        m = rng.random()
        if m < 0.15:
            doc["version"] = rng.choice([1.0, True, 2.0, 3, "1", None, [1], 0])
        elif m < 0.3 and els:
            e = rng.choice(els)
            if isinstance(e, dict) and e:
                del e[rng.choice(list(e))]
        elif m < 0.45 and els:
            e = rng.choice(els)
            if isinstance(e, dict) and e:
                e[rng.choice(list(e))] = rng.choice(["", "zz", 5, None, [], {}, "ab cd", "unknown", "!!!"])
        elif m < 0.55 and els:
            els.append(copy.deepcopy(rng.choice(els)))          # duplicate name: last wins
            if isinstance(els[-1], dict):
                els[-1]["signed_by"] = rng.choice(names + [root])
        elif m < 0.65:
            doc["targets"] = targets + [rng.choice(["ghost", ["ui"], 9])]
        elif m < 0.72:
            doc["targets"] = rng.choice(["ui", {}, 5, None])
        elif m < 0.8:
            doc["elements"] = rng.choice([{}, 5, "abc", None])
        elif m < 0.86 and els:
            els[rng.randrange(len(els))] = rng.choice([5, "name", [], None, {}])
        elif m < 0.92:
            del doc[rng.choice(list(doc))]
        elif m < 0.95:
            return rng.choice([[], 5, "x", None])
        elif els:
            e = rng.choice(els)
            if isinstance(e, dict):
                e["name"] = rng.choice([1.0, True, "x", ["q"], root])
    return doc


import ecdsa as _ecdsa
_vk = _ecdsa.SigningKey.from_secret_exponent(12345, curve=_ecdsa.NIST256p).get_verifying_key()
GOOD_KEY_RAW = _vk.to_string().hex()
GOOD_KEY_UNCOMP = _vk.to_string("uncompressed").hex()
GOOD_KEY_COMP = _vk.to_string("compressed").hex()


def model_links(doc):
    """the same fake link function, tabulated for every (element, certifier) pair"""
    out = {}
    if not isinstance(doc, dict) or not isinstance(doc.get("elements"), list):
        return out
    names = []
    for e in doc["elements"]:
        if isinstance(e, dict) and "name" in e:
            try:
                hash(e["name"])
                names.append(e["name"])
            except TypeError:
                pass
    short = set()          # names whose (last) element is a quote too short to parse
    content = {}
    for e in doc["elements"]:
        if isinstance(e, dict) and "name" in e:
            try:
                hash(e["name"])
            except TypeError:
                continue
            is_short = False
            if doc.get("version") == 2 and e.get("type") == "sgx_quote" and isinstance(e.get("message"), str):
                try:
                    is_short = len(bytes.fromhex(e["message"])) < QUOTE_LEN
                except ValueError:
                    is_short = False
            (short.add if is_short else short.discard)(canon(e["name"]))
            content[canon(e["name"])] = signed_bytes_doc(doc, e)
    for n in names:
        ok = canon(n) not in short
        cb = content.get(canon(n), b"")
        out[(n, certs.ROOT)] = ok and fake_link(canon(n), "root", cb)
        for c in names:
            out[(n, c)] = ok and fake_link(canon(n), ("elem", canon(c)), cb)
    return out


def normalise_results(results):
    return [tuple(r) if r[0] != "raises" else ("raises",) for r in results]


def run(ctx):
    from admin.certificate import HSMCertificate, HSMCertificateRoot
    rng = ctx["rng"]
    n = 500 if ctx["tier"] == "quick" else 12000
    res = {"evaluations": 0, "compared": 0, "distinct": 0, "mismatches": [], "violations": [],
           "samples": [], "distribution": {}, "corr_errors": [], "notes": []}
    tmp = os.path.join(ctx["workdir"], "c16")
    os.makedirs(tmp, exist_ok=True)
    terms, descs = [], []
    dist = {"loaded": 0, "rejected": 0, "valid_verdicts": 0, "invalid_verdicts": 0, "raises": 0}
    seen = set()
    saved = patch_links()
    root_key = "04" + "11" * 64
    try:
        class Root:           # certifier without a name: the root of trust
            pass
        for i in range(n):
            doc = gen_doc(rng)
            text = json.dumps(doc)
            res["evaluations"] += 1
            if text not in seen and isinstance(doc, dict) and isinstance(doc.get("elements"), list):
                seen.add(text)
                res["distinct"] += 1
            try:
                obs = with_budget(5.0, lambda: certs.impl_load_validate(doc, lambda: Root(), tmp))
            except Hang:
                res["violations"].append({"key": "C16:hang", "what": "loading / validating did not "
                                          "terminate within 5 s", "doc": doc})
                if len([v for v in res["violations"] if v["key"] == "C16:hang"]) >= 3:
                    res["notes"].append("stopped after three non-terminating documents")
                    break
                continue
            if not obs["loaded"]:
                dist["rejected"] += 1
            else:
                dist["loaded"] += 1
                cert = obs.pop("cert")
                rs = normalise_results(obs["results"])
                for tg, r in zip(cert._targets, rs):
                    if r[0] == "raises":
                        dist["raises"] += 1
                        kind = type(cert._elements[tg]).__name__
                        res["violations"].append({
                            "key": "C16:no-verdict:%s" % kind,
                            "what": "validation of a loaded certificate raised instead of giving a verdict "
                                    "for target %r (element class %s)" % (tg, kind), "doc": doc})
                    elif r[0] is True:
                        dist["valid_verdicts"] += 1
                    else:
                        dist["invalid_verdicts"] += 1
                # save / load again: same verdicts and values
                if obs["resave"] is None:
                    res["violations"].append({"key": "C16:cannot-save:%s" % obs.get("resave_error"),
                                              "what": "a certificate that loaded cannot be saved (to_dict "
                                                      "raised %s)" % obs.get("resave_error"), "doc": doc})
                else:
                    try:
                        obs2 = with_budget(5.0, lambda: certs.impl_load_validate(
                            json.loads(json.dumps(obs["resave"])), lambda: Root(), tmp, with_resave=False))
                        obs2.pop("cert", None)
                        rs2 = normalise_results(obs2["results"]) if obs2["loaded"] else None
                        if rs2 is None or comparable(rs2) != comparable(rs):
                            res["violations"].append({
                                "key": "C16:roundtrip", "what": "saving and loading again changed the "
                                "verdicts or values", "before": rs, "after": rs2, "doc": doc})
                    except Hang:
                        res["violations"].append({"key": "C16:hang", "what": "reload hung", "doc": doc})
            obs.pop("cert", None)
            terms.append(certs.to_ccase(doc, model_links(doc), obs))
            descs.append({"doc": text[:1500], "loaded": obs["loaded"], "error": obs["error"],
                          "results": repr(obs.get("results"))[:300]})
            if len(res["samples"]) < 3 and obs["loaded"]:
                res["samples"].append({"doc": text[:600], "results": repr(obs.get("results"))[:200]})
    finally:
        unpatch(saved)
    real_links_pass(ctx, res, tmp)
    genuine_links_pass(ctx, res, tmp)
    cmp_n, mism, errs = funcases.run(ctx, "c16", certs.HEADER, "check_ccase", terms, descs, shard=60)
    res["compared"] = cmp_n
    res["mismatches"] += mism
    res["corr_errors"] += errs
    res["distribution"] = dist
    return res


def real_links_pass(ctx, res, tmp):
    """the same kind of documents through the REAL link checks (signatures are garbage, so every link
    fails): loading and validating must still terminate with a verdict for every target"""
    import certs_v2
    from admin.certificate import HSMCertificateRoot, HSMCertificateV2ElementX509
    rng = ctx["rng"]
    k = certs.K1Key(rng)
    rk = certs_v2.new_key(rng)
    root_b64 = certs_v2.b64der(certs_v2.make_cert(rng, "SGX Root CA", "SGX Root CA", rk, rk))
    n = 150 if ctx["tier"] == "quick" else 3000
    hangs = 0
    for i in range(n):
        doc = gen_doc(rng)
        v2doc = isinstance(doc, dict) and doc.get("version") == 2

        def root():
            if v2doc:
                return HSMCertificateV2ElementX509({"name": "sgx_root", "message": root_b64,
                                                    "signed_by": "sgx_root"})
            return HSMCertificateRoot(k.pub().hex())
        res["evaluations"] += 1
        try:
            obs = with_budget(5.0, lambda: certs.impl_load_validate(doc, root, tmp, with_resave=False))
        except Hang:
            res["violations"].append({"key": "C16:hang", "what": "loading / validating (real link checks) did "
                                      "not terminate within 5 s", "doc": doc})
            hangs += 1
            if hangs >= 3:
                break
            continue
        if not obs["loaded"]:
            continue
        cert = obs.pop("cert")
        for tg, r in zip(cert._targets, obs["results"]):
            if r[0] == "raises":
                kind = type(cert._elements[tg]).__name__
                res["violations"].append({"key": "C16:no-verdict-real:%s:%s" % (kind, r[1]),
                                          "what": "validation with the real link checks raised %s instead of "
                                                  "giving a verdict for target %r (element class %s)"
                                                  % (r[1], tg, kind), "doc": doc})


def genuine_links_pass(ctx, res, tmp):
    """genuinely signed version-1 chains and each of their single-point alterations (corrupted fields, foreign
    keys, tweaks removed / added, elements re-parented under validly signed ancestors whose value is not a key)
    through the REAL link checks: every loaded document must get a verdict for every target"""
    from admin.certificate import HSMCertificateRoot
    rng = ctx["rng"]
    n = 2 if ctx["tier"] == "quick" else 25
    for i in range(n):
        doc, keys = certs.v1_chain(rng)
        for name, d, root_pub in [("genuine", doc, keys["root"].pub())] + certs.v1_corruptions(rng, doc, keys):
            res["evaluations"] += 1
            try:
                obs = with_budget(5.0, lambda: certs.impl_load_validate(
                    d, lambda: HSMCertificateRoot(root_pub.hex()), tmp, with_resave=False))
            except Hang:
                res["violations"].append({"key": "C16:hang", "what": "loading / validating a genuinely signed chain "
                                          "(%s) did not terminate within 5 s" % name, "doc": d})
                continue
            if not obs["loaded"]:
                continue
            cert = obs.pop("cert")
            for tg, r in zip(cert._targets, obs["results"]):
                if r[0] == "raises":
                    res["violations"].append({"key": "C16:no-verdict-genuine:%s:%s" % (name, r[1]),
                                              "what": "validation of a genuinely signed chain altered by %s raised %s "
                                                      "instead of giving a verdict for target %r" % (name, r[1], tg),
                                              "doc": d})


def comparable(rs):
    out = []
    for r in rs:
        if r[0] is True and isinstance(r[1], dict):
            out.append((True, r[1]["message"], r[1]["sgx_quote"].get_raw_data().hex(), r[2]))
        else:
            out.append(r)
    return out
