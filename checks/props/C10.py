"""C10 — the PIN kept on disk always opens the device."""
import itertools
import os
import pinhist
import gen
import devices
from . import funcases, servercases

LEVEL = "proof"
RULE = ("manager lifetimes run in forked children against a PIN-checking device with journalled state and "
        "real files: initial state {file absent / valid = device PIN / valid but other / invalid / padded "
        "with blanks} x default {none, = device PIN, other} x forced change x device outcome {ack, refuse, "
        "error, ack lost} x commit outcome {ok, open fails, write fails after truncation, crash before "
        "commit, crash after truncation} x platform {Ledger, SGX}, each followed by a second (restart) "
        "lifetime; all single runs enumerated, restarts fault-free in quick and all outcomes in thorough; "
        "non-trivial = the change block was entered; distinct by (state, run)")
EXPLANATION = ("Theorems C10_* prove the PIN policy, that the file is written only after the device's "
               "acknowledgement and then with exactly that PIN, that refused/failed changes touch nothing, "
               "that every change attempt stops the manager, recoverability over every fault-free history, "
               "and REFUTE unconditional recoverability with four witnesses (crash between ack and commit, "
               "truncating write failure, open failure, lost acknowledgement); the history model is compared "
               "with the real code run in crashed/faulted child processes; the oracle checks each clause on "
               "the surviving files and reports the four unrecoverable histories as known findings.")
TRUSTED_BASE = ["Coq 8.16.1 kernel (vm_compute)", "tools/gen_tables.py (PIN policy constants)",
                "harness: forked children, patched open()/random in ledger.pin, journalled device simulator",
                "hand-written history model tied by differential runs"]
ASSUMPTIONS = ["durability below the process level (fsync, power loss) is not modelled",
               "a crash is process death at a statement boundary (os._exit)"]

DEV = b"1234567a"
OTHER = b"Other777"
NEW = [b"12345678", b"ab!defgh", b"Zz9Zz9Zz", b"Qq8Qq8Qq"]     # two invalid candidates first
NEW2 = [b"Ww7Ww7Ww"]

SENDS = ["SAck", "SRefuse", "SError", "SAckLost"]
COMMITS = ["COk", "COpenFail", "CWriteFail", "CCrashBeforeCommit", "CCrashAfterTruncate"]


def outcomes():
    for s in SENDS:
        if s == "SAck":
            for c in COMMITS:
                yield s, c
        else:
            yield s, "COk"


def initial_states(tier):
    if tier == "quick":
        files = [None, DEV, b" " + DEV + b" \r\n", b"short"]
        defaults = [None, DEV]
    else:
        files = [None, DEV, OTHER, b"short", DEV + b"\n", b" " + DEV + b" \r\n", b""]
        defaults = [None, DEV, OTHER]
    for f, d in itertools.product(files, defaults):
        yield {"file": f, "dev": DEV, "default": d}


def _one(job):
    tmp, init, runs, kind = job
    os.makedirs(tmp, exist_ok=True)
    return pinhist.run_history(tmp, init, runs, kind)


def run(ctx):
    res = {"evaluations": 0, "compared": 0, "distinct": 0, "mismatches": [], "violations": [],
           "samples": [], "distribution": {}, "corr_errors": [], "notes": []}
    tmp = os.path.join(ctx["workdir"], "c10")
    os.makedirs(tmp, exist_ok=True)
    terms, descs = [], []
    dist = {}
    second = [("SAck", "COk")] if ctx["tier"] == "quick" else list(outcomes())
    jobs = []
    for kind in ("ledger", "sgx"):
        for init in initial_states(ctx["tier"]):
            for force in (False, True):
                for s1, c1 in outcomes():
                    if ctx["tier"] == "quick" and kind == "sgx" and s1 != "SAck":
                        continue
                    for s2, c2 in second:
                        runs = [{"force": force, "candidates": NEW, "send": s1, "commit": c1},
                                {"force": False, "candidates": NEW2, "send": s2, "commit": c2}]
                        jobs.append((os.path.join(tmp, "h%d" % len(jobs)), init, runs, kind))
    import concurrent.futures
    import multiprocessing
    with concurrent.futures.ProcessPoolExecutor(max_workers=12,
                                                mp_context=multiprocessing.get_context("fork")) as ex:
        all_obs = list(ex.map(_one, jobs, chunksize=4))
    for (_, init, runs, kind), obs in zip(jobs, all_obs):
        res["evaluations"] += 1
        res["distinct"] += 1 if obs[0]["sent"] else 0
        v = oracle(init, runs, obs, kind)
        res["violations"].extend(v)
        for o in obs:
            dist[o["result"]] = dist.get(o["result"], 0) + 1
        terms.append(pinhist.to_pcase(init, runs, obs))
        descs.append({"kind": kind, "init": init, "runs": [(r["force"], r["send"], r["commit"]) for r in runs],
                      "obs": [(o["file"], o["dev"], o["result"]) for o in obs]})
        if len(res["samples"]) < 3 and obs[0]["sent"]:
            res["samples"].append(descs[-1])
    cmp_n, mism, errs = funcases.run(ctx, "c10", pinhist.HEADER, "check_pcase", terms, descs, shard=200)
    res["compared"] = cmp_n
    res["mismatches"] += mism
    res["corr_errors"] += errs
    # the same rule on the reconnection path: a change is pending, start-up found the device already in
    # the signer, the device is power-cycled, one request hits the link error, the next one reconnects
    # into the bootloader, unlocks and attempts the change -> the manager must stop there too
    r2 = servercases.run(ctx, reconnection_cases(ctx["rng"]), reconnection_oracle)
    for k in ("evaluations", "compared", "distinct"):
        res[k] += r2[k]
    res["mismatches"] += r2["mismatches"]
    res["violations"] += r2["violations"]
    res["corr_errors"] += r2["corr_errors"]
    res["distribution"] = dist
    res["exhaustive"] = True
    return res


PowerCycled = devices.PowerCycled


def reconnection_cases(rng):
    cases = []
    for kind in ("ledger", "sgx"):
        for fault in (None, 0x6A99, 0x69A0, ("T",), ("W",)):
            for post in (3, 2):
                d = gen.random_device(rng)
                d.sgx = kind == "sgx"
                d.pin = b"1234567a"
                d.after_exit = [post, post]
                if fault is not None:
                    d.inject[(0xA5 if kind == "sgx" else 0x08, "*")] = fault
                req = {"command": "getPubKey", "version": 5, "keyId": gen.PATHS[0]}
                cases.append({"mode": "v5", "kind": kind, "lines": [gen.line(req)] * 3, "connects": [True, True],
                              "pin": (b"1234567a", True), "rand": [b"Zz9Zz9Zz", b"Yy8Yy8Yy"], "fs": [True, True],
                              "device": PowerCycled(d), "meta": {"kind": kind, "fault": repr(fault)}})
                if post == 3:
                    # the same with the client of the repairing request (or every client) gone before its reply can
                    # be written: the change attempt still stops the manager (judged by the oracle alone - the model
                    # has no failing reply channel)
                    for hang in ([1], [0, 1, 2]):
                        d2 = gen.random_device(rng)
                        d2.sgx = kind == "sgx"
                        d2.pin = b"1234567a"
                        d2.after_exit = [post, post]
                        if fault is not None:
                            d2.inject[(0xA5 if kind == "sgx" else 0x08, "*")] = fault
                        cases.append({"mode": "v5", "kind": kind, "lines": [gen.line(req)] * 3,
                                      "connects": [True, True], "pin": (b"1234567a", True),
                                      "rand": [b"Zz9Zz9Zz", b"Yy8Yy8Yy"], "fs": [True, True],
                                      "device": PowerCycled(d2), "hangup": hang, "nocompare": True,
                                      "meta": {"kind": kind, "fault": repr(fault), "hangup": hang}})
    return cases


def reconnection_oracle(case, obs):
    newpin = 0xA5 if case["kind"] == "sgx" else 0x08
    attempted = [i for i, e in enumerate(obs["trace"]) if e[0] == "A" and e[1][1] == newpin]
    if not attempted:
        return {"key": "C10:reconnect:no-attempt", "what": "scenario did not reach the PIN change (harness)"}
    later = [e for e in obs["trace"][attempted[0] + 1:] if e[0] == "A"]
    if not obs["replies"][-1]["stop"] or len(obs["replies"]) > 2:
        return {"key": "C10:carried-on:reconnect", "what": "manager went on serving after a PIN change "
                "attempt made while repairing the connection (%d further APDUs)" % len(later)}
    return None


def recoverable(file, dev, default):
    return (file is not None and file.strip() == dev) or default == dev


def oracle(init, runs, obs, kind):
    out = []
    file, dev, default = init["file"], init["dev"], init["default"]
    for r, o in zip(runs, obs):
        tag = "%s/%s" % (r["send"], r["commit"])
        entered = bool(o["sent"])
        for p in o["sent"]:
            if not pinhist.valid_pin(p):
                out.append({"key": "C10:policy", "what": "manager generated and sent a PIN violating the "
                            "policy: %r" % p})
        if o["file"] != file:
            acked = entered and r["send"] in ("SAck",)
            if not acked:
                out.append({"key": "C10:file-changed-without-ack:" + tag, "what": "PIN file changed although "
                            "the device did not acknowledge a new PIN", "before": file, "after": o["file"]})
            elif o["file"] != o["dev"]:
                out.append({"key": "C10:file-not-acked-pin:" + tag, "what": "PIN file changed but does not "
                            "hold the PIN the device acknowledged (file %r, device %r)" % (o["file"], o["dev"])})
        if entered and r["send"] in ("SRefuse", "SError"):
            if o["file"] != file or o["dev"] != dev:
                out.append({"key": "C10:failed-change-touched:" + tag, "what": "a refused / failed change "
                            "modified the file or the device PIN"})
            if o["mgr_pin"] is not None and file is not None and o["mgr_pin"] != file.strip():
                out.append({"key": "C10:failed-change-pin-in-use:" + tag, "what": "PIN in use changed"})
        if entered and o["result"] == "RServed":
            out.append({"key": "C10:carried-on:" + tag, "what": "manager went on serving after a PIN "
                        "change attempt"})
        if recoverable(file, dev, default) and not recoverable(o["file"], o["dev"], default):
            out.append({"key": "C10:unrecoverable:" + tag,
                        "what": "after this lifetime no PIN that unlocks the device can be recovered from "
                                "the PIN file or the default (file %r, device PIN changed=%s)"
                                % (o["file"], o["dev"] != dev),
                        "init": init, "kind": kind})
        file, dev = o["file"], o["dev"]
    return out
