"""Function-level correspondence: (input, observed output) pairs evaluated against a Gallina
checker with vm_compute."""
import os
import coqgen

HEADER2 = "From PowHsm Require Import Model.CaseCheck2.\nOpen Scope N_scope.\n"
HEADER_IHEX = "From PowHsm Require Import Model.CaseCheckIhex.\nOpen Scope N_scope.\n"


def run(ctx, name, header, checker, terms, descs, shard=200):
    """returns (compared, mismatches[list of dict], errors)"""
    if not terms or not ctx.get("model_ok", True):
        return 0, [], []
    n, bad, errs = coqgen.run_case_files(os.path.join(ctx["workdir"], "fn_" + name), header, checker,
                                         terms, shard=shard)
    mism = [{"what": "model and implementation disagree (%s)" % name, "case": descs[b]} for b in bad[:20]]
    return n, mism, errs
