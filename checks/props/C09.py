"""C09 — bring-up never endangers the device and never serves from an unsafe state."""
import itertools
import gen
import stack
import devices
import bringup
from . import funcases, servercases

LEVEL = "proof"
RULE = ("product of device states: mode {bootloader, signer, ui-heartbeat, unknown(0xFF), other(5)} x onboarded "
        "{yes, no, error status} x UI / signer version triples around 5.4.1 x retries {0,1,2,3,255} (0..255 in "
        "thorough) x echo {ok, bad} x PIN {matches, differs} x needs-change {no, yes} x post-unlock mode "
        "{signer, bootloader, ui-heartbeat} x platform {Ledger, SGX, TCP} x outcome of the PIN change command "
        "{accepted, refused 0x69A0, other status, timeout, write error, read error}; boundary subset in quick, larger "
        "grid in thorough; non-trivial = every state; distinct by state tuple")
EXPLANATION = ("Theorems C09_* prove for every device script that the unlock command is sent at most once and only "
               "after the safe-state answers, and characterise when the bring-up returns normally; the model is "
               "compared with TCPServer.run/initialize_device on the enumerated product (outcome class, full "
               "event trace, PIN object state); the oracle counts UNLOCK/SGX_UNLOCK APDUs against the simulated "
               "device's state and checks serving against the property's formula.")
TRUSTED_BASE = ["Coq 8.16.1 kernel (vm_compute)", "tools/gen_tables.py (versions, MIN_AVAILABLE_RETRIES, commands, catch tables)",
                "harness: fake transport, device simulator, socketserver.TCPServer replaced by a recorder",
                "hand-written Gallina model tied by differential runs"]
ASSUMPTIONS = ["serve_forever is reached only through TCPServer.run after initialize_device returns"]

VERSIONS = [(5, 4, 1), (5, 4, 0), (5, 3, 9), (5, 4, 2), (5, 5, 0), (4, 4, 1), (6, 0, 0), (5, 0, 0), (5, 3, 255)]


def supports(v):
    return v[0] == 5 and (v[1] < 4 or (v[1] == 4 and v[2] <= 1))


def states(tier, rng):
    modes = [2, 3, 4, 0xFF, 5]
    onb = ["yes", "no", "err"]
    retries = [0, 1, 2, 3, 255] if tier == "quick" else list(range(0, 256, 1))
    out = []
    # full product on the small axes, sampled on versions/retries
    for mode, ob, kind in itertools.product(modes, onb, ["ledger", "sgx", "tcp"]):
        for echo_bad, pin_ok, needs_change, post in itertools.product(
                [False, True], [True, False], [False, True], [3, 2, 4]):
            if mode != 2 and (echo_bad or not pin_ok or needs_change or post != 3):
                continue
            vs = VERSIONS if (mode in (2, 3) and ob == "yes" and not echo_bad and pin_ok) else VERSIONS[:2]
            for uiv in (vs if mode == 2 else vs[:1]):
                for sv in (vs if (mode == 3 or post == 3) else vs[:1]):
                    rs = retries if (mode == 2 and ob == "yes" and supports(uiv) and not echo_bad
                                     and sv == (5, 4, 1)) else [3]
                    for r in rs:
                        # the PIN change itself may fail: refused, other status, timeout, link errors
                        faults = [None]
                        if needs_change and mode == 2 and ob == "yes" and pin_ok and not echo_bad and r == 3 \
                                and uiv == (5, 4, 1) and sv == (5, 4, 1):
                            faults = [None, 0x69A0, 0x6A01, ("T",), ("W",), ("R",)]
                        for nf in faults:
                            out.append(dict(mode=mode, onboarded=ob, kind=kind, echo_bad=echo_bad, pin_ok=pin_ok,
                                            needs_change=needs_change, post=post, uiv=uiv, sv=sv, retries=r,
                                            newpin_fault=nf))
    if tier == "quick":
        rng.shuffle(out)
        keep = [s for s in out if s["retries"] != 3 or s["mode"] != 2][:400]
        keep += [s for s in out if s["mode"] == 2 and s["retries"] == 3 and s["newpin_fault"] is None][:500]
        keep += [s for s in out if s["newpin_fault"] is not None]
        out = keep
    return out


def run(ctx):
    rng = ctx["rng"]
    res = {"evaluations": 0, "compared": 0, "distinct": 0, "mismatches": [], "violations": [],
           "samples": [], "distribution": {}, "corr_errors": [], "notes": []}
    terms, descs = [], []
    dist = {"serves": 0, "stops": 0, "unlock_sent": 0}
    for st in states(ctx["tier"], rng):
        d = devices.Device(mode=st["mode"], onboarded=st["onboarded"] == "yes", version=st["sv"],
                           ui_version=st["uiv"], sgx=st["kind"] == "sgx")
        if st["onboarded"] == "err":
            d.onboard_status = 0x6B01
        d.echo_bad = st["echo_bad"]
        d.retries = st["retries"]
        d.pin = b"1234567a"
        d.after_exit = [st["post"], st["post"]]
        if st["newpin_fault"] is not None:
            d.inject[(0xA5 if st["kind"] == "sgx" else 0x08, "*")] = st["newpin_fault"]
        mgr_pin = b"1234567a" if st["pin_ok"] else b"abcdefg1"
        case = {"kind": st["kind"], "pin": (mgr_pin, st["needs_change"]), "rand": [b"Zz9Zz9Zz"],
                "fs": [], "connects": [], "device": d}
        obs = bringup.run_bringup(case)
        res["evaluations"] += 1
        res["distinct"] += 1
        unlock_cmd = 0xA3 if st["kind"] == "sgx" else 0xFE
        unlocks = [e for e in obs["trace"] if e[0] == "A" and e[1][1] == unlock_cmd]
        pin_apdus = [e for e in obs["trace"] if e[0] == "A" and e[1][1] == 0x41]
        safe = (st["onboarded"] == "yes" and st["mode"] == 2 and supports(st["uiv"]) and not st["echo_bad"]
                and st["retries"] >= 2)
        if len(unlocks) > 1:
            res["violations"].append({"key": "C09:unlock-twice", "what": "unlock command sent %d times"
                                      % len(unlocks), "state": st})
        if unlocks and not safe:
            res["violations"].append({"key": "C09:unlock-unsafe", "what": "unlock sent to a device that is "
                                      "not (onboarded, bootloader, supported UI, echo ok, retries >= 2)",
                                      "state": st})
        if not unlocks and pin_apdus and st["kind"] != "sgx":
            res["violations"].append({"key": "C09:pin-without-unlock", "what": "PIN bytes sent without an "
                                      "unlock", "state": st})
        if safe and not unlocks:
            res["violations"].append({"key": "C09:no-unlock-when-safe", "what": "safe bootloader state but "
                                      "no unlock attempted", "state": st})
        final_signer = (st["mode"] == 3) or (st["mode"] == 2 and safe and st["pin_ok"]
                                             and not st["needs_change"] and st["post"] == 3)
        should_serve = st["onboarded"] == "yes" and final_signer and supports(st["sv"])
        if obs["served"] != should_serve:
            res["violations"].append({"key": "C09:serve-%s" % ("unsafe" if obs["served"] else "refused"),
                                      "what": "serving=%s but the property's formula says %s"
                                              % (obs["served"], should_serve), "state": st,
                                      "outcome": obs["outcome"]})
        dist["serves" if obs["served"] else "stops"] += 1
        dist["unlock_sent"] += 1 if unlocks else 0
        terms.append(bringup.to_bcase(case, obs))
        descs.append({"state": st, "outcome": obs["outcome"],
                      "apdus": [e[1].hex() for e in obs["trace"] if e[0] == "A"][:30]})
        if len(res["samples"]) < 3 and unlocks:
            res["samples"].append(descs[-1])
    cmp_n, mism, errs = funcases.run(ctx, "c09", bringup.HEADER, "check_bcase", terms, descs, shard=150)
    res["compared"] = cmp_n
    res["mismatches"] += mism
    res["corr_errors"] += errs
    # the same rules hold for the bring-up that is re-run to repair a lost connection: the device is
    # power-cycled under a serving manager and comes back in the bootloader in every one of these states
    r2 = servercases.run(ctx, rebringup_cases(rng), rebringup_oracle)
    for k in ("evaluations", "compared", "distinct"):
        res[k] += r2[k]
    res["mismatches"] += r2["mismatches"]
    res["violations"] += r2["violations"]
    res["corr_errors"] += r2["corr_errors"]
    res["distribution"] = dist
    res["exhaustive"] = ctx["tier"] == "thorough"
    return res


def rebringup_cases(rng):
    cases = []
    for kind, retries, needs_change, pin_ok, post, uiv, echo_bad, onb in itertools.product(
            ["ledger", "sgx"], [3, 1], [False, True], [True, False], [3, 2], [(5, 4, 1), (5, 4, 2)],
            [False, True], [True, False]):
        d = gen.random_device(rng)
        d.sgx = kind == "sgx"
        d.pin = b"1234567a"
        d.retries = retries
        d.ui_version = uiv
        d.echo_bad = echo_bad
        d.onboarded = onb
        d.after_exit = [post, post, post]
        mgr_pin = b"1234567a" if pin_ok else b"abcdefg1"
        st = dict(kind=kind, retries=retries, needs_change=needs_change, pin_ok=pin_ok, post=post, uiv=uiv,
                  echo_bad=echo_bad, onboarded=onb)
        req = {"command": "getPubKey", "version": 5, "keyId": gen.PATHS[0]}
        cases.append({"mode": "v5", "kind": kind, "lines": [gen.line(req)] * 3, "connects": [True, True, True],
                      "pin": (mgr_pin, needs_change), "rand": [b"Zz9Zz9Zz", b"Yy8Yy8Yy", b"Xx7Xx7Xx"],
                      "fs": [True, True, True], "device": devices.PowerCycled(d), "meta": st})
    # the unit that answers after a lost link is in signer mode but must not be served (unsupported signer
    # version, not onboarded), or may be served; the first repair is cut short by a time-out at one of its
    # checks; further requests follow: none may reach a device that no complete bring-up has accepted
    for new_state, servable in (({"version": (5, 5, 0)}, False), ({"version": (6, 0, 0)}, False),
                                ({"onboarded": False}, False), ({"version": (5, 4, 1)}, True),
                                ({"version": (5, 3, 9)}, True)):
        for t_at in (None, 1, 2, 3):
            for kind in ("ledger", "sgx"):
                d = gen.random_device(rng)
                d.sgx = kind == "sgx"
                req = {"command": "getPubKey", "version": 5, "keyId": gen.PATHS[0]}
                cases.append({"mode": "v5", "kind": kind, "lines": [gen.line(req)] * 4,
                              "connects": [True, True, True, True], "pin": (b"1234567a", False),
                              "rand": [], "fs": [], "device": devices.Swapped(d, new_state, t_at),
                              "meta": {"swapped": True, "servable": servable, "new_state": new_state,
                                       "timeout_at": t_at, "kind": kind}})
    return cases


def rebringup_oracle(case, obs):
    st = case["meta"]
    if st.get("swapped"):
        apdus = [e[1] for e in obs["trace"] if e[0] == "A"]
        served = [a for a in apdus[1:] if a[1] == 0x04]       # command APDUs after the one that lost the link
        if served and not st["servable"]:
            return {"key": "C09:rebringup:serve-unsafe", "what": "a client request reached a device that no "
                    "bring-up may accept (%r), after a repair cut short by a time-out at its check %r"
                    % (st["new_state"], st["timeout_at"])}
        if st["servable"] and not any(r["stop"] for r in obs["replies"]):
            j = stack.reply_json(obs["replies"][-1])
            if j is None or j.get("errorcode") != 0:
                return {"key": "C09:rebringup:not-served", "what": "a device in signer mode with a supported "
                        "signer version is not served after the repair (last reply %r)" % obs["replies"][-1]["raw"][:60]}
        return None
    unlock_cmd = 0xA3 if st["kind"] == "sgx" else 0xFE
    # split the trace into bring-ups (each starts at a successful connect)
    segs, cur = [], None
    for e in obs["trace"]:
        if e[0] == "C":
            cur = []
            segs.append(cur)
        elif cur is not None:
            cur.append(e)
    if not segs:
        return {"key": "C09:rebringup:none", "what": "scenario did not reconnect (harness)"}
    first = segs[0]
    unlocks = [e for e in first if e[0] == "A" and e[1][1] == unlock_cmd]
    safe = st["onboarded"] and supports(st["uiv"]) and not st["echo_bad"] and st["retries"] >= 2
    if any(len([e for e in sg if e[0] == "A" and e[1][1] == unlock_cmd]) > 1 for sg in segs):
        return {"key": "C09:rebringup:unlock-twice", "what": "unlock sent twice within one bring-up"}
    if unlocks and not safe:
        return {"key": "C09:rebringup:unlock-unsafe", "what": "repair bring-up sent the PIN to a device that "
                "is not (onboarded, supported UI, echo ok, retries >= 2)", "state": st}
    may_serve = safe and st["pin_ok"] and not st["needs_change"] and st["post"] == 3
    served = [e for e in first if e[0] == "A" and e[1][1] == 0x04]
    if served and not may_serve:
        return {"key": "C09:rebringup:serve-unsafe", "what": "a client request was served after a repair "
                "bring-up that had to stop (state %r)" % st}
    changed = [e for e in first if e[0] == "A" and e[1][1] == (0xA5 if st["kind"] == "sgx" else 0x08)]
    later_unlock = [e for sg in segs[1:] for e in sg if e[0] == "A" and e[1][1] == unlock_cmd]
    if changed and (later_unlock or len(segs) > 1):
        return {"key": "C09:rebringup:carried-on-after-change", "what": "the manager went through another "
                "bring-up after one that attempted a PIN change"}
    return None
