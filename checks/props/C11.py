"""C11 — link failures get a device-error reply and are repaired on the next request."""
import gen
import commands
import stack
from . import servercases

LEVEL = "proof"
RULE = ("every (command shape, mode, exchange index, fault kind in {write error, read error, timeout}) cell, "
        "each followed by a second request under reconnection outcomes {ok, connect fails k=1..2 times then "
        "ok}; enumerated completely in both tiers; non-trivial = the fault was reached; distinct by cell")
EXPLANATION = ("Theorems C11_* state, over the Gallina handlers and generated except-ladders, that a link "
               "error or timeout yields the device-error code, that only link errors set the reconnection "
               "flag, and that a set flag makes the next request disconnect, reconnect and redo the bring-up "
               "before any command APDU; the fault matrix is enumerated on the implementation with faults "
               "raised inside the transport and compared cell by cell with the model; an independent oracle "
               "checks replies and the order of close/connect/bring-up/command events.")
TRUSTED_BASE = ["Coq 8.16.1 kernel (vm_compute)", "tools/gen_tables.py (except-ladders, class hierarchy)",
                "harness: fake transport raising the transport's own exceptions, honest device transcripts",
                "hand-written Gallina model tied by differential runs"]
ASSUMPTIONS = ["transport faults are BaseException('Error while writing'), OSError('read error'), "
               "CommException('Timeout', 0x6F00), as ledgerblue raises them"]

BRINGUP = [bytes([0x80, 0x06]), bytes([0x80, 0x43]), bytes([0x80, 0x06]), bytes([0x80, 0x11])]


def repair_rule(obs):
    """After a link failure no command APDU may go out before the connection has been re-opened and ALL the
    bring-up checks have been repeated (each answered) - however many requests that takes."""
    answers = list(obs["answers"])
    ai = 0
    dirty = False
    progress = None          # index of the next bring-up exchange expected on the re-opened link
    for e in obs["trace"]:
        if e[0] == "C":
            if dirty:
                progress = 0 if e[1] else None
        elif e[0] == "A":
            ans = answers[ai] if ai < len(answers) else ("T",)
            ai += 1
            if dirty:
                if progress is not None and progress < len(BRINGUP) and e[1][:2] == BRINGUP[progress]:
                    if ans[0] == "D":
                        progress += 1
                        if progress == len(BRINGUP):
                            dirty, progress = False, None
                    else:
                        progress = None      # the repair was cut short: it has to start again
                else:
                    return {"key": "C11:apdu-before-full-repair",
                            "what": "APDU %s sent after a link failure although the connection had not been "
                                    "re-opened and the full bring-up repeated since" % e[1][:3].hex()}
            if ans[0] in ("W", "R") and not (len(e[1]) > 1 and e[1][1] == 0xFF):
                dirty, progress = True, None
    return None


def oracle(case, obs):
    v = repair_rule(obs)
    if v is not None:
        return v
    meta = case["meta"]
    if meta.get("rule_only"):
        dev_code = -905 if case["mode"] == "v5" else -2
        for k, want in meta["codes"].items():
            if any(r["stop"] for r in obs["replies"][:k]) or k >= len(obs["replies"]):
                # the manager stopped on an earlier request of the history (a fault met by the re-run bring-up
                # itself is outside what the property states; see DESIGN.md, observations)
                continue
            rj = stack.reply_json(obs["replies"][k]) if k < len(obs["replies"]) else None
            if rj is None or rj.get("errorcode") != want or obs["replies"][k]["stop"]:
                return {"key": "C11:%s:reply-%d" % (meta["name"], k),
                        "what": "request %d of the history answered %r, expected code %d and a running manager"
                                % (k, obs["replies"][k]["raw"] if k < len(obs["replies"]) else None, want)}
        return None
    dev_code = -905 if case["mode"] == "v5" else -2
    reps = obs["replies"]
    j0 = stack.reply_json(reps[0])
    fault = meta["fault"]
    if not meta["reached"](obs):
        return None
    if not meta["benign"]:
        if reps[0]["stop"] or j0 is None or j0.get("errorcode") != dev_code:
            return {"key": "C11:%s:fault-reply" % meta["name"],
                    "what": "%s at exchange %d of %s answered %r (stop=%s), expected device error %d"
                            % (fault, meta["step"], meta["name"], reps[0]["raw"], reps[0]["stop"], dev_code)}
    if fault in ("W", "R") and not meta["benign"]:
        # events after the first request: repair must precede any APDU of the next request
        n_first = meta["n_first_events"](obs)
        rest = obs["trace"][n_first:]
        k = meta["connect_failures"]
        idx = 0
        for attempt in range(k + 1):
            if attempt >= len(reps) - 1:
                return {"key": "C11:unserved", "what": "follow-up request %d not served" % attempt}
            # each attempt: [close] connect(ok?) ...
            if idx < len(rest) and rest[idx] == ("X",):
                idx += 1
            if idx >= len(rest) or rest[idx][0] != "C":
                return {"key": "C11:%s:no-reconnect" % meta["name"],
                        "what": "request after a link failure did not start by re-opening the connection: %r"
                                % (rest[idx:idx + 3],)}
            ok = rest[idx][1]
            idx += 1
            rj = stack.reply_json(reps[1 + attempt])
            if attempt < k:
                if ok:
                    return {"key": "C11:harness", "what": "connect outcome mismatch"}
                if rj is None or rj.get("errorcode") != dev_code or reps[1 + attempt]["stop"]:
                    return {"key": "C11:%s:reconnect-failure-reply" % meta["name"],
                            "what": "failed reconnection answered %r" % (reps[1 + attempt]["raw"],)}
                if idx < len(rest) and rest[idx][0] == "A":
                    return {"key": "C11:%s:apdu-without-connection" % meta["name"],
                            "what": "APDU sent although the connection could not be re-established"}
            else:
                got = [e[1][:2] for e in rest[idx:idx + 4] if e[0] == "A"]
                if got != BRINGUP:
                    return {"key": "C11:%s:no-bringup" % meta["name"],
                            "what": "after reconnecting, the bring-up checks did not precede the command: %r"
                                    % ([g.hex() for g in got],)}
                if rj is None or rj.get("errorcode") != meta["followup_code"] or reps[1 + attempt]["stop"]:
                    return {"key": "C11:%s:followup-reply" % meta["name"],
                            "what": "follow-up after repair answered %r" % (reps[1 + attempt]["raw"],)}
    return None


def gen_cases(rng, tier):
    cases = []
    std = commands.standard_requests(rng)
    fu_req = {"command": "blockchainParameters", "version": 5}
    fu_answers, fu_obs = commands.honest_transcript("v5", fu_req, std[0][3])
    fu1_req = {"command": "getPubKey", "version": 1, "keyId": gen.PATHS[0]}
    fu1_answers, _ = commands.honest_transcript("v1", fu1_req, std[0][3])
    for name, mode, req, dev in std:
        answers, obs = commands.honest_transcript(mode, req, dev)
        apdus = [e[1] for e in obs["trace"] if e[0] == "A"]
        follow = (fu_req, fu_answers, 0) if mode == "v5" else (fu1_req, fu1_answers, 0)
        for i in range(len(answers)):
            # connections the command itself opens before exchange i (uiHeartbeat re-connects)
            pre_conn = 0
            seen_apdus = 0
            for e in obs["trace"]:
                if e[0] == "A":
                    if seen_apdus == i:
                        break
                    seen_apdus += 1
                elif e[0] == "C":
                    pre_conn += 1
            for f in ("W", "R", "T"):
                for k in ((0, 1, 2) if f != "T" and i % 3 == 0 else (0,)):
                    script = list(answers[:i]) + [(f,)] + commands.BRINGUP_SIGNER + list(follow[1])
                    benign = name.startswith("uiHeartbeat") and apdus[i][1] == 0xFF and f in ("W", "R")
                    if f == "T":
                        script = list(answers[:i]) + [(f,)] + list(follow[1])
                    n_at = i

                    def reached(o, n_at=n_at):
                        return len([e for e in o["trace"] if e[0] == "A"]) > n_at

                    def n_first(o, n_at=n_at):
                        # events belonging to the first request: up to and including APDU n_at
                        cnt = 0
                        for pos, e in enumerate(o["trace"]):
                            if e[0] == "A":
                                if cnt == n_at:
                                    return pos + 1
                                cnt += 1
                        return len(o["trace"])
                    cases.append({
                        "mode": mode, "kind": "ledger",
                        "lines": [gen.line(req)] + [gen.line(follow[0])] * (k + 1),
                        "script": script, "connects": [True] * pre_conn + [False] * k + [True],
                        "meta": {"name": name, "step": i, "fault": f, "benign": benign,
                                 "reached": reached, "n_first_events": n_first,
                                 "connect_failures": k, "followup_code": follow[2]}})
    # every kind of request as the follow-up of a link failure (the repair must precede whatever comes next)
    first_req = {"command": "getPubKey", "version": 5, "keyId": gen.PATHS[1]}
    first1_req = {"command": "getPubKey", "version": 1, "keyId": gen.PATHS[1]}
    for name, mode, req, dev in std:
        if name.startswith("uiHeartbeat") or name == "version":
            continue
        answers, obs = commands.honest_transcript(mode, req, dev)
        code = stack.reply_json(obs["replies"][-1])["errorcode"]
        for f in ("W", "R"):
            for k in (0, 1):
                script = [(f,)] + commands.BRINGUP_SIGNER + list(answers)
                cases.append({
                    "mode": mode, "kind": "ledger",
                    "lines": [gen.line(first_req if mode == "v5" else first1_req)] + [gen.line(req)] * (k + 1),
                    "script": script, "connects": [False] * k + [True],
                    "meta": {"name": "getPubKey-then-" + name, "step": 0, "fault": f, "benign": False,
                             "reached": (lambda o: len([e for e in o["trace"] if e[0] == "A"]) > 0),
                             "n_first_events": (lambda o: 1), "connect_failures": k, "followup_code": code}})
    # histories in which the repair itself is cut short: link failure, then a request whose re-run bring-up meets
    # a time-out at its j-th check (answered with the device-error code), then a third request - which must
    # start the repair over (close, re-open, all four checks) before its command goes out
    for mode, first, (fu, fu_ans, fu_code) in (("v5", first_req, (fu_req, fu_answers, 0)),
                                               ("v1", first1_req, (fu1_req, fu1_answers, 0))):
        dev_code = -905 if mode == "v5" else -2
        for f in ("W", "R"):
            for j in range(len(commands.BRINGUP_SIGNER)):
                script = [(f,)] + commands.BRINGUP_SIGNER[:j] + [("T",)] + commands.BRINGUP_SIGNER + list(fu_ans)
                cases.append({
                    "mode": mode, "kind": "ledger", "lines": [gen.line(first), gen.line(fu), gen.line(fu)],
                    "script": script, "connects": [True, True],
                    "meta": {"name": "repair-cut-short-at-%d" % j, "step": 0, "fault": f, "benign": False,
                             "rule_only": True, "codes": {0: dev_code, 2: fu_code}}})
    return cases


def run(ctx):
    cases = gen_cases(ctx["rng"], ctx["tier"])
    res = servercases.run(ctx, cases, oracle, shard=150)
    res["exhaustive"] = True
    return res
