"""C19 — app hashing and one-time signing bind to the application's actual code."""
import hashlib
import json
import io
import os
import sys
import shutil
import contextlib
import ihexgen
import gen
from coqgen import c_bytes, c_str, c_opt
from . import funcases

LEVEL = "proof"
RULE = ("Intel-HEX images from harness/ihexgen.py (1..8 areas, several 64 KiB zones, areas crossing zone "
        "boundaries, gaps of 1 byte .. 128 KiB), each written with 3 record-size patterns (1..255) and in "
        "and out of address order; signonetime runs over 1..4 images, repeated; non-trivial = every image "
        "writing; distinct by file text")
EXPLANATION = ("Theorems C19_* (Proofs/IntelHexProofs.v) prove, for the Gallina model of ledgerblue's parser, "
               "that the hash is SHA-256 over the areas in address order for every record sizing and writing "
               "order; the model (file text -> hash) is compared with admin.ledger_utils.compute_app_hash on "
               "every generated file, the oracle recomputes the hash with hashlib over the generator's own "
               "area list, and signonetime is run for real: signatures verified with libsecp256k1 against "
               "the written public key, every written file scanned for the generated private key.")
TRUSTED_BASE = ["Coq 8.16.1 kernel (vm_compute)",
                "hand-written Gallina model of ledgerblue.hexParser.IntelHexParser (third party: modelled, not verified)",
                "SHA-256 model of Model/Sha256.v (also compared with hashlib)",
                "harness: own Intel-HEX writer, secp256k1 binding for independent signature verification"]
ASSUMPTIONS = ["ECDSA key generation and signing (ecdsa package) are oracles",
               "files are written by a correct Intel-HEX writer (records do not wrap inside a zone)"]


def run_main(mod, argv):
    """run a CLI main() in-process; returns (exit code, stdout)"""
    old = sys.argv
    sys.argv = argv
    buf = io.StringIO()
    code = None
    try:
        with contextlib.redirect_stdout(buf), contextlib.redirect_stderr(buf):
            try:
                mod.main()
            except SystemExit as e:
                code = e.code
    finally:
        sys.argv = old
    return code, buf.getvalue()


def run(ctx):
    import env  # noqa: F401
    from admin.ledger_utils import compute_app_hash
    import signapp
    import signonetime
    import ecdsa
    import secp256k1
    rng = ctx["rng"]
    n = 60 if ctx["tier"] == "quick" else 1500
    tmp = os.path.join(ctx["workdir"], "ihex")
    os.makedirs(tmp, exist_ok=True)
    res = {"evaluations": 0, "compared": 0, "distinct": 0, "mismatches": [], "violations": [],
           "samples": [], "distribution": {"images": 0, "writings": 0, "signing_runs": 0}, "corr_errors": [],
           "notes": []}
    terms, descs = [], []
    seen = set()
    written = []
    for i in range(n):
        areas = ihexgen.random_image(rng)
        if i % 4 == 1:
            # an image whose hash begins with zero nibbles (one in 16 does): tweak the last byte until so
            a0, d0 = areas[-1]
            for b in range(256):
                areas[-1] = (a0, d0[:-1] + bytes([b]))
                if hashlib.sha256(b"".join(d for _, d in sorted(areas))).hexdigest().startswith("0"):
                    break
        res["distribution"]["images"] += 1
        want = hashlib.sha256(b"".join(d for _, d in sorted(areas))).digest()
        hashes = set()
        for w in range(3):
            sizes = ihexgen.random_sizes(rng)
            order = list(range(len(areas)))
            if w == 2:
                rng.shuffle(order)
            text = ihexgen.write_image(areas, sizes, order, newline=rng.choice(["\n", "\r\n"]))
            path = os.path.join(tmp, "app_%d_%d.hex" % (i, w))
            with open(path, "w", newline="") as f:
                f.write(text)
            res["evaluations"] += 1
            res["distribution"]["writings"] += 1
            if text not in seen:
                seen.add(text)
                res["distinct"] += 1
            try:
                got = compute_app_hash(path)
            except Exception as e:
                got = None
                res["violations"].append({"key": "C19:parse-failure", "what": "well-formed image rejected: %r" % e,
                                          "file": text[:400]})
            if got is not None and got != want:
                res["violations"].append({"key": "C19:hash-not-sha256-of-areas",
                                          "what": "reported hash is not SHA-256 over the data areas in address "
                                                  "order (record sizes %r, order %r)" % (sizes, order),
                                          "areas": [(hex(a), len(d)) for a, d in areas], "file": text[:600]})
            hashes.add(got)
            if w == 1 and got is not None:
                # the image is rebuilt in place: same path, same size, same modification time, other bytes
                st = os.stat(path)
                areas2 = [(a, bytes((x + 1) & 0xFF for x in d)) for a, d in areas]
                text2 = ihexgen.write_image(areas2, sizes, order, newline="\r\n" if "\r\n" in text else "\n")
                if len(text2) == len(text):
                    with open(path, "w", newline="") as f:
                        f.write(text2)
                    os.utime(path, ns=(st.st_atime_ns, st.st_mtime_ns))
                    want2 = hashlib.sha256(b"".join(d for _, d in sorted(areas2))).digest()
                    try:
                        got2 = compute_app_hash(path)
                    except Exception:
                        got2 = None
                    if got2 != want2:
                        res["violations"].append({"key": "C19:stale-hash", "what": "an image rebuilt in place "
                                                  "(same path, size and mtime) still hashes as %s"
                                                  % ("the previous image" if got2 == want else repr(got2))})
                    with open(path, "w", newline="") as f:
                        f.write(text)
                    os.utime(path, ns=(st.st_atime_ns, st.st_mtime_ns))
            if len(text) < 6000:
                terms.append("(%s, %s)" % (c_str(text), c_opt(got, c_bytes)))
                descs.append({"file": text[:500], "impl_hash": None if got is None else got.hex()})
            if w == 0:
                code, out = run_main(signapp, ["signapp", "hash", "-a", path])
                if code != 0 or ("Computed hash: %s" % want.hex()) not in out:
                    res["violations"].append({"key": "C19:signapp-hash", "what": "`signapp hash` printed %r"
                                              % out[-120:]})
            if len(res["samples"]) < 2:
                res["samples"].append({"areas": [(hex(a), len(d)) for a, d in areas], "sizes": sizes,
                                       "order": order, "hash": want.hex()})
            written.append((path, want))
            if w == 0:
                # the hash embedded in authorization messages - also when the output file is left over
                # from an earlier image (the build scripts always write to the same path)
                out_auth = os.path.join(tmp, "signer_auth.json")
                it = rng.randrange(65536)
                code, out = run_main(signapp, ["signapp", "message", "-a", path, "-i", str(it), "-o", out_auth])
                try:
                    got = json.load(open(out_auth))["signer"]
                except Exception:
                    got = None
                try:
                    from admin.signer_authorization import SignerAuthorization
                    msg_text = SignerAuthorization.from_jsonfile(out_auth).signer_version.msg
                except Exception as e:
                    msg_text = "unreadable: %r" % e
                if msg_text != "RSK_powHSM_signer_%s_iteration_%d" % (want.hex(), it):
                    res["violations"].append({"key": "C19:message-text", "what": "the authorization message for an "
                                              "image hashing to %s (iteration %d) reads %r"
                                              % (want.hex(), it, msg_text)})
                if code != 0 or got is None or got.get("hash") != want.hex() or str(got.get("iteration")) != str(it):
                    res["violations"].append({"key": "C19:signapp-message", "what": "`signapp message -o` wrote "
                                              "%r for an image whose hash is %s, iteration %d (the output file "
                                              "existed before: %s)" % (got, want.hex(), it, len(written) > 1)})
        if len(hashes) != 1:
            res["violations"].append({"key": "C19:hash-depends-on-records", "what": "the same image hashes "
                                      "differently depending on record sizes / order"})
    # ---- one-time signing
    keys = []
    runs = 4 if ctx["tier"] == "quick" else 40
    for r in range(runs):
        k = rng.randint(1, 4)
        apps = [written[rng.randrange(len(written))] for _ in range(k)]
        rd = os.path.join(tmp, "sig_%d" % r)
        os.makedirs(rd, exist_ok=True)
        local = []
        for j, (p, h) in enumerate(apps):
            if r % 2:
                # one directory per application, every image called app.hex (the stock build layout)
                os.makedirs(os.path.join(rd, "app%d" % j, "bin"), exist_ok=True)
                q = os.path.join(rd, "app%d" % j, "bin", "app.hex")
            else:
                q = os.path.join(rd, "app%d.hex" % j)
            shutil.copy(p, q)
            local.append((q, h))
        pub_path = os.path.join(rd, "pub.txt")
        captured = []
        orig = ecdsa.SigningKey.generate

        def gen_wrap(*a, **kw):
            sk = orig(*a, **kw)
            captured.append(sk)
            return sk
        ecdsa.SigningKey.generate = gen_wrap
        try:
            # every option the tool offers is exercised: the long and short spellings, with and without -v
            argv = ["signonetime", "-a", ",".join(q for q, _ in local), "-p", pub_path]
            if r % 4 == 1:
                argv.append("-v")
            elif r % 4 == 2:
                argv = ["signonetime", "--app", ",".join(q for q, _ in local), "--publickey", pub_path, "--verbose"]
            code, out = run_main(signonetime, argv)
        finally:
            ecdsa.SigningKey.generate = orig
        res["evaluations"] += 1
        res["distribution"]["signing_runs"] += 1
        if code != 0 or len(captured) != 1:
            res["violations"].append({"key": "C19:signonetime-failed", "what": "exit %r, %d keys generated: %s"
                                      % (code, len(captured), out[-200:])})
            continue
        sk = captured[0]
        keys.append(sk.to_string())
        pub_hex = open(pub_path).read().strip()
        exp_pub = sk.get_verifying_key().to_string("uncompressed").hex()
        if pub_hex != exp_pub:
            res["violations"].append({"key": "C19:pubkey-file", "what": "public key file is not the "
                                      "uncompressed public key of the run's key"})
        try:
            pk = secp256k1.PublicKey(bytes.fromhex(pub_hex), raw=True)
        except Exception:
            pk = None
        rs_seen = {}
        for q, h in local:
            try:
                # "written nowhere" includes written in a derivable form: two signatures of one run over different
                # digests that share r (a repeated nonce) give the private key away by simple arithmetic
                sig0 = bytes.fromhex(open(q + ".sig").read().strip())
                rlen = sig0[3]
                r_val = sig0[4:4 + rlen]
                if r_val in rs_seen and rs_seen[r_val] != h:
                    res["violations"].append({"key": "C19:private-key-derivable", "what": "two signatures of one run "
                                              "share r (repeated nonce): the run's private key can be computed "
                                              "from the signature files"})
                rs_seen[r_val] = h
            except Exception:
                pass
            try:
                sig = bytes.fromhex(open(q + ".sig").read().strip())
                rsig = pk.ecdsa_deserialize(sig)
                rsig = pk.ecdsa_signature_normalize(rsig)[1]     # libsecp256k1 insists on low-S
                ok = pk is not None and pk.ecdsa_verify(h, rsig, raw=True)
            except Exception:
                ok = False
            if not ok:
                res["violations"].append({"key": "C19:signature", "what": "signature file of %s does not "
                                          "verify (DER, secp256k1) under the written public key for the "
                                          "image's hash" % os.path.basename(q)})
        # the private key must be written nowhere
        import base64 as _b64
        needles = [sk.to_string(), sk.to_string().hex().encode(), sk.to_string().hex().upper().encode(),
                   sk.to_der(), sk.to_pem(), _b64.b64encode(sk.to_string()), sk.to_der().hex().encode(),
                   str(int.from_bytes(sk.to_string(), "big")).encode(), repr(sk.to_string()).encode()]
        # ... including the terminal
        if any(nd in out.encode("utf-8", "replace") for nd in needles):
            res["violations"].append({"key": "C19:private-key-printed", "what": "the run's private key appears in "
                                      "the tool's output (options %r)" % (argv[1::2],)})
        for root, _, files in os.walk(rd):
            for fn in files:
                blob = open(os.path.join(root, fn), "rb").read()
                if any(nd in blob for nd in needles):
                    res["violations"].append({"key": "C19:private-key-written",
                                              "what": "private key found in %s" % fn})
    if len(set(keys)) != len(keys):
        res["violations"].append({"key": "C19:key-reused", "what": "two signing runs used the same key"})
    cmp_n, mism, errs = funcases.run(ctx, "apphash", funcases.HEADER_IHEX, "check_app_hash", terms, descs,
                                     shard=8)
    res["compared"] = cmp_n
    res["mismatches"] += mism
    res["corr_errors"] += errs
    shutil.rmtree(tmp, ignore_errors=True)
    return res
