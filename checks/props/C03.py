"""C03 — no client request can take the manager down or go unanswered."""
import json
import random
import gen
import lattice
import devices
import stack
from . import servercases

LEVEL = "proof"
RULE = ("request lines served in sequences of 1..6 per manager lifetime against protocol-abiding device "
        "simulators: a hostile corpus (unhashable/mistyped command, huge integer literals, deep nesting in "
        "JSON and in RLP, out-of-range integers, oversized fields, non-block brothers, list-valued header "
        "fields), every point of the request boundary lattice, random byte strings, invalid UTF-8 and "
        "mutated valid requests; non-trivial = every line; distinct by line text")
EXPLANATION = ("Theorems C03_* state over the Gallina server/handler model which outcomes of the layers below "
               "can stop the manager; the model is compared with the implementation on every line served; the "
               "oracle demands one JSON-object line with an integer errorcode and no shutdown for every line "
               "as long as the simulated device keeps to its protocol. Partial: bytes->JSON parsing and the OS "
               "socket layer are observed, not modelled.")
TRUSTED_BASE = ["Coq 8.16.1 kernel (vm_compute)", "tools/gen_tables.py",
                "harness: fake transport, abiding device simulators, real _RequestHandler.handle driven in-process",
                "json.loads / bytes.decode classified per line by calling the real functions",
                "hand-written Gallina model tied by differential runs"]
ASSUMPTIONS = ["the device simulators keep to the firmware's protocol",
               "socketserver / OS sockets outside the model (thorough tier exercises TCPServer.run on a real socket)"]


DEEP = set()      # lines whose outcome depends on the interpreter's recursion limit: the model
                  # has no such limit, so these go to the oracle only


def hostile_corpus(rng):
    out = []

    def L(x):
        out.append(x if isinstance(x, bytes) else json.dumps(x).encode())
    L({"command": [], "version": 5})
    L({"command": {}, "version": 5})
    L({"command": ["sign"], "version": 5})
    L({"command": None, "version": 5})
    L({"command": 5, "version": 5})
    L(b'{"command": "version", "x": ' + b"1" * 5000 + b"}")
    L(b'{"command": "blockchainState", "version": ' + b"5" + b"0" * 4400 + b"}")
    L(b"[" * 100000 + b"]" * 100000)
    L(b'{"command": "version", "x": ' + b"[" * 3000 + b"]" * 3000 + b"}")
    L(b'{"a":' * 2000 + b"1" + b"}" * 2000)
    L(b"\xff\xfe\xfd")
    L(b"\xc3\x28")
    L(b"")
    L(b"   ")
    L(b"null")
    L(b"{")
    L(b'{"command": "version"} trailing')
    L(b'{"command": "version", "command": "sign"}')
    L(b'\xef\xbb\xbf{"command": "version"}')
    L(b'{"command": "sign", "version": 5, "keyId": "\\ud800", "message": {"hash": "' + b"aa" * 32 + b'"}}')
    # oversized key ids: syntactically valid BIP32 paths with far more elements than any key has
    for n in (6, 21, 64, 255, 256, 1000):
        kid = "m" + "/0" * n
        L({"command": "getPubKey", "version": 5, "keyId": kid})
        L({"command": "sign", "version": 5, "keyId": kid, "message": {"hash": "aa" * 32}})
    hdr = gen.random_header(rng, 19)
    tx = gen.random_tx(rng, max_in=2)
    auth = {"receipt": gen.random_receipt(rng).hex(), "receipt_merkle_proof": ["aa" * 20]}

    def signreq(**m):
        msg = {"tx": tx.raw().hex(), "input": 0, "sighashComputationMode": "legacy"}
        msg.update(m)
        return {"command": "sign", "version": 5, "keyId": gen.AUTH_PATHS[0], "auth": auth, "message": msg}
    for i in (-1, -2 ** 31, 2 ** 32, 2 ** 32 + 5, 2 ** 64, -2 ** 64, 10 ** 40):
        L(signreq(input=i))
    L(signreq(sighashComputationMode="segwit", witnessScript="51" * 65527, outpointValue=5))
    L(signreq(sighashComputationMode="segwit", witnessScript="51" * 65528, outpointValue=5))
    L(signreq(sighashComputationMode="segwit", witnessScript="51" * 70000, outpointValue=5))
    L(signreq(tx="00" * 300000))
    a2 = dict(auth)
    a2["receipt_merkle_proof"] = ["aa"] * 300
    L({"command": "sign", "version": 5, "keyId": gen.AUTH_PATHS[0], "auth": a2,
       "message": {"tx": tx.raw().hex(), "input": 0, "sighashComputationMode": "legacy"}})
    a3 = dict(auth)
    a3["receipt_merkle_proof"] = ["aa" * 256]
    L({"command": "sign", "version": 5, "keyId": gen.AUTH_PATHS[0], "auth": a3,
       "message": {"tx": tx.raw().hex(), "input": 0, "sighashComputationMode": "legacy"}})
    a4 = dict(auth)
    a4["receipt"] = "f9ffff" + "00" * 70000
    L({"command": "sign", "version": 5, "keyId": gen.AUTH_PATHS[0], "auth": a4,
       "message": {"tx": tx.raw().hex(), "input": 0, "sighashComputationMode": "legacy"}})

    def adv(blocks, brothers):
        return {"command": "advanceBlockchain", "version": 5, "blocks": blocks, "brothers": brothers}
    L(adv([hdr.hex()], [["aa"]]))
    L(adv([hdr.hex()], [["c0"]]))
    L(adv([hdr.hex()], [["zz"]]))
    L(adv([hdr.hex()], [[hdr.hex()] * 256]))
    L(adv([hdr.hex()], [[hdr.hex()] * 11]))
    big = gen.random_header(rng, 19, big=True)
    L(adv([big.hex()], [[]]))
    L(adv([hdr.hex()], [[big.hex()]]))
    L({"command": "updateAncestorBlock", "version": 5, "blocks": [big.hex()]})
    # header whose last field (coinbase) is an RLP list
    fields = [gen.rlp_str(f) for f in hdr.fields[:-1]] + [gen.rlp_list([gen.rlp_str(b"ab")])]
    L(adv([gen.rlp_list(fields).hex()], [[]]))
    L(adv([hdr.hex()], [[gen.rlp_list(fields).hex()]]))

    # coinbase transactions whose SHA-256 midstate byte counter (first 8 bytes) is huge: the padding of
    # the tail then needs counter*8 to fit 64 bits
    for counter in (b"\xff" * 8, (2 ** 61).to_bytes(8, "big"), (2 ** 61 - 1).to_bytes(8, "big"),
                    (2 ** 63).to_bytes(8, "big"), b"\x00" * 8):
        for tail in (0, 40):
            cbf = [gen.rlp_str(f) for f in hdr.fields[:-1]] + [gen.rlp_str(counter + gen.rbytes(rng, 32 + tail))]
            L(adv([gen.rlp_list(cbf).hex()], [[]]))
            L(adv([hdr.hex()], [[gen.rlp_list(cbf).hex()]]))
    # request lines over 1 MiB (padding inside the document)
    for doc in ({"command": "version"}, {"command": "getPubKey", "version": 5, "keyId": gen.PATHS[0]}):
        body = json.dumps(doc).encode()
        out.append(body[:-1] + b" " * ((1 << 20) + 7) + b"}")
        DEEP.add(out[-1])
    # deeply nested RLP inside a header field
    def nest(d):
        e = b"\x80"
        for _ in range(d):
            e = gen.rlp_len_prefix(len(e), 0xC0) + e
        return e
    for depth in (250, 330, 600, 1200):
        f2 = [nest(depth)] + [gen.rlp_str(f) for f in hdr.fields[1:]]
        for x in (adv([gen.rlp_list(f2).hex()], [[]]),
                  {"command": "updateAncestorBlock", "version": 5, "blocks": [gen.rlp_list(f2).hex()]},
                  adv([hdr.hex()], [[gen.rlp_list(f2).hex()]])):
            L(x)
            DEEP.add(out[-1])
    # a 17..20 byte RLP *string* as a block
    for n in (17, 18, 19, 20):
        s = gen.rlp_str(gen.rbytes(rng, n)).hex()
        L(adv([s], [[]]))
        L({"command": "updateAncestorBlock", "version": 5, "blocks": [s]})
        L(adv([hdr.hex()], [[s]]))
    L({"command": "getPubKey", "version": 5, "keyId": "m/44'/0'/0'/0/" + "9" * 5000})
    L({"command": "uiHeartbeat", "version": 5, "udValue": "22" * 32})
    L({"command": "signerHeartbeat", "version": 5, "udValue": "11" * 16})
    return out


def mutate(rng, line):
    b = bytearray(line)
    for _ in range(rng.randint(1, 4)):
        r = rng.random()
        if not b:
            b += bytes([rng.randrange(256)])
        elif r < 0.3:
            b[rng.randrange(len(b))] = rng.randrange(256)
        elif r < 0.5:
            del b[rng.randrange(len(b))]
        elif r < 0.7:
            b.insert(rng.randrange(len(b) + 1), rng.choice(b'{}[]",:0123456789-.eE\\u'))
        elif r < 0.85:
            i = rng.randrange(len(b))
            b[i:i] = b[i:i + rng.randint(1, 20)]
        else:
            i = rng.randrange(len(b))
            del b[i:i + rng.randint(1, 20)]
    return bytes(b).replace(b"\n", b" ")


def abiding_device(rng):
    d = gen.random_device(rng, mode=3)
    d.after_exit = [4, 3] * 10
    d.bo_plan = {"ask_brothers": {0, 1, 2}}
    return d


def oracle(case, obs):
    for k, r in enumerate(obs["replies"]):
        line = case["lines"][k]
        j = stack.reply_json(r)
        ok = isinstance(j, dict) and isinstance(j.get("errorcode"), int) \
            and not isinstance(j.get("errorcode"), bool)
        if r["stop"] or r["escaped"] or not ok:
            what = ("line %d of the lifetime got reply %r, shutdown=%s, escaped=%s"
                    % (k, r["raw"][:80], r["stop"], r["escaped"]))
            return {"key": "C03:" + classify_failure(line), "what": what,
                    "line": line[:300].decode("utf-8", "replace")}
    if len(obs["replies"]) != len(case["lines"]):
        return {"key": "C03:unserved", "what": "manager stopped before serving every line"}
    return None


def classify_failure(line):
    """stable key of a failure: the shape of the offending line (so that a recorded finding
    suppresses only that shape)"""
    try:
        v = json.loads(line.strip().decode("utf-8"))
    except UnicodeDecodeError:
        return "undecodable"
    except json.decoder.JSONDecodeError:
        return "json-error"
    except ValueError:
        return "parser-valueerror"
    except RecursionError:
        return "parser-recursion"
    if not isinstance(v, dict):
        return "non-object"
    c = v.get("command")
    if not isinstance(c, str):
        return "command-type:%s" % type(c).__name__
    return "command:%s" % c


def gen_cases(rng, tier):
    lines = hostile_corpus(rng)
    for mode in ("v5",):
        for shape, path, val, req in lattice.single_deviations(rng, mode):
            try:
                lines.append(json.dumps(req).encode())
            except (TypeError, ValueError):
                pass
    base = [ln for ln in lines if len(ln) < 5000 and ln not in DEEP]
    nfuzz = 400 if tier == "quick" else 20000
    for _ in range(nfuzz):
        r = rng.random()
        if r < 0.6:
            lines.append(mutate(rng, rng.choice(base)))
        elif r < 0.8:
            lines.append(bytes(rng.randrange(256) for _ in range(rng.randint(0, 60))).replace(b"\n", b" "))
        else:
            lines.append(json.dumps(rand_json(rng, 3)).encode())
    # v1 lifetimes use the v1 lattice
    cases = []
    i = 0
    order = list(range(len(lines)))
    rng.shuffle(order)
    while i < len(order):
        k = rng.randint(1, 6)
        grp = [lines[j] for j in order[i:i + k]]
        i += k
        cases.append({"mode": "v5", "kind": "ledger", "lines": grp, "device": abiding_device(rng),
                      "meta": {}, "nocompare": any(g in DEEP for g in grp)})
    v1lines = []
    for shape, path, val, req in lattice.single_deviations(rng, "v1"):
        try:
            v1lines.append(json.dumps(req).encode())
        except (TypeError, ValueError):
            pass
    v1lines += [json.dumps({"command": [], "version": 1}).encode(),
                json.dumps({"command": "sign", "version": 1, "keyId": gen.PATHS[0],
                            "message": "aa" * 32}).encode()]
    for j in range(0, len(v1lines), 4):
        cases.append({"mode": "v1", "kind": "ledger", "lines": v1lines[j:j + 4],
                      "device": abiding_device(rng), "meta": {}})
    return cases


def rand_json(rng, depth):
    r = rng.random()
    if depth == 0 or r < 0.3:
        return rng.choice([None, True, False, 0, 1, -1, 5, 2 ** 70, 1.5, "", "sign", "version", "aa" * 32])
    if r < 0.6:
        return [rand_json(rng, depth - 1) for _ in range(rng.randint(0, 3))]
    keys = ["command", "version", "keyId", "message", "auth", "blocks", "brothers", "udValue", "hash",
            "tx", "input", "x"]
    return {rng.choice(keys): rand_json(rng, depth - 1) for _ in range(rng.randint(0, 4))}


def max_json_depth(opener, closer, inner=""):
    """deepest nesting json.loads accepts at this point of the call stack (binary search)"""
    lo, hi = 1, 400000
    while lo < hi:
        m = (lo + hi + 1) // 2
        try:
            json.loads(opener * m + inner + closer * m)
            lo = m
        except RecursionError:
            hi = m - 1
    return lo


def deployed_logging_pass(ctx, res):
    """The manager runs with logging configured (logging.cfg: a console StreamHandler at DEBUG on the root logger),
    so every request is also FORMATTED for the log.  The rest of the check runs with logging disabled; this pass
    serves the part of the corpus whose handling depends on that - nestings around the deepest one the parser
    accepts, where formatting the parsed request needs more recursion than parsing it - and the small hostile
    lines, with a handler attached as the manager's configuration does (writing to a sink)."""
    import io
    import logging
    rng = ctx["rng"]
    sink = io.StringIO()
    h = logging.StreamHandler(sink)
    h.setLevel(logging.DEBUG)
    h.setFormatter(logging.Formatter("[%(levelname)s:%(name)s] %(message)s"))
    root = logging.getLogger()
    old_level, old_disable = root.level, root.manager.disable
    logging.disable(logging.NOTSET)
    root.addHandler(h)
    root.setLevel(logging.NOTSET)
    n = 0
    try:
        lines = []
        for opener, closer in ((b"[", b"]"), (b'{"a":', b"}")):
            inner = b"1" if opener != b"[" else b""
            top = max_json_depth(opener.decode(), closer.decode(), inner.decode())
            span = 48 if ctx["tier"] == "quick" else 200
            for d in range(max(1, top - span), top + 3):
                lines.append(opener * d + inner + closer * d)
                lines.append(b'{"command": "version", "x": ' + opener * (d - 1) + inner + closer * (d - 1) + b"}")
                if ctx["tier"] != "quick" or d % 4 == 0:
                    lines.append(b'{"command": "sign", "version": 5, "keyId": "m/44\'/0\'/0\'/0/0", "message": '
                                 + opener * (d - 1) + inner + closer * (d - 1) + b"}")
        lines += [ln for ln in hostile_corpus(rng) if len(ln) < 20000]
        for ln in lines:
            case = {"mode": "v5", "kind": "ledger", "lines": [ln], "device": abiding_device(rng), "meta": {}}
            obs = stack.run_case(case)
            n += 1
            v = oracle(case, obs)
            if v is not None:
                v = dict(v, key=v["key"] + ":logging-on",
                         what=v["what"] + " (logging configured as the manager's logging.cfg does)")
                res["violations"].append(v)
    finally:
        root.removeHandler(h)
        root.setLevel(old_level)
        logging.disable(old_disable)
    res["evaluations"] = res.get("evaluations", 0) + n
    res.setdefault("distribution", {})["lines_served_with_logging_configured"] = n
    res.setdefault("notes", []).append("deployed-logging pass: %d lines (nestings around the parser's limit, hostile "
                                       "corpus) served with a DEBUG stream handler on the root logger" % n)


def run(ctx):
    cases = gen_cases(ctx["rng"], ctx["tier"])
    res = servercases.run(ctx, cases, oracle, shard=100)
    deployed_logging_pass(ctx, res)
    return res
