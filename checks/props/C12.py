"""C12 — concurrent clients never interleave on the device (partial: model + monitored runs)."""
import hashlib
import json
import socket
import threading
import time
import env
import gen
import devices
from comm.server import TCPServer
from ledger.protocol import HSM2ProtocolLedger
from ledger.hsm2dongle import HSM2Dongle

LEVEL = "other"
RULE = ("2..16 client threads over real TCP sockets against TCPServer.run, each issuing a request whose reply "
        "identifies it (getPubKey per path, sign of a client-specific hash, blockchainState, signerHeartbeat, "
        "advanceBlockchain), with random delays injected on the device side; every APDU is tagged with the "
        "handler thread and request that caused it; non-trivial = a round with at least two clients connected "
        "before the first reply; distinct by (round, client set)")
EXPLANATION = ("The Coq development proves, over a scheduling model, that a sequential server (accept only when "
               "idle, handler runs to completion in the server thread) gives block-contiguous device logs and "
               "FIFO replies for EVERY schedule, that a threaded one admits an interleaving schedule, and checks "
               "the generated constant SERVER_IS_SEQUENTIAL (class instantiated in TCPServer.run, no threading "
               "mix-in, no thread/process spawned in the handlers). What the model cannot exhibit - the kernel's "
               "accept queue, thread scheduling, socketserver internals - is observed at run time: the tagged "
               "APDU log must be block-contiguous per request and each client must get the reply to its own "
               "request.")
TRUSTED_BASE = ["Coq 8.16.1 kernel", "tools/gen_tables.py (server class and mix-ins read from the source)",
                "harness: real sockets on 127.0.0.1, device simulator with injected delays, per-thread tagging",
                "the scheduling model is an abstraction of socketserver (not derived from its source)"]
ASSUMPTIONS = ["observed schedules are a sample; the theorem covers all schedules of the abstract model only"]


class TaggedDevice:
    """device simulator shared by all requests; logs (tag, apdu) and sleeps to widen every window"""

    def __init__(self, rng, delay):
        self.dev = gen.random_device(rng, mode=3)
        self.dev.bo_plan = {"ask_brothers": {0}}
        self.lock = threading.Lock()
        self.log = []
        self.delay = delay
        self.rng = rng
        self.tags = threading.local()

    # link model: a read error loses the host's read, not the device's answer - the answer stays in
    # the link's buffer and is what the next read on the same (not re-opened) link returns
    slow_left = 0
    served = None            # per request handled: (tag, number of device exchanges made while it was handled, reply)
    fault_in = None          # the n-th exchange from now fails with a read error
    stale = None
    world = None

    def opens(self):
        return len([e for e in self.world.trace if e[0] == "C"]) if self.world is not None else 0

    shared_tag = None        # used when the device runs in its own thread (real TCP transport)
    use_shared = False

    def __call__(self, apdu):
        tag = self.shared_tag if self.use_shared else getattr(self.tags, "current", None)
        self.log.append((tag, bytes(apdu)))
        if self.delay:
            time.sleep(self.rng.random() * self.delay)
        if self.slow_left > 0:
            # the exchanges right after a link fault (the repair, whoever carries it out) are slow: widens the
            # window in which anything that talks to the device outside the request being served would show
            self.slow_left -= 1
            time.sleep(0.03)
        ans = self.answer(apdu)
        if self.stale is not None:
            if self.opens() != self.stale[0]:
                self.stale = None                  # the link was re-opened: buffer gone
            else:
                ans, self.stale = self.stale[1], (self.stale[0], ans)
        if self.fault_in is not None:
            self.fault_in -= 1
            if self.fault_in <= 0:
                self.fault_in = None
                self.slow_left = 14
                if not self.use_shared:
                    # (over the real TCP transport the in-process signer closes the connection instead:
                    # nothing stays buffered, the answer is lost with the link)
                    self.stale = (self.opens(), ans)
                return ("R",)
        return ans

    def answer(self, apdu):
        # sign of a hash: answer derived from the hash so that replies identify requests
        if apdu[1] == 0x02 and len(apdu) == 3 + 21 + 32:
            h = bytes(apdu[24:])
            r, s = hashlib.sha256(b"r" + h).digest(), hashlib.sha256(b"s" + h).digest()
            return ("D", bytes([0x80, 0x02, 0x81]) + devices.der(b"\x00" + r if r[0] & 0x80 else r,
                                                                  b"\x00" + s if s[0] & 0x80 else s))
        return self.dev(apdu)


class TcpSigner(threading.Thread):
    """in-process stand-in for the TCPSigner / SGX enclave end of ledgerblue.commTCP: length-prefixed
    APDUs in, length-prefixed data + status word out; can stall once for longer than the manager's
    exchange timeout"""

    def __init__(self, dev, stall_at=None, stall=0.0):
        super().__init__(daemon=True)
        self.dev = dev
        self.stall_at = stall_at
        self.stall = stall
        self.count = 0
        self.lsock = socket.socket(socket.AF_INET, socket.SOCK_STREAM)
        self.lsock.bind(("127.0.0.1", 0))
        self.lsock.listen(8)
        self.port = self.lsock.getsockname()[1]
        self.stop = False

    def recvn(self, c, n):
        buf = b""
        while len(buf) < n:
            chunk = c.recv(n - len(buf))
            if not chunk:
                return None
            buf += chunk
        return buf

    def serve(self, c):
        import struct
        while True:
            h = self.recvn(c, 4)
            if h is None:
                return
            apdu = self.recvn(c, struct.unpack(">I", h)[0])
            if apdu is None:
                return
            ans = self.dev(apdu)
            self.count += 1
            if self.stall_at is not None and self.count == self.stall_at:
                time.sleep(self.stall)
            if ans[0] == "D":
                out = struct.pack(">I", len(ans[1])) + bytes(ans[1]) + struct.pack(">H", 0x9000)
            elif ans[0] == "S":
                out = struct.pack(">I", 0) + struct.pack(">H", ans[1])
            else:
                c.close()
                return
            try:
                c.sendall(out)
            except OSError:
                return

    def run(self):
        self.lsock.settimeout(0.2)
        while not self.stop:
            try:
                c, _ = self.lsock.accept()
            except OSError:
                continue
            threading.Thread(target=self.serve, args=(c,), daemon=True).start()


def expected_reply(dev, req):
    c = req["command"]
    if c == "version":
        return {"errorcode": 0, "version": 5}
    if c == "getPubKey":
        return {"errorcode": 0, "pubKey": dev.dev.pubkeys[gen.path_binary(req["keyId"])].hex()}
    if c == "sign":
        h = bytes.fromhex(req["message"]["hash"] if isinstance(req["message"], dict) else req["message"])
        r, s = hashlib.sha256(b"r" + h).digest(), hashlib.sha256(b"s" + h).digest()
        return {"errorcode": 0, "signature": {"r": (b"\x00" + r if r[0] & 0x80 else r).hex(),
                                              "s": (b"\x00" + s if s[0] & 0x80 else s).hex()}}
    return None


def one_round(rng, nclients, delay, seq, fault=False, kind="ledger", v1=False, fatal=False):
    dev = TaggedDevice(rng, delay)
    dev.served = []
    world = env.World(device=dev)
    dev.world = world
    env.install_transport(world)
    signer = None
    if kind == "tcp-real":
        # the genuine ledgerblue.commTCP transport against an in-process signer that stalls once for
        # longer than the exchange timeout
        import ledger.hsm2dongle_tcp as ht
        import ledgerblue.commTCP as commTCP
        from ledger.hsm2dongle_tcp import HSM2DongleTCP
        ht.getDongle = commTCP.getDongle
        dev.use_shared = True
        signer = TcpSigner(dev, stall_at=4 + 3 + rng.randint(1, 4), stall=HSM2Dongle.DONGLE_TIMEOUT + 1.5)
        signer.start()
        env.set_platform("X86")
        dongle = HSM2DongleTCP("127.0.0.1", signer.port, False)
    elif kind == "tcp":
        # the TCP transport used for the simulator and (as a base class) for SGX
        from ledger.hsm2dongle_tcp import HSM2DongleTCP
        env.set_platform("X86")
        dongle = HSM2DongleTCP("127.0.0.1", 1, False)
    else:
        env.set_platform("Ledger")
        dongle = HSM2Dongle(False)
    # the manager is started through its real entry point (mgr.runner.ManagerRunner.run), which builds
    # the protocol object (v5 or legacy v1) and the server; every request is tagged where the server hands
    # a connection to the request handler
    import types
    import mgr.runner as runner
    import comm.server as cs
    counter = {"n": 0}
    lock = threading.Lock()
    orig_handle = cs._RequestHandler.handle

    def tagged_handle(self, client_address, rfile, wfile):
        with lock:
            counter["n"] += 1
            my = (threading.get_ident(), counter["n"])
        dev.tags.current = my
        dev.shared_tag = my
        n0 = len(dev.log)
        written = []

        class W:
            def write(self_, data):
                written.append(bytes(data))
                return wfile.write(data)

            def __getattr__(self_, name):
                return getattr(wfile, name)
        try:
            return orig_handle(self, client_address, rfile, W())
        finally:
            dev.served.append((my, len(dev.log) - n0, b"".join(written)))
            dev.tags.current = None
            dev.shared_tag = None

    class CapTCPServer(cs.TCPServer):
        last = None

        def __init__(self, *a, **kw):
            super().__init__(*a, **kw)
            CapTCPServer.last = self
    real_srv, real_cfg = runner.TCPServer, runner.configure_logging
    cs._RequestHandler.handle = tagged_handle
    runner.TCPServer = CapTCPServer
    runner.configure_logging = lambda path: None
    opts = types.SimpleNamespace(logconfigfilepath=None, version_one=v1, host="127.0.0.1", port=0)
    t = threading.Thread(target=lambda: runner.ManagerRunner("manager", lambda o: dongle, lambda o: None).run(opts),
                         daemon=True)
    t.start()
    for _ in range(2000):
        if CapTCPServer.last is not None and CapTCPServer.last.server is not None:
            break
        time.sleep(0.005)
    srv = CapTCPServer.last
    port = srv.server.server_address[1]
    reqs = []
    hdr = gen.random_header(rng, 19)
    for i in range(nclients):
        k = rng.randrange(8)
        if v1:
            # the legacy protocol knows getPubKey and sign only
            if k % 2:
                reqs.append({"command": "getPubKey", "version": 1, "keyId": gen.PATHS[i % 6]})
            else:
                reqs.append({"command": "sign", "version": 1, "keyId": gen.UNAUTH_PATHS[i % 4],
                             "message": hashlib.sha256(b"client%d-%d" % (i, seq)).hexdigest()})
        elif k == 0:
            reqs.append({"command": "getPubKey", "version": 5, "keyId": gen.PATHS[i % 6]})
        elif k == 1:
            reqs.append({"command": "sign", "version": 5, "keyId": gen.UNAUTH_PATHS[i % 4],
                         "message": {"hash": hashlib.sha256(b"client%d-%d" % (i, seq)).hexdigest()}})
        elif k == 2:
            reqs.append({"command": "blockchainState", "version": 5})
        elif k == 3:
            reqs.append({"command": "signerHeartbeat", "version": 5, "udValue": "%032x" % (i + 1)})
        elif k == 4:
            reqs.append({"command": "advanceBlockchain", "version": 5, "blocks": [hdr.hex()],
                         "brothers": [[]]})
        elif k == 5:
            # requests that need no device exchange at all are clients like any other
            reqs.append({"command": "version"})
        elif k == 6:
            reqs.append({"command": "blockchainParameters", "version": 5})
        else:
            reqs.append({"command": "updateAncestorBlock", "version": 5, "blocks": [hdr.hex()]})
    if fatal:
        # one of the clients meets an answer that takes the manager down (a status word outside the
        # firmware's range) while the others are queued behind it / arrive meanwhile
        reqs[0] = {"command": "getPubKey", "version": 5 if not v1 else 1, "keyId": gen.PATHS[0]}
        dev.dev.inject[(0x04, "*")] = 0x6F01
    if fault:
        # one earlier request loses the link in the middle of its exchanges
        pre = rng.choice([{"command": "blockchainState", "version": 5},
                          {"command": "signerHeartbeat", "version": 5, "udValue": "%032x" % 77},
                          {"command": "getPubKey", "version": 5, "keyId": gen.PATHS[0]}])
        dev.fault_in = rng.randint(1, {"blockchainState": 9, "signerHeartbeat": 4, "getPubKey": 1}[pre["command"]])
        s = socket.create_connection(("127.0.0.1", port), timeout=180)
        s.sendall(json.dumps(pre).encode() + b"\n")
        buf = b""
        while not buf.endswith(b"\n"):
            chunk = s.recv(65536)
            if not chunk:
                break
            buf += chunk
        s.close()
        dev.pre_reply = buf
    replies = [None] * nclients
    start = threading.Barrier(nclients)

    def client(i):
        try:
            start.wait(timeout=5)
            # generous: a stalled device (tcp-real rounds) delays every client queued behind it
            s = socket.create_connection(("127.0.0.1", port), timeout=180)
            s.sendall(json.dumps(reqs[i]).encode() + b"\n")
            buf = b""
            while not buf.endswith(b"\n"):
                chunk = s.recv(65536)
                if not chunk:
                    break
                buf += chunk
            s.close()
            replies[i] = buf
        except Exception as e:
            replies[i] = ("error", repr(e))
    ths = [threading.Thread(target=client, args=(i,)) for i in range(nclients)]
    for th in ths:
        th.start()
    for th in ths:
        th.join(timeout=240)
    srv.server.shutdown()
    t.join(timeout=10)
    srv.server.server_close()
    cs._RequestHandler.handle = orig_handle
    runner.TCPServer, runner.configure_logging = real_srv, real_cfg
    if signer is not None:
        signer.stop = True
    return dev, reqs, replies


def contiguous(log):
    """every request's exchanges form one block; an exchange that belongs to no request (tag None,
    e.g. made by a helper thread) may not fall inside a block either. Exchanges before the first
    request (start-up) are not considered."""
    first = next((i for i, (tag, _) in enumerate(log) if tag is not None), len(log))
    seen, cur = set(), None
    for k, (tag, _) in enumerate(log[first:]):
        if tag is None:
            tag = ("foreign", k)
        if tag != cur:
            if tag in seen:
                return False
            if cur is not None:
                seen.add(cur)
            cur = tag
    return True


def run(ctx):
    rng = ctx["rng"]
    rounds = 25 if ctx["tier"] == "quick" else 600
    res = {"evaluations": 0, "compared": 0, "distinct": 0, "mismatches": [], "violations": [],
           "samples": [], "distribution": {"clients": {}, "apdus": 0}, "corr_errors": [], "notes": []}
    for r in range(rounds):
        n = rng.randint(2, 16)
        fatal = (r % 6 == 3)
        kind = ("tcp-real" if r == 1 or (ctx["tier"] == "thorough" and r % 40 == 1)
                else "tcp" if r % 4 == 3 else "ledger")
        # link faults are those of the property's vocabulary (the HID transport's write / read error, which the
        # fake transports raise); over the genuine TCP transport a connection closed by the signer surfaces as
        # struct.error, which _send_command classifies as a generic dongle error and getPubKey answers by
        # stopping the manager - behaviour outside C11's fault kinds and C12's schedules (DESIGN.md, C12), so
        # the rounds over the genuine TCP transport inject the stall (time-out) only
        fault_round = (r % 3 == 2 and kind != "tcp-real")
        dev, reqs, replies = one_round(rng, n, 0.002 if r % 2 else 0.0005, r, fault=fault_round,
                                       v1=(r % 5 == 4 and r % 3 != 2), fatal=fatal, kind=kind)
        res["evaluations"] += 1
        res["distinct"] += 1
        res["distribution"]["clients"][n] = res["distribution"]["clients"].get(n, 0) + 1
        log = [e for e in dev.log if e[0] is not None]
        res["distribution"]["apdus"] += len(log)
        res["distribution"]["fault_rounds"] = res["distribution"].get("fault_rounds", 0) + (1 if fault_round else 0)
        if not contiguous(dev.log):
            res["violations"].append({"key": "C12:interleaved", "what": "APDUs of different requests "
                                      "interleave on the device", "tags": [str(t) for t, _ in log][:60]})
        untagged = [a.hex() for t_, a in dev.log if t_ is None][4:]
        res["distribution"]["fatal_rounds"] = res["distribution"].get("fatal_rounds", 0) + (1 if fatal else 0)
        victim_used = False
        for i, (rq, rp) in enumerate(zip(reqs, replies)):
            if not isinstance(rp, bytes) or rp.count(b"\n") != 1:
                if fatal:
                    continue         # the manager went down: clients behind the fatal request get nothing
                res["violations"].append({"key": "C12:no-reply", "what": "client %d got %r" % (i, rp),
                                          "round": r, "request": rq, "clients": n})
                continue
            exp = expected_reply(dev, rq)
            got = json.loads(rp)
            if fatal and rq["command"] == "getPubKey" and got != exp and not victim_used and \
                    got.get("errorcode") in (None, -906, -2):
                victim_used = True   # the one request that met the fatal answer
                continue
            if exp is not None and got != exp:
                res["violations"].append({"key": "C12:wrong-reply", "what": "client %d received a reply that "
                                          "is not the reply to its own request" % i, "request": rq, "got": got})
            elif exp is None and got.get("errorcode") not in (0, 1):
                res["violations"].append({"key": "C12:failed-under-concurrency", "what": "request failed: %r"
                                          % got, "request": rq["command"]})
        # "the reply to its own request": every command but `version` reports device data or a device verdict, so
        # a success reply made while the request exchanged nothing with the device was not made for this request
        for tag, nex, raw in dev.served:
            try:
                jr = json.loads(raw)
            except ValueError:
                continue
            if isinstance(jr, dict) and jr.get("errorcode") in (0, 1) and "version" not in jr and nex == 0:
                res["violations"].append({"key": "C12:reply-without-own-exchange",
                                          "what": "a request was answered %r although no device exchange was made "
                                                  "while it was handled" % raw[:120], "round": r})
        if len(res["samples"]) < 2:
            res["samples"].append({"clients": n, "requests": [q["command"] for q in reqs],
                                   "log_tags": [str(t_[1]) for t_, _ in log][:40]})
    res["distribution"]["clients"] = {str(k): v for k, v in res["distribution"]["clients"].items()}
    return res
