"""C01 — signing relays to the device exactly what the client asked to have signed."""
import struct
import gen
import devices
import stack
from . import servercases

LEVEL = "proof"
RULE = ("server-level sign requests (authorized legacy/segwit with generated transactions, receipts and "
        "merkle proofs; unauthorized hash; legacy v1 mode) against a reassembling signer simulator with "
        "randomised chunk-request policies, early termination and injected statuses; non-trivial = at "
        "least one APDU exchanged; distinct by (request, device answers)")
EXPLANATION = ("Theorems C01_* (chunk slicing, framing, reply/signature) are about the Gallina model of "
               "_send_data_in_chunks / sign_authorized / sign_unauthorized; the model is compared with the "
               "implementation byte for byte on every recorded exchange, and an oracle independent of the "
               "model compares what the simulated device reassembled with the JSON request.")
TRUSTED_BASE = ["Coq 8.16.1 kernel (vm_compute)", "tools/gen_tables.py",
                "harness: fake transport, reassembling signer simulator (from firmware auth*.c)",
                "bitcoin.core shim standing in for python-bitcoinlib (absent in the sandbox)",
                "hand-written Gallina model tied by differential runs"]
ASSUMPTIONS = ["the bitcoin.core shim behaves as python-bitcoinlib on the surface used",
               "the device simulator is the ground truth for what the device holds"]


def expected_parts(meta):
    req = meta["req"]
    msg = req["message"]
    parts = {"path": gen.path_binary(req["keyId"])}
    if "hash" in msg:
        parts["hash"] = bytes.fromhex(msg["hash"])
        return parts
    parts["input"] = struct.pack("<I", msg["input"])
    utx = meta["tx"].unsigned()
    seg = msg["sighashComputationMode"] == "segwit"
    ed = b""
    if seg:
        ws = bytes.fromhex(msg["witnessScript"])
        ed = gen.varint(len(ws)) + ws + struct.pack("<Q", msg["outpointValue"])
    parts["btc_payload"] = struct.pack("<I", 7 + len(utx)) + bytes([1 if seg else 0]) + \
        struct.pack("<H", len(ed)) + utx + ed
    parts["receipt"] = meta["receipt"]
    parts["proof"] = bytes([len(meta["proof"])]) + b"".join(bytes([len(n)]) + n for n in meta["proof"])
    return parts


def oracle(case, obs):
    meta = case["meta"]
    d = case["device"]
    j = stack.reply_json(obs["replies"][-1])
    if j is None:
        return {"key": "C01:noreply", "what": "no single-line JSON reply"}
    if meta.get("skip_oracle"):
        return None
    exp = expected_parts(meta)
    got = d.received
    order = ["path", "input", "hash", "btc_payload", "receipt", "proof"]
    # every part the device holds must be a prefix of the expected part; nothing else may exist
    for k, v in got.items():
        if k == "hb_ud":
            continue
        if k not in exp or not exp[k].startswith(v):
            return {"key": "C01:%s:corrupt" % k, "what": "device holds %s bytes that are not what the "
                    "client asked for" % k, "expected": exp.get(k, b"").hex(), "got": v.hex()}
    over = getattr(d, "oversize", None)
    if over:
        return {"key": "C01:%s:oversize-chunk" % over[0], "what": "the device asked for %d bytes of the %s part "
                "and was sent %d" % (over[1], over[0], over[2])}
    ok = j.get("errorcode") == 0
    complete = all(got.get(k) == exp[k] for k in exp) and d.reported_success
    if ok and not complete:
        return {"key": "C01:success-incomplete", "what": "success reply although the device did not "
                "consume every byte of every part / did not report success"}
    if complete and not ok and not meta.get("bad_sig"):
        return {"key": "C01:complete-not-success", "what": "device consumed everything and reported "
                "success but the reply is an error", "reply": j}
    if meta.get("device_success", True) and not meta.get("bad_sig") and not ok:
        # an abiding device (it asks for every byte of every part and then reports success; no injected
        # status, no early stop) and a well-formed request: the signature must come back
        return {"key": "C01:abiding-device-not-success", "what": "well-formed request, abiding device, "
                "yet the reply is not a success", "reply": j, "held": {k: len(v) for k, v in got.items()}}
    if ok:
        r, s = d.sign_sig
        if j.get("signature") != {"r": r.hex(), "s": s.hex()}:
            return {"key": "C01:signature", "what": "reply does not carry the device's r and s",
                    "got": j.get("signature"), "expected": [r.hex(), s.hex()]}
    return None


def _spell(rng, h):
    k = rng.randrange(4)
    if k == 0:
        return h.upper()
    if k == 1:
        return " ".join(h[i:i + 2] for i in range(0, len(h), 2))
    if k == 2:
        return " " + h + "\n"
    return "".join(c.upper() if rng.random() < 0.5 else c for c in h)


def respell(rng, req):
    import copy
    r = copy.deepcopy(req)
    if "auth" in r:
        r["auth"]["receipt"] = _spell(rng, r["auth"]["receipt"])
        r["auth"]["receipt_merkle_proof"] = [_spell(rng, n) for n in r["auth"]["receipt_merkle_proof"]]
    m = r["message"]
    for f in ("hash", "witnessScript", "tx"):
        if isinstance(m, dict) and f in m and rng.random() < 0.7:
            m[f] = _spell(rng, m[f])
    return r


def gen_cases(rng, n):
    cases = []
    for i in range(n):
        d = gen.random_device(rng)
        meta = {}
        kind = i % 4
        mode = "v5"
        if kind in (0, 1):
            req, tx, receipt, proof = gen.sign_request_auth(rng, segwit=(kind == 1))
            meta.update(tx=tx, receipt=receipt, proof=proof)
            if req["message"]["input"] >= 2 ** 32:
                req["message"]["input"] = 0
        elif kind == 2:
            req = {"command": "sign", "version": 5, "keyId": rng.choice(gen.UNAUTH_PATHS),
                   "message": {"hash": gen.rbytes(rng, 32).hex()}}
        else:
            mode = "v1"
            req = {"command": "sign", "version": 1, "keyId": rng.choice(gen.PATHS),
                   "message": gen.rbytes(rng, 32).hex()}
            meta["v1"] = True
        meta["req"] = req if mode == "v5" else {"keyId": req["keyId"], "message": {"hash": req["message"]}}
        # device behaviour variations
        r = rng.random()
        if kind in (0, 1):
            if r < 0.08:
                stage = rng.choice(["tx", "receipt", "proof"])
                d.early[stage] = rng.randint(1, 40)
                meta["device_success"] = False
            elif r < 0.16:
                # the device stops asking a few bytes short of the end of a part, after many small chunks
                d.early[rng.choice(["tx", "receipt"])] = -rng.randint(1, 3)
                d.policy = devices.Policy(chunk=rng.choice([3, 5, 8, 13, 21]))
                meta["device_success"] = False
            elif r < 0.2:
                d.final_op = rng.choice([0x08, 0x02, 0x04, 0x55])
                meta["device_success"] = False
            elif r < 0.3:
                op = rng.choice([0x01, 0x02, 0x04, 0x08])
                d.inject[(0x02, op)] = rng.choice([0x6A87, 0x6A88, 0x6A89, 0x6A8A, 0x6A8F, 0x6A90, 0x6A97,
                                                   0x6B00, 0x69FF])
                meta["device_success"] = False
        else:
            if r < 0.15:
                d.inject[(0x02, 0x01)] = rng.choice([0x6A87, 0x6A8F, 0x6A90, 0x6A91, 0x6B01])
                meta["device_success"] = False
        sr, ss = d.sign_sig
        wire = req
        if mode == "v5" and rng.random() < 0.15:
            # the same request with its hex strings spelt differently (upper case, blank-separated bytes,
            # surrounding blanks): bytes.fromhex reads them all as the same bytes
            wire = respell(rng, req)
            meta["respelt"] = True
        case = {"mode": mode, "kind": "ledger", "lines": [gen.line(wire)], "device": d, "meta": meta}
        if kind in (0, 1) and 0.82 <= r < 0.9:
            # history: an earlier request for the same receipt with another merkle proof (a retry with a
            # corrected proof, or the same RSK transaction in a competing block)
            import copy as _copy
            first = _copy.deepcopy(req)
            first["auth"]["receipt_merkle_proof"] = [n.hex() for n in gen.random_proof(rng)]
            case["lines"] = [gen.line(first), gen.line(wire)]
            meta["history"] = "same-receipt-other-proof"
        if r >= 0.9:
            # history: the same request first hits a link failure at some exchange, is repeated once the
            # link is back: the repaired link must carry the whole request to the device
            case["device"] = devices.FailOnce(d, at=(rng.choice([0, 1, 2, 3]) if kind in (0, 1) else 0),
                                              kind=rng.choice(["W", "R"]))
            case["lines"] = [gen.line(req)] * 2
            case["connects"] = [True]
            meta["history"] = "link-failure-then-retry"
        cases.append(case)
    return cases


def run(ctx):
    n = 300 if ctx["tier"] == "quick" else 5000
    return servercases.run(ctx, gen_cases(ctx["rng"], n), oracle, shard=60)
