"""C18 — admin commands touch seed and PIN only under their preconditions."""
import itertools
import json
import os
import ecdsa
import admincmd
import devices
import gen
import certs
from . import funcases

LEVEL = "proof"
RULE = ("complete product: device state (mode {bootloader, signer, ui-heartbeat, unknown} x onboarded x echo "
        "ok/bad) x platform {Ledger, SGX} x operator input (PIN valid / too short / digits only / "
        "non-alphanumeric / absent and typed, any-pin flag, answers yes / no / other then yes / none, "
        "no-unlock flag) for onboard, unlock, changepin and pubkeys; non-trivial = every cell; distinct by cell")
EXPLANATION = ("Theorems C18_* prove for every device script and operator input that the destructive APDUs of "
               "onboarding (SEED, SEND_PIN, WIPE / SGX_ONBOARD) appear only after bootloader mode, correct echo, "
               "not-onboarded and an explicit yes, carry exactly the 32 random seed bytes in order, that PINs sent "
               "satisfy the policy unless any-PIN was allowed, and that unlock sends a PIN only to an onboarded "
               "device in bootloader mode; the model is compared with the real commands over the whole product "
               "with stdin, getpass, os.urandom and sleep replaced; the oracle inspects the simulated device's "
               "APDU log and the files written.")
TRUSTED_BASE = ["Coq 8.16.1 kernel (vm_compute)", "tools/gen_tables.py (commands, PIN policy, PATHS)",
                "harness: fake transport, device simulator, patched stdin/getpass/urandom/sleep",
                "hand-written Gallina model tied by differential runs"]
ASSUMPTIONS = ["os.urandom is an oracle: 'fresh random seed' is checked as 'the bytes os.urandom returned, in order'",
               "Ledger onboarding is followed up to the device-side onboarding; the attestation setup that follows "
               "is C15's subject"]

PINS = {"valid": "abcd1234", "short": "abc123", "digits": "12345678", "symbols": "abcd12!@", "long": "abcdefgh1",
        # 8 bytes once encoded, letters and digits only for str.isalnum(), but not ASCII
        "latin1": "clave1\u00f3", "latin1-digits": "123456\u00fc", "fullwidth": "abc12\uff11", "sup": "abcde1\u00b2"}
ODD_PINS = ["latin1", "latin1-digits", "fullwidth", "sup"]
NOT_YES = [[""], ["y"], ["ye"], ["es"], ["s"], ["e"], ["yess"], ["yes please"], [" yes"], ["\tyes"], ["ja"],
           ["", "", "no"], ["y", "e", "s"]]


def policy_ok(p, any_pin):
    alnum = all(chr(c).isalnum() and c < 128 for c in p)
    if any_pin:
        return alnum
    return alnum and len(p) == 8 and any(chr(c).isalpha() for c in p)


def run(ctx):
    rng = ctx["rng"]
    res = {"evaluations": 0, "compared": 0, "distinct": 0, "mismatches": [], "violations": [],
           "samples": [], "distribution": {}, "corr_errors": [], "notes": []}
    terms, descs = [], []
    dist = {}
    tmp = os.path.join(ctx["workdir"], "c18")
    os.makedirs(tmp, exist_ok=True)
    modes = [2, 3, 4, 0xFF]
    answers = [["yes"], ["no"], ["N"], ["maybe", "Yes "], [], ["y", "yes"]]
    for kind, mode, onb, echo_bad in itertools.product(["ledger", "sgx"], modes, [False, True],
                                                       [False, True, "class", "cmd", "short", "long"]):
        if echo_bad not in (False, True) and mode != 2:
            continue         # the finer ways an echo can be wrong matter where an echo is asked for: the bootloader
        # ---------------- onboard
        combos = list(itertools.product(["valid", "short", "digits", "symbols", None], [False, True], answers))
        if mode == 2 and not onb and not echo_bad:
            # answers that are not an explicit yes: empty line, fragments and supersets of "yes"
            combos += [("valid", False, a) for a in NOT_YES]
            # PINs that are 8 characters long but not ASCII alphanumerics
            combos += [(pk, ap, ["yes"]) for pk in ODD_PINS for ap in (False,)]
        combos = [c + (None,) for c in combos]
        if mode == 2 and onb and not echo_bad:
            # an onboarded device whose answer to the "are you onboarded?" question is lost or is an error
            combos += [("valid", False, ["yes"], f) for f in (0x6E00, 0x6F01, 0x6985, 0x6B01, ("T",), ("W",), ("R",))]
        for pin_kind, any_pin, ans, onb_fault in combos:
            # typed PINs: too short, compliant but wrapped in blanks (what is validated must be what is sent),
            # digits only, too long, and finally a compliant one
            typed = [b"zz", b"abcd1234 ", b"\tx1y2z3w4", b"1234567a\r", b" good1234", b"12345678",
                     b"longerthan8x", b"good1234"] if pin_kind is None else []
            seed = gen.rbytes(rng, 32)
            d = devices.Device(mode=mode, onboarded=onb, sgx=(kind == "sgx"))
            d.echo_bad = echo_bad
            if onb_fault is not None:
                d.inject[(0x06, "*")] = onb_fault
            opt = admincmd.Opt(pin=PINS.get(pin_kind), any_pin=any_pin,
                               output_file_path=os.path.join(tmp, "att.json"))
            obs = admincmd.run_admin("onboard", kind, opt, ans, typed, seed, device=d)
            account(res, dist, "onboard", obs)
            destructive = [e[1] for e in obs["trace"] if e[0] == "A" and e[1][1] in (0x44, 0x07, 0xA0)
                           or (e[0] == "A" and e[1][1] == 0x41)]
            # explicit yes: the first line that is a decision (yes / n / no, trailing blanks and case
            # ignored) is a yes; anything else is not a decision and the question is asked again
            said_yes = next((a.rstrip().lower() for a in ans if a.rstrip().lower() in ("yes", "n", "no")), None) == "yes"
            pre = mode == 2 and not echo_bad and not onb and said_yes
            if destructive and not pre:
                res["violations"].append({"key": "C18:onboard-precondition", "what": "seed / PIN / wipe sent "
                                          "although the device is not (bootloader, echo ok, not onboarded, "
                                          "operator said yes)", "state": [kind, mode, onb, echo_bad, ans]})
            pin_given_ok = pin_kind is None or policy_ok(PINS[pin_kind].encode(), False)
            if pre and pin_given_ok:
                sent_seed = bytes(d.received.get("seed", {}).get(i, -1) & 0xFF for i in range(32)) \
                    if len(d.received.get("seed", {})) == 32 else None
                if obs["outcome"] != "ADone" or sent_seed != seed:
                    res["violations"].append({"key": "C18:onboard-not-carried-out", "what": "preconditions hold "
                                              "but onboarding was not carried out with the random seed (%s)"
                                              % obs["error"], "state": [kind, pin_kind, any_pin, ans]})
                sent_pin = d.received.get("onboard_pin")
                if sent_pin is not None and not policy_ok(sent_pin, any_pin and pin_kind is None):
                    res["violations"].append({"key": "C18:onboard-pin-policy", "what": "onboarding sent PIN %r "
                                              "violating the policy (any_pin=%s)" % (sent_pin, any_pin)})
                if kind == "ledger":
                    seeds = [e[1] for e in obs["trace"] if e[0] == "A" and e[1][1] == 0x44]
                    if [s_[2:] for s_ in seeds] != [bytes([i, seed[i]]) for i in range(32)]:
                        res["violations"].append({"key": "C18:seed-order", "what": "SEED APDUs are not "
                                                  "(i, seed[i]) for i = 0..31 in order"})
            if not pin_given_ok and destructive:
                res["violations"].append({"key": "C18:onboard-bad-pin-sent", "what": "non-compliant PIN given on "
                                          "the command line, yet destructive APDUs were sent"})
            terms.append(admincmd.to_dcase("onboard", kind, opt, ans, typed, seed, None, obs))
            descs.append({"cmd": "onboard", "state": [kind, mode, onb, echo_bad, pin_kind, any_pin, ans],
                          "outcome": obs["outcome"], "error": obs["error"]})
        # ---------------- onboard (Ledger), continued through "disconnect and re-connect" and the unlock step that
        # precedes the attestation setup: whatever shows up after the re-connection, a PIN goes only to an
        # onboarded device in bootloader mode
        if kind == "ledger" and mode == 2 and not onb and not echo_bad:
            for post in ({}, {"onboarded": False}, {"mode": 3}, {"mode": 4}, {"mode": 0xFF},
                         {"mode": 3, "onboarded": False}, {"echo_bad": True}):
                for pin_kind in ("valid", None):
                    seed = gen.rbytes(rng, 32)
                    d = devices.Device(mode=2, onboarded=False)
                    d.after_wipe = dict(post)
                    d.after_exit = [3, 3]
                    typed = [b"good1234", b"good1234"] if pin_kind is None else []
                    opt = admincmd.Opt(pin=PINS.get(pin_kind), any_pin=False,
                                       output_file_path=os.path.join(tmp, "att.json"))
                    obs = admincmd.run_admin("onboard", kind, opt, ["yes", ""], typed, seed, device=d,
                                             through_unlock=True)
                    account(res, dist, "onboard+unlock", obs)
                    terms.append(admincmd.to_dcase("onboard+unlock", kind, opt, ["yes", ""], typed, seed, None, obs))
                    descs.append({"cmd": "onboard+unlock", "state": [kind, post, pin_kind],
                                  "outcome": obs["outcome"], "error": obs["error"]})
                    apdus = [e[1] for e in obs["trace"] if e[0] == "A"]
                    wipe_at = next((i for i, a in enumerate(apdus) if a[1] == 0x07), None)
                    if wipe_at is None:
                        res["violations"].append({"key": "C18:onboard-not-carried-out", "what": "preconditions "
                                                  "hold but no WIPE was sent (%s)" % obs["error"]})
                        continue
                    later_pin = [a for a in apdus[wipe_at + 1:] if a[1] in (0x41, 0xFE)]
                    ok_state = d.onboarded and post.get("mode", 2) == 2 and not post.get("echo_bad")
                    if later_pin and not ok_state:
                        res["violations"].append({
                            "key": "C18:unlock-precondition", "what": "after onboarding and re-connection a PIN was "
                            "sent to a device that is not (onboarded, bootloader, echo ok)", "state": [post, pin_kind]})
                    if ok_state and not any(a[1] == 0xFE for a in apdus[wipe_at + 1:]):
                        res["violations"].append({
                            "key": "C18:onboard-unlock-not-carried-out", "what": "the freshly onboarded device came "
                            "back onboarded in bootloader mode but was not unlocked (%s)" % obs["error"],
                            "state": [post, pin_kind]})
        # ---------------- unlock
        for pin_kind, any_pin in itertools.product(["valid", "short", "symbols", None], [False, True]):
            typed = [b"bad!", b"abc123"] if pin_kind is None else []
            d = devices.Device(mode=mode, onboarded=onb, sgx=(kind == "sgx"))
            d.echo_bad = echo_bad
            d.pin = b"abcd1234"
            d.after_exit = [3, 3]
            opt = admincmd.Opt(pin=PINS.get(pin_kind), any_pin=any_pin)
            obs = admincmd.run_admin("unlock", kind, opt, [], typed, b"", device=d)
            account(res, dist, "unlock", obs)
            pin_apdus = [e[1] for e in obs["trace"] if e[0] == "A" and e[1][1] in (0x41, 0xFE, 0xA3)]
            if pin_apdus and not (onb and mode == 2):
                res["violations"].append({"key": "C18:unlock-precondition", "what": "PIN sent to a device that "
                                          "is not (onboarded, bootloader)", "state": [kind, mode, onb, echo_bad]})
            terms.append(admincmd.to_dcase("unlock", kind, opt, [], typed, b"", None, obs))
            descs.append({"cmd": "unlock", "state": [kind, mode, onb, echo_bad, pin_kind, any_pin],
                          "outcome": obs["outcome"], "error": obs["error"]})
        # ---------------- changepin
        cp_combos = list(itertools.product(["valid", "short", "digits", "symbols", None],
                                           [False, True], [False, True]))
        if mode == 2 and onb and not echo_bad:
            cp_combos += [(pk, ap, True) for pk in ODD_PINS for ap in (False, True)]
            cp_combos += [("typed-odd", False, True)]
        for new_kind, any_pin, no_unlock in cp_combos:
            typed = ([b"abcd1234"] if not no_unlock else []) + \
                ([b"12", b"newpin12 ", b"\nnewpin12", b"newpin12"] if new_kind is None else [])
            if new_kind == "typed-odd":
                typed = ["clave1\u00f3".encode(), "123456\u00fc".encode(), b"newpin12"]
                new_kind = None
            d = devices.Device(mode=mode, onboarded=onb, sgx=(kind == "sgx"))
            d.echo_bad = echo_bad
            d.pin = b"abcd1234"
            if no_unlock:
                d.unlocked = True
            opt = admincmd.Opt(pin=None, new_pin=PINS.get(new_kind), any_pin=any_pin, no_unlock=no_unlock)
            obs = admincmd.run_admin("changepin", kind, opt, [], typed, b"", device=d)
            account(res, dist, "changepin", obs)
            new_sent = None
            if kind == "sgx":
                cp = [e[1] for e in obs["trace"] if e[0] == "A" and e[1][1] == 0xA5]
                new_sent = cp[0][3:] if cp else None
            else:
                if any(e[0] == "A" and e[1][1] == 0x08 for e in obs["trace"]):
                    # the last length-prefixed SEND_PIN run before CHANGE_PIN
                    seq = [e[1] for e in obs["trace"] if e[0] == "A" and e[1][1] in (0x41, 0xFE)]
                    tail = []
                    for a in reversed(seq):
                        if a[1] != 0x41:
                            break
                        tail.append(a)
                    tail.reverse()
                    bs = bytes(a[3] for a in tail)
                    new_sent = bs[1:1 + bs[0]] if bs else b""
            if new_sent is not None and not policy_ok(new_sent, any_pin):
                res["violations"].append({"key": "C18:changepin-policy", "what": "PIN change sent %r violating "
                                          "the policy (any_pin=%s)" % (new_sent, any_pin)})
            terms.append(admincmd.to_dcase("changepin", kind, opt, [], typed, b"", None, obs))
            descs.append({"cmd": "changepin", "state": [kind, mode, onb, echo_bad, new_kind, any_pin, no_unlock],
                          "outcome": obs["outcome"], "error": obs["error"]})
        # ---------------- pubkeys
        for no_unlock in (False, True):
            d = gen.random_device(rng, mode=mode, onboarded=onb, sgx=(kind == "sgx"))
            d.echo_bad = echo_bad
            d.pin = b"abcd1234"
            d.after_exit = [3, 3]
            for p in gen.PATHS:
                k = certs.K1Key(rng)
                d.pubkeys[gen.path_binary(p)] = k.pub()
            out = os.path.join(tmp, "keys.txt")
            # the first export starts from a clean directory; the second one (another device, same output
            # path) finds the files of the first
            for f in (out, os.path.join(tmp, "keys.json")):
                if os.path.exists(f) and not no_unlock:
                    os.unlink(f)
            opt = admincmd.Opt(pin="abcd1234", no_unlock=no_unlock, output_file_path=out)
            obs = admincmd.run_admin("pubkeys", kind, opt, [], [], b"", device=d)
            account(res, dist, "pubkeys", obs)
            keys = None
            if obs["outcome"] == "ADone":
                try:
                    js = json.load(open(os.path.join(tmp, "keys.json")))
                    txt = open(out).read()
                    exp_js = {p: d.pubkeys[gen.path_binary(p)].hex() for p in gen.PATHS}
                    import re as _re
                    want_txt = sorted(ecdsa.VerifyingKey.from_string(
                        d.pubkeys[gen.path_binary(p)], curve=ecdsa.SECP256k1).to_string("compressed").hex()
                        for p in gen.PATHS)
                    # exactly these six keys and no other key-like token
                    ok_txt = sorted(_re.findall(r"(?<![0-9a-fA-F])0[23][0-9a-f]{64}(?![0-9a-fA-F])", txt)) == want_txt
                    if js != exp_js or not ok_txt:
                        res["violations"].append({"key": "C18:pubkeys-files", "what": "public keys written are not "
                                                  "the device's keys for the six documented paths"})
                except Exception as e:
                    res["violations"].append({"key": "C18:pubkeys-files", "what": "cannot read the files: %r" % e})
                names = ["btc", "rsk", "mst", "tbtc", "trsk", "tmst"]
                keys = [(n, p, d.pubkeys[gen.path_binary(p)].hex()) for n, p in zip(names, gen.PATHS)]
            terms.append(admincmd.to_dcase("pubkeys", kind, opt, [], [], b"", None, obs, keys=keys))
            descs.append({"cmd": "pubkeys", "state": [kind, mode, onb, echo_bad, no_unlock],
                          "outcome": obs["outcome"], "error": obs["error"]})
    cmp_n, mism, errs = funcases.run(ctx, "c18", admincmd.HEADER, "check_dcase", terms, descs, shard=150)
    res["compared"] = cmp_n
    res["mismatches"] += mism
    res["corr_errors"] += errs
    res["distribution"] = dist
    res["exhaustive"] = True
    for d_ in descs[:3]:
        res["samples"].append(d_)
    return res


def account(res, dist, cmd, obs):
    res["evaluations"] += 1
    res["distinct"] += 1
    k = "%s:%s" % (cmd, obs["outcome"])
    dist[k] = dist.get(k, 0) + 1
