"""C06 — a Ledger attestation is accepted only if every link up to the root key verifies."""
import os
import certs
import coqgen
from . import funcases

LEVEL = "proof"
RULE = ("genuine four-element Ledger chains over fresh secp256k1 keys (root -> device -> attestation -> "
        "ui/signer, tweaked leaves) and every single-point corruption of each: bit flips in every message / "
        "signature / tweak, swapped signatures, signature by a foreign key, wrong root, re-parenting, tweak "
        "removed / added, high-S signature, every target subset, every bit of the DER framing of a signature, "
        "and each of these again on an object already validated against another root; non-trivial = every certificate; distinct "
        "by document text")
EXPLANATION = ("Theorems C06_* prove over the Gallina chain walk (validate_target) with the signature check as "
               "an abstract oracle that a target is valid iff every link on its root path holds, that the first "
               "failing element from the root is the one named, and that the value is the target's signed "
               "message; the model is compared with HSMCertificate.validate_and_get_values using link "
               "verdicts computed independently (pure-Python ecdsa + own HMAC/tweak arithmetic), and an "
               "oracle recomputes the expected verdict map from those verdicts.")
TRUSTED_BASE = ["Coq 8.16.1 kernel (vm_compute)", "tools/gen_tables.py (VALID_NAMES, ROOT_ELEMENT, extractors)",
                "ecdsa package + hashlib HMAC as the independent link verifier (libsecp256k1 conventions: "
                "strict DER, low-S)", "hand-written Gallina model tied by differential runs"]
ASSUMPTIONS = ["ECDSA / HMAC-SHA256 / point addition are oracles (libsecp256k1 vs ecdsa package agree)"]


def expected(doc, truth):
    els = {e["name"]: e for e in doc["elements"]}
    out = []
    for tg in doc["targets"]:
        path = []
        cur = els[tg]
        while True:
            path.append(cur)
            if cur["signed_by"] == "root":
                break
            cur = els[cur["signed_by"]]
        path.reverse()
        cf = certs.ROOT
        res = None
        for e in path:
            if not truth[(e["name"], cf)]:
                res = (False, e["name"])
                break
            cf = e["name"]
        if res is None:
            t = path[-1]
            res = (True, certs.V1_EXTRACT[t["name"]](bytes.fromhex(t["message"])).hex(), t.get("tweak"))
        out.append(res)
    return out


def run(ctx):
    from admin.certificate import HSMCertificateRoot
    rng = ctx["rng"]
    n = 8 if ctx["tier"] == "quick" else 150
    res = {"evaluations": 0, "compared": 0, "distinct": 0, "mismatches": [], "violations": [],
           "samples": [], "distribution": {}, "corr_errors": [], "notes": []}
    tmp = os.path.join(ctx["workdir"], "c06")
    os.makedirs(tmp, exist_ok=True)
    terms, descs = [], []
    dist = {}
    for i in range(n):
        doc, keys = certs.v1_chain(rng)
        variants = [("genuine", doc, keys["root"].pub())] + certs.v1_corruptions(rng, doc, keys)
        if i < (2 if ctx["tier"] == "quick" else 30):
            variants += certs.der_header_flips(doc, keys, i % 4)
        # history: the same certificate object validated first against another root (the genuine one
        # for the wrong-root variant, a foreign one otherwise) must give the same verdicts
        foreign = certs.K1Key(rng).pub()
        hist = [(lb + "@after-other-root", d, rp, (keys["root"].pub() if lb == "wrong-root" else foreign))
                for lb, d, rp in variants if not lb.startswith("derflip")]
        for label, d, root_pub, *prior in [v + () for v in variants] + hist:
            truth = certs.v1_link_truth(d, root_pub)
            obs = certs.impl_load_validate(
                d, lambda: HSMCertificateRoot(root_pub.hex()), tmp, with_resave=False,
                prior_root_factory=(lambda: HSMCertificateRoot(prior[0].hex())) if prior else None)
            res["evaluations"] += 1
            res["distinct"] += 1
            kind = label.split("-")[0]
            dist[kind] = dist.get(kind, 0) + 1
            if not obs["loaded"]:
                res["violations"].append({"key": "C06:load", "what": "well-formed certificate failed to load "
                                          "(%s): %s" % (label, obs["error"])})
                continue
            exp = expected(d, truth)
            got = [tuple(r) for r in obs["results"]]
            if got != exp:
                res["violations"].append({"key": "C06:verdict:%s" % kind,
                                          "what": "verdict map differs from 'valid iff every link to the "
                                                  "root verifies, else first failing element from the root' "
                                                  "(%s)" % label,
                                          "expected": exp, "got": got, "doc": d})
            ra = obs.get("results_all")
            if ra is not None and (isinstance(ra, tuple) or [tuple(r) for r in ra] != got):
                res["violations"].append({"key": "C06:verdict-depends-on-other-targets:%s" % kind,
                                          "what": "validating all targets in one call gives %r, each target "
                                                  "on its own gives %r (%s)" % (ra, got, label), "doc": d})
            if label == "genuine" and not all(r[0] is True for r in got):
                res["violations"].append({"key": "C06:genuine-rejected", "what": "genuine chain rejected"})
            terms.append(certs.to_ccase(d, truth, obs))
            descs.append({"label": label, "results": got})
            if len(res["samples"]) < 3:
                res["samples"].append({"label": label, "targets": d["targets"], "verdicts": got})
    cmp_n, mism, errs = funcases.run(ctx, "c06", certs.HEADER, "check_ccase", terms, descs, shard=40)
    res["compared"] = cmp_n
    res["mismatches"] += mism
    res["corr_errors"] += errs
    res["distribution"] = dist
    return res
