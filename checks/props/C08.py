"""C08 — verify commands vouch only for the operator's keys and a well-formed message."""
import copy
import hashlib
import json
import os
import types
import certs
import certs_v2 as v2
import gen
import verifycmd as vc
from . import funcases

LEVEL = "proof"
RULE = ("(attestation file, public-keys file, root of trust) triples: genuine ones over fresh keys and random "
        "message contents (current and legacy signer message formats) and variants with a different key set / "
        "key order / path names / missing UI path, truncated or extended messages, foreign headers, version "
        "digits at the regexp's edges, a newline where the regexp has '.', wrong root, broken chain, missing "
        "targets, unreadable key files; Ledger and SGX commands; non-trivial = every triple; distinct by triple")
EXPLANATION = ("Theorems C08_* characterise (iff) when the Gallina verify functions return normally and show the "
               "printed values are the slices of the verified messages at the generated offsets; the model is "
               "compared with do_verify_attestation (exit status and every printed value) on every triple; the "
               "oracle recomputes from the generator's knowledge whether the command must succeed and what it "
               "must print.")
TRUSTED_BASE = ["Coq 8.16.1 kernel (vm_compute)", "tools/gen_tables.py (message layout, lengths, UI path)",
                "SHA-256 computed by the Gallina model inside the checker",
                "the regular expressions are transcribed as matchers and diffed",
                "chain validity taken from validate_and_get_values (C06/C07 cover it)"]
ASSUMPTIONS = ["secp256k1 key (de)serialisation is an oracle (keys supplied to the model in both encodings)"]


class Opt:
    def __init__(self, **kw):
        self.__dict__.update(kw)


def ledger_variants(rng):
    """yield (label, doc, root pub hex|None, pubkeys json value, should_succeed, expected prints)"""
    keys = vc.make_pubkeys(rng)
    kh = vc.keys_hash(keys)
    ui = vc.ui_message(rng, keys)
    for legacy in (False, True):
        sm = (b"HSM:SIGNER:5.4" + kh) if legacy else vc.powhsm_message(rng, kh)
        doc, root = certs.v1_doc_with(rng, ui, sm) if hasattr(certs, "v1_doc_with") else vc.v1_doc_with(rng, ui, sm)
        base = ("genuine-legacy" if legacy else "genuine", doc, root.pub().hex(), vc.pubkeys_json(keys), True)
        yield base
        # key set / order / names
        k2 = dict(keys)
        k2["m/44'/1'/9'/0/0"] = certs.K1Key(rng)
        yield ("extra-key", doc, root.pub().hex(), vc.pubkeys_json(k2), False)
        k3 = dict(keys)
        del k3[gen.PATHS[2]]
        yield ("missing-key", doc, root.pub().hex(), vc.pubkeys_json(k3), False)
        k4 = dict(keys)
        k4[gen.PATHS[1]] = certs.K1Key(rng)
        yield ("replaced-key", doc, root.pub().hex(), vc.pubkeys_json(k4), False)
        rev = dict(reversed(list(vc.pubkeys_json(keys).items())))
        yield ("file-order-reversed", doc, root.pub().hex(), rev, True)
        k5 = {(p if p != gen.PATHS[3] else "m/44'/1'/0'/0/00"): k for p, k in keys.items()}
        yield ("renamed-path", doc, root.pub().hex(), vc.pubkeys_json(k5), None)
        k6 = {p: k for p, k in keys.items() if p != vc.UI_PATH}
        yield ("no-ui-path", doc, root.pub().hex(), vc.pubkeys_json(k6), False)
        yield ("keys-not-object", doc, root.pub().hex(), [1, 2], False)
        yield ("keys-empty", doc, root.pub().hex(), {}, False)
        bad = vc.pubkeys_json(keys)
        bad[gen.PATHS[0]] = "04" + "00" * 64
        yield ("keys-invalid-point", doc, root.pub().hex(), bad, False)
        yield ("wrong-root", doc, certs.K1Key(rng).pub().hex(), vc.pubkeys_json(keys), False)
        d = copy.deepcopy(doc)
        d["targets"] = ["ui"]
        yield ("missing-signer-target", d, root.pub().hex(), vc.pubkeys_json(keys), False)
        d = copy.deepcopy(doc)
        d["targets"] = ["signer"]
        yield ("missing-ui-target", d, root.pub().hex(), vc.pubkeys_json(keys), False)
        d = copy.deepcopy(doc)
        d["elements"][3]["signature"] = certs.flip(rng, d["elements"][3]["signature"])
        yield ("broken-signer-signature", d, root.pub().hex(), vc.pubkeys_json(keys), False)
        # a forged attestation element (signed by an unrelated key) hidden behind an extra / repeated
        # target that the command itself does not look at
        forged = copy.deepcopy(doc)
        att = next(e for e in forged["elements"] if e["name"] == "attestation")
        att["signature"] = certs.K1Key(rng).sign(bytes.fromhex(att["message"])).hex()
        for tg in (["attestation", "ui", "signer"], ["ui", "signer", "ui"], ["device", "attestation", "signer", "ui"]):
            d = copy.deepcopy(forged)
            d["targets"] = tg
            yield ("forged-attestation-targets-" + "+".join(tg), d, root.pub().hex(), vc.pubkeys_json(keys), False)
        # a key set over other paths, chosen so that ordering the paths as numbers and as strings differ
        alt_paths = [vc.UI_PATH, "m/44'/2'/0'/0/0", "m/44'/137'/0'/0/0", "m/44'/60'/0'/0/0",
                     "m/44'/10'/0'/0/0", "m/44'/9'/0'/0/0"]
        akeys = vc.make_pubkeys(rng, alt_paths)
        akh = vc.keys_hash(akeys)
        aui = vc.ui_message(rng, akeys)
        asm = (b"HSM:SIGNER:5.4" + akh) if legacy else vc.powhsm_message(rng, akh)
        adoc, aroot = vc.v1_doc_with(rng, aui, asm)
        yield ("genuine-other-paths" + ("-legacy" if legacy else ""), adoc, aroot.pub().hex(),
               vc.pubkeys_json(akeys), True)
        # message-level variants (re-signed, so the chain stays valid)
        for label, ui2, sm2, ok in message_variants(rng, keys, kh, ui, sm, legacy):
            d2, r2 = vc.v1_doc_with(rng, ui2, sm2)
            yield (label + ("-legacy" if legacy else ""), d2, r2.pub().hex(), vc.pubkeys_json(keys), ok)


def message_variants(rng, keys, kh, ui, sm, legacy):
    yield ("ui-foreign-header", b"HSM:XX:5.4" + ui[10:], sm, False)
    yield ("ui-version-6", b"HSM:UI:6.4" + ui[10:], sm, False)
    yield ("ui-version-2x9", b"HSM:UI:2x9" + ui[10:], sm, True)
    yield ("ui-version-newline", b"HSM:UI:5\n4" + ui[10:], sm, False)
    yield ("ui-version-nondigit", b"HSM:UI:5.x" + ui[10:], sm, False)
    other = certs.K1Key(rng)
    yield ("ui-other-pubkey", ui[:42] + other.vk.to_string("compressed") + ui[75:], sm, False)
    yield ("ui-truncated", ui[:60], sm, False)
    yield ("ui-extended", ui + b"\x00\x01", sm, True)
    if legacy:
        yield ("signer-truncated", ui, sm[:-1], False)
        yield ("signer-extended", ui, sm + b"\x00", False)
        yield ("signer-other-hash", ui, sm[:14] + gen.rbytes(rng, 32), False)
        yield ("signer-foreign-header", ui, b"HSM:SIGNAR:5.4" + sm[14:], False)
    else:
        yield ("signer-truncated", ui, sm[:-1], False)
        yield ("signer-extended", ui, sm + b"\x00", False)
        yield ("signer-other-hash", ui, sm[:47] + gen.rbytes(rng, 32) + sm[79:], False)
        yield ("signer-foreign-header", ui, b"POWHSM:4.4::" + sm[12:], False)
        yield ("signer-header-59", ui, b"POWHSM:5.9::" + sm[12:], True)
        yield ("signer-header-newline", ui, b"POWHSM:5\n4::" + sm[12:], False)
        yield ("signer-platform-nonascii", ui, sm[:12] + b"\xff\xfe\xfd" + sm[15:], False)


def expected_ledger(doc, pubkeys_value, ok):
    return ok


def run(ctx):
    import admin.verify_ledger_attestation as VL
    import admin.verify_sgx_attestation as VS
    import admin.certificate_v2 as cv2
    rng = ctx["rng"]
    n = 2 if ctx["tier"] == "quick" else 25
    res = {"evaluations": 0, "compared": 0, "distinct": 0, "mismatches": [], "violations": [],
           "samples": [], "distribution": {"ok": 0, "error": 0}, "corr_errors": [], "notes": []}
    tmp = os.path.join(ctx["workdir"], "c08")
    os.makedirs(tmp, exist_ok=True)
    lterms, ldescs, xterms, xdescs = [], [], [], []
    # ---------------- Ledger
    for i in range(n):
        for label, doc, root_hex, pk_value, should in ledger_variants(rng):
            cpath, kpath = os.path.join(tmp, "att.json"), os.path.join(tmp, "keys.json")
            json.dump(doc, open(cpath, "w"))
            json.dump(pk_value, open(kpath, "w"))
            rec, undo = vc.capture_validate()
            try:
                err, out = vc.run_cmd(VL.do_verify_attestation, Opt(
                    attestation_certificate_file_path=cpath, pubkeys_file_path=kpath, root_authority=root_hex))
            finally:
                undo()
            res["evaluations"] += 1
            res["distinct"] += 1
            res["distribution"]["ok" if err is None else "error"] += 1
            obs = None
            if err is None:
                obs = vc.parse_ledger_stdout(out)
                if "unparseable" in obs:
                    res["violations"].append({"key": "C08:stdout", "what": "cannot read printed values", "obs": obs})
                    continue
            if should is True and err is not None:
                res["violations"].append({"key": "C08:ledger-genuine-rejected:%s" % label,
                                          "what": "%s must verify but ended in %s" % (label, err)})
            if should is False and err is None:
                res["violations"].append({"key": "C08:ledger-accepted:%s" % label,
                                          "what": "%s must end in an error but the command finished normally"
                                                  % label})
            if err is None:
                v = check_ledger_prints(doc, pk_value, obs)
                if v:
                    res["violations"].append({"key": "C08:ledger-prints:%s" % label, "what": v})
            keys = model_keys(pk_value)
            try:
                lterms.append(vc.to_lcase(keys, rec.get("result"), obs))
            except (AssertionError, ValueError, TypeError, KeyError) as e:
                # an observation the model's types cannot even express (e.g. a negative number printed where an
                # unsigned one is documented): reported, not compared
                res["violations"].append({"key": "C08:ledger-prints-inexpressible:%s" % label,
                                          "what": "printed values cannot be a rendering of the signed messages "
                                                  "(%s: %s)" % (type(e).__name__, e), "stdout": out[-300:]})
                continue
            ldescs.append({"label": label, "error": err, "stdout": out[-300:]})
            if len(res["samples"]) < 2:
                res["samples"].append({"label": label, "error": err})
    # ---------------- SGX
    class FakeDatetime:
        @classmethod
        def now(cls, tz=None):
            return v2.NOW
    real_dt = cv2.datetime
    cv2.datetime = FakeDatetime
    try:
        for i in range(n):
            for label, doc, root_pem, pk_value, should, quote in sgx_variants(rng):
                cpath, kpath, rpath = (os.path.join(tmp, x) for x in ("att2.json", "keys2.json", "root.pem"))
                json.dump(doc, open(cpath, "w"))
                json.dump(pk_value, open(kpath, "w"))
                open(rpath, "w").write(root_pem)
                rec, undo = vc.capture_validate()
                try:
                    err, out = vc.run_cmd(VS.do_verify_attestation, Opt(
                        attestation_certificate_file_path=cpath, pubkeys_file_path=kpath, root_authority=rpath))
                finally:
                    undo()
                res["evaluations"] += 1
                res["distinct"] += 1
                res["distribution"]["ok" if err is None else "error"] += 1
                obs = None
                if err is None:
                    obs = vc.parse_sgx_stdout(out)
                    if "unparseable" in obs:
                        res["violations"].append({"key": "C08:stdout", "what": "cannot read printed values",
                                                  "obs": obs})
                        continue
                if should is True and err is not None:
                    res["violations"].append({"key": "C08:sgx-genuine-rejected:%s" % label,
                                              "what": "%s must verify but ended in %s" % (label, err)})
                if should is False and err is None:
                    res["violations"].append({"key": "C08:sgx-accepted:%s" % label,
                                              "what": "%s must end in an error but finished normally" % label})
                if err is None and quote is not None:
                    custom, q = quote
                    exp = {"keys_hash": custom[47:79], "mrenclave": q[48 + 64:48 + 96], "mrsigner": q[48 + 128:48 + 160],
                           "version": custom[7:10],
                           "powhsm": {"platform": custom[12:15], "ud": custom[15:47], "best_block": custom[79:111],
                                      "last_tx": custom[111:119], "timestamp": int.from_bytes(custom[119:127], "big")}}
                    if obs != exp:
                        res["violations"].append({"key": "C08:sgx-prints:%s" % label,
                                                  "what": "printed values are not the documented slices",
                                                  "got": obs, "expected": exp})
                r = rec.get("result")
                mq = None
                if r is not None and "quote" in r and r["quote"][0] is True:
                    mq = (bytes.fromhex(r["quote"][1]["message"]), r["quote"][1]["sgx_quote"].get_raw_data())
                root_ok = label != "root-not-self-signed"
                xterms.append(vc.to_xcase(root_ok, model_keys(pk_value), mq, obs))
                xdescs.append({"label": label, "error": err})
    finally:
        cv2.datetime = real_dt
    c1, m1, e1 = funcases.run(ctx, "c08l", vc.HEADER, "check_lcase", lterms, ldescs, shard=40)
    c2, m2, e2 = funcases.run(ctx, "c08x", vc.HEADER, "check_xcase", xterms, xdescs, shard=40)
    res["compared"] = c1 + c2
    res["mismatches"] += m1 + m2
    res["corr_errors"] += e1 + e2
    return res


def model_keys(pk_value):
    """independent view of load_pubkeys: {path: (uncompressed, compressed)} or None on failure"""
    import ecdsa
    if not isinstance(pk_value, dict):
        return None
    out = {}
    for p, hx in pk_value.items():
        try:
            vk = ecdsa.VerifyingKey.from_string(bytes.fromhex(hx), curve=ecdsa.SECP256k1)
            out[p] = (vk.to_string("uncompressed"), vk.to_string("compressed"))
        except Exception:
            return None
    return out


def check_ledger_prints(doc, pk_value, obs):
    els = {e["name"]: e for e in doc["elements"]}
    um = bytes.fromhex(els["ui"]["message"])
    sm = bytes.fromhex(els["signer"]["message"])
    exp = {"ud": um[10:42], "pubkey": um[42:75], "auth_signer_hash": um[75:107],
           "iteration": int.from_bytes(um[107:109], "big"), "ui_hash": bytes.fromhex(els["ui"]["tweak"]),
           "ui_version": um[7:10], "signer_hash": bytes.fromhex(els["signer"]["tweak"])}
    keys = model_keys(pk_value)
    h = hashlib.sha256()
    for p in sorted(keys):
        h.update(keys[p][0])
    exp["keys_hash"] = h.digest()
    if sm.startswith(b"HSM:SIGNER:"):
        exp["signer_version"] = sm[11:14]
        exp["powhsm"] = None
    else:
        exp["signer_version"] = sm[7:10]
        exp["powhsm"] = {"platform": sm[12:15], "ud": sm[15:47], "best_block": sm[79:111], "last_tx": sm[111:119],
                         "timestamp": int.from_bytes(sm[119:127], "big")}
    if obs != exp:
        return "printed values are not the slices of the signed messages at the documented offsets: %r vs %r" % (
            {k: v for k, v in obs.items() if exp.get(k) != v}, {k: v for k, v in exp.items() if obs.get(k) != v})
    return None


def pem_of(b64):
    lines = [b64[i:i + 64] for i in range(0, len(b64), 64)]
    return "-----BEGIN CERTIFICATE-----\n" + "\n".join(lines) + "\n-----END CERTIFICATE-----\n"


def sgx_variants(rng):
    keys = vc.make_pubkeys(rng)
    kh = vc.keys_hash(keys)
    import hashlib as _h

    def build(custom, **kw):
        doc, root_b64, sec = v2.genuine(rng, **kw)
        # re-bind the quote to the wanted custom message
        q = bytearray(bytes.fromhex(doc["elements"][0]["message"]))
        q[48 + 320:48 + 352] = _h.sha256(custom).digest()
        q = bytes(q)
        doc["elements"][0]["message"] = q.hex()
        doc["elements"][0]["custom_data"] = custom.hex()
        doc["elements"][0]["signature"] = v2.sign_digest(sec["att"], _h.sha256(q).digest()).hex()
        return doc, root_b64, sec, q
    good = vc.powhsm_message(rng, kh, platform=b"sgx")
    doc, root_b64, sec, q = build(good)
    pkj = vc.pubkeys_json(keys)
    yield ("genuine", doc, pem_of(root_b64), pkj, True, (good, q))
    k2 = dict(keys)
    k2[gen.PATHS[1]] = certs.K1Key(rng)
    yield ("replaced-key", doc, pem_of(root_b64), vc.pubkeys_json(k2), False, None)
    yield ("keys-empty", doc, pem_of(root_b64), {}, False, None)
    rk = v2.new_key(rng)
    other_root = v2.b64der(v2.make_cert(rng, "SGX Root CA", "SGX Root CA", rk, rk))
    yield ("wrong-root", doc, pem_of(other_root), pkj, False, None)
    # a root that is not self-signed
    rk2 = v2.new_key(rng)
    not_self = v2.b64der(v2.make_cert(rng, "SGX Root CA", "Someone", rk2, v2.new_key(rng)))
    yield ("root-not-self-signed", doc, pem_of(not_self), pkj, False, None)
    d = copy.deepcopy(doc)
    d["targets"] = []
    yield ("missing-quote-target", d, pem_of(root_b64), pkj, False, None)
    d = copy.deepcopy(doc)
    d["elements"][0]["signature"] = v2.flip_hex(rng, d["elements"][0]["signature"])
    yield ("broken-quote-signature", d, pem_of(root_b64), pkj, False, None)
    # genuine device with no QE auth data at all
    d0, r0, s0, q0 = build(good, auth_len=0)
    yield ("genuine-empty-auth", d0, pem_of(r0), pkj, True, (good, q0))
    # an attacker's attestation key (declaring no auth data) vouching for its own quote
    atk = v2.new_key(rng)
    for base, lbl in ((doc, "attacker-key-empty-auth"), (d0, "attacker-key-empty-auth-on-empty")):
        d = copy.deepcopy(base)
        d["elements"][1]["key"] = (b"\x04" + v2.raw_xy(atk.public_key())).hex()
        d["elements"][1]["auth_data"] = ""
        qq = bytes.fromhex(d["elements"][0]["message"])
        d["elements"][0]["signature"] = v2.sign_digest(atk, _h.sha256(qq).digest()).hex()
        yield (lbl, d, pem_of(root_b64 if base is doc else r0), pkj, False, None)
    for label, custom, ok in (
            ("custom-truncated", good[:-1], False), ("custom-extended", good + b"\x00", False),
            ("custom-foreign-header", b"POWHSX:5.4::" + good[12:], False),
            ("custom-header-59", b"POWHSM:5.9::" + good[12:], True),
            ("custom-other-hash", good[:47] + gen.rbytes(rng, 32) + good[79:], False),
            ("custom-platform-nonascii", good[:12] + b"\xff\xfe\xfd" + good[15:], False)):
        d2, r2, s2, q2 = build(custom)
        yield (label, d2, pem_of(r2), pkj, ok, (custom, q2) if ok else None)
