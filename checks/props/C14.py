"""C14 — clearing of signature placeholders is canonical and loses nothing else."""
import copy
import json
import gen
import stack
import coqgen
from coqgen import c_bytes, c_opt
from . import funcases, servercases

LEVEL = "proof"
RULE = ("serialized transactions from the structured generator (1..6 inputs, script-sigs of 1..6 operations "
        "in every push encoding incl. non-minimal PUSHDATA1/2/4, small-int opcodes, OP_0, other opcodes; "
        "0..3 outputs; optional witnesses), twins differing only in non-final pushes, truncations, trailing "
        "garbage, empty scripts, non-canonical counts; non-trivial = every case; distinct by raw bytes")
EXPLANATION = ("Theorems C14_* (Proofs/BtcTxProofs.v) are about the Gallina model of comm/bitcoin.py over the "
               "python-bitcoinlib codec; the model is compared with comm.bitcoin.get_unsigned_tx on every "
               "case; an oracle built from the generator's own structure checks the cleared form, "
               "idempotence, signature independence and the -102/no-exchange answer for undecodable input. "
               "Shim-relative: python-bitcoinlib is absent from the sandbox.")
TRUSTED_BASE = ["Coq 8.16.1 kernel (vm_compute)",
                "bitcoin.core shim (harness/shims/bitcoin_core.py) standing in for python-bitcoinlib",
                "hand-written Gallina model of the transaction/script codec tied by differential runs"]
ASSUMPTIONS = ["the shim reproduces python-bitcoinlib's behaviour on the surface comm/bitcoin.py uses "
               "(DESIGN.md appendix B)"]


def impl_unsign(raw):
    from comm.bitcoin import get_unsigned_tx
    try:
        return bytes.fromhex(get_unsigned_tx(raw.hex()))
    except Exception:
        return None


def twin(rng, tx):
    t = copy.deepcopy(tx)
    for _, ops, _ in t.ins:
        for k in range(len(ops) - 1):
            ops[k] = gen.random_op(rng)
    return t


def run(ctx):
    rng = ctx["rng"]
    n = 250 if ctx["tier"] == "quick" else 5000
    res = {"evaluations": 0, "compared": 0, "distinct": 0, "mismatches": [], "violations": [],
           "samples": [], "distribution": {}, "corr_errors": [], "notes": []}
    terms, descs = [], []
    dist = {"valid": 0, "malformed": 0, "twin": 0}
    seen = set()

    def add(raw, kind):
        out = impl_unsign(raw)
        res["evaluations"] += 1
        if raw not in seen:
            seen.add(raw)
            res["distinct"] += 1
        terms.append("(%s, %s)" % (c_bytes(raw), c_opt(out, c_bytes)))
        descs.append({"raw": raw.hex()[:400], "impl": None if out is None else out.hex()[:400],
                      "kind": kind})
        return out

    for i in range(n):
        tx = gen.random_tx(rng, max_in=6 if i % 7 else 20)
        if i % 3 == 0 and len(tx.ins) >= 2:
            # inputs spending from the same script: one redeem script (last operation) shared by
            # inputs that carry different numbers of signatures
            shared = tx.ins[0][1][-1]
            for _, ops, _ in tx.ins[1:]:
                ops[-1] = shared
        raw = tx.raw()
        out = add(raw, "valid")
        dist["valid"] += 1
        exp = tx.unsigned()
        if out != exp:
            res["violations"].append({"key": "C14:cleared-form", "what": "relayed form differs from "
                                      "'empty pushes + original last operation' with all other fields "
                                      "byte-identical", "raw": raw.hex(), "got": None if out is None else out.hex(),
                                      "expected": exp.hex()})
            continue
        if impl_unsign(out) != out:
            res["violations"].append({"key": "C14:idempotence", "what": "applying the transformation "
                                      "again changes the transaction", "raw": raw.hex()})
        tw = twin(rng, tx)
        o2 = add(tw.raw(), "twin")
        dist["twin"] += 1
        if o2 != out:
            res["violations"].append({"key": "C14:signature-dependence", "what": "two transactions "
                                      "differing only in non-final script operations relay differently",
                                      "raw1": raw.hex(), "raw2": tw.raw().hex()})
        if len(res["samples"]) < 3:
            res["samples"].append({"raw": raw.hex()[:300], "unsigned": out.hex()[:300]})
        # malformed variants
        for bad, kind in ((raw[:rng.randrange(len(raw))], "truncated"),
                          (raw + gen.rbytes(rng, rng.randint(1, 4)), "trailing")):
            o = add(bad, kind)
            dist["malformed"] += 1
            if o is not None and kind == "trailing":
                res["violations"].append({"key": "C14:trailing-accepted", "what": "transaction with "
                                          "trailing bytes was not rejected", "raw": bad.hex()})
        if i % 5 == 0:
            t3 = copy.deepcopy(tx)
            t3.ins[0] = (t3.ins[0][0], [], t3.ins[0][2])
            sc_raw = gen.Tx._ser(t3.version, [b""] + [b"".join(o.raw() for o in ops) for _, ops, _ in t3.ins[1:]],
                                 t3.ins, t3.outs, t3.locktime, t3.wit)
            o = add(sc_raw, "empty-script")
            if o is not None:
                res["violations"].append({"key": "C14:empty-script-accepted", "what": "input with an empty "
                                          "script was not rejected", "raw": sc_raw.hex()})
    cmp_n, mism, errs = funcases.run(ctx, "unsign", funcases.HEADER2, "check_unsign", terms, descs)
    res["compared"] = cmp_n
    res["mismatches"] += mism
    res["corr_errors"] += errs
    # through the server: undecodable / empty-script transactions are answered -102 with no exchange
    cases = []
    for k in range(12 if ctx["tier"] == "quick" else 200):
        req, tx, receipt, proof = gen.sign_request_auth(rng, segwit=bool(k % 2))
        req["message"]["input"] = 0
        raw = tx.raw()
        bad = raw[:rng.randrange(4, len(raw))] if k % 3 else raw + b"\x00"
        if k % 4 == 3:
            scripts = [b""] + [b"".join(o.raw() for o in ops) for _, ops, _ in tx.ins[1:]]
            bad = gen.Tx._ser(tx.version, scripts, tx.ins, tx.outs, tx.locktime, tx.wit)
        req["message"]["tx"] = bad.hex()
        # half of them arrive while a reconnection is pending (earlier link error), device back or not
        issue = k % 2 == 1
        cases.append({"mode": "v5", "kind": "ledger", "lines": [gen.line(req)], "issue": issue,
                      "connects": [bool(k % 4 == 1)] if issue else None,
                      "device": gen.random_device(rng), "meta": {"issue": issue}})

    def oracle(case, obs):
        j = stack.reply_json(obs["replies"][-1])
        if j is None or j.get("errorcode") != -102 or obs["trace"]:
            return {"key": "C14:undecodable-not-102", "what": "undecodable transaction answered %r with "
                    "%d device events" % (obs["replies"][-1]["raw"], len(obs["trace"]))}
        return None
    r2 = servercases.run(ctx, cases, oracle)
    for k in ("evaluations", "compared"):
        res[k] += r2[k]
    res["mismatches"] += r2["mismatches"]
    res["violations"] += r2["violations"]
    res["corr_errors"] += r2["corr_errors"]
    res["distribution"] = dist
    return res
