"""Run server-level cases on the implementation, apply a property oracle, and compare with the
Coq model (vm_compute) — shared by the properties that go through handle_request."""
import collections
import json
import os

import stack
import coqgen


def describe(case, obs):
    d = {"mode": case.get("mode", "v5"), "kind": case.get("kind", "ledger"),
         "issue": bool(case.get("issue")), "connects": case.get("connects"),
         "lines": [ln.decode("utf-8", "replace")[:600] for ln in case["lines"]],
         "answers": [(i[0], i[1].hex() if i[0] == "D" else (hex(i[1]) if i[0] == "S" else None))
                     if len(i) > 1 else (i[0],) for i in obs["answers"]][:40],
         "replies": [(r["raw"].decode("utf-8", "replace")[:300], r["stop"], r["escaped"])
                     for r in obs["replies"]],
         "apdus": [e[1].hex() if e[0] == "A" else e for e in obs["trace"]][:60]}
    if "meta" in case:
        d["meta"] = case["meta"]
    return d


def run(ctx, cases, oracle=None, shard=200, compare=True):
    res = {"evaluations": 0, "compared": 0, "distinct": 0, "mismatches": [], "violations": [],
           "samples": [], "distribution": {}, "corr_errors": [], "notes": []}
    terms = []
    idxmap = []
    dist = collections.Counter()
    seen = set()
    observations = []
    for i, case in enumerate(cases):
        obs = stack.run_case(case)
        observations.append(obs)
        res["evaluations"] += 1
        sig = (tuple(case["lines"]), tuple(obs["answers"][:50]) if case.get("device") is None
               else tuple(map(repr, obs["answers"][:50])), case.get("mode"), case.get("issue"))
        hsig = hash(repr(sig))
        nontrivial = len(obs["trace"]) > 0 or any(r["stop"] for r in obs["replies"])
        if hsig not in seen and nontrivial:
            seen.add(hsig)
            res["distinct"] += 1
        for r in obs["replies"]:
            j = stack.reply_json(r)
            code = j.get("errorcode") if isinstance(j, dict) else None
            dist["reply:%s%s" % (code, "+stop" if r["stop"] else "")] += 1
        for po in obs["outcomes"]:
            if po[0] == "Parsed" and isinstance(po[1], dict):
                dist["cmd:%s" % (po[1].get("command") if isinstance(po[1].get("command"), str)
                                 else type(po[1].get("command")).__name__)] += 1
            else:
                dist["line:%s" % po[0]] += 1
        dist["apdus:%s" % min(len([e for e in obs["trace"] if e[0] == "A"]), 50)] += 1
        if obs.get("runaway"):
            res["violations"].append({"key": "runaway", "what": "a request did not finish within %d device "
                                      "exchanges (cut off by the harness)" % len(obs["answers"]),
                                      "case": describe(case, obs)})
            continue
        if oracle is not None:
            v = oracle(case, obs)
            if v:
                v = dict(v)
                v["case"] = describe(case, obs)
                res["violations"].append(v)
        if compare and ctx.get("model_ok", True) and not case.get("nocompare"):
            t = stack.to_scase(case, obs)
            if t is None:
                res["notes"].append("case %d not expressible as scase (reply not one JSON line)" % i)
            else:
                terms.append(t)
                idxmap.append(i)
        if len(res["samples"]) < 4 and nontrivial:
            res["samples"].append(describe(case, obs))
    if terms:
        n, bad, errs = coqgen.run_case_files(os.path.join(ctx["workdir"], "corr"), stack.HEADER,
                                             "check_scase", terms, shard=shard)
        res["compared"] = n
        res["corr_errors"].extend(errs)
        for b in bad[:20]:
            ci = idxmap[b]
            res["mismatches"].append({"what": "model and implementation disagree on a server case",
                                      "case": describe(cases[ci], observations[ci]),
                                      "coq_case": terms[b][:4000]})
        if len(bad) > 20:
            res["notes"].append("%d further mismatches not listed" % (len(bad) - 20))
    res["distribution"] = dict(dist)
    return res
