"""C05 — advance / ancestor update hand the device the client's blocks intact."""
import struct
import gen
import devices
import stack
from . import servercases

LEVEL = "proof"
RULE = ("advanceBlockchain / updateAncestorBlock requests over generated RSK headers (17..20 fields, "
        "RLP short/long boundaries, coinbase midstate splits, 0..4 brothers per block) against a "
        "reassembling simulator with randomised chunk policies, early stop (partial/total) and brother "
        "requests; non-trivial = at least one APDU; distinct by (request, device answers)")
EXPLANATION = ("Theorems C05_* are about the Gallina model of block_utils / _do_block_operation / "
               "_send_block_header, RLP and the midstate SHA-256; the model is compared with the "
               "implementation on every recorded exchange; an oracle independent of the model checks "
               "count, order, bytes, metadata and sorted brothers as reassembled by the simulator.")
TRUSTED_BASE = ["Coq 8.16.1 kernel (vm_compute)", "tools/gen_tables.py",
                "harness: fake transport, reassembling block simulator (from firmware bc_advance.c)",
                "Keccak-256 supplied to the model as a finite table computed with pycryptodome",
                "hand-written Gallina model of rlp (third party), block_utils, sha256.py, pow.py"]
ASSUMPTIONS = ["Keccak-256 is an oracle", "the rlp package is modelled, not verified"]


def oracle(case, obs):
    meta = case["meta"]
    d = case["device"]
    j = stack.reply_json(obs["replies"][-1])
    if j is None:
        return {"key": "C05:noreply", "what": "no single-line JSON reply"}
    if meta.get("skip_oracle"):
        return None
    rc = d.received
    adv = meta["adv"]
    hdrs = meta["headers"]
    if not rc or "count" not in rc:
        return None
    if rc["count"] != len(hdrs):
        return {"key": "C05:count", "what": "announced block count differs from the request"}
    exp_blocks = [h.raw() if adv else h.hash_preimage() for h in hdrs]
    for i, b in enumerate(rc["blocks"]):
        if b != exp_blocks[i]:
            return {"key": "C05:block-bytes", "what": "block %d reassembled by the device differs from "
                    "the client's (order or bytes)" % i, "got": b.hex(), "expected": exp_blocks[i].hex()}
    for i, m in enumerate(rc["metas"]):
        h = hdrs[i]
        e = struct.pack(">H", h.mm_payload_size())
        if adv:
            e += h.cb_hash()
        if m != e:
            return {"key": "C05:meta", "what": "metadata of block %d does not match that block" % i,
                    "got": m.hex(), "expected": e.hex()}
    if adv:
        for i, bl in rc["brothers"].items():
            bros = sorted(meta["brothers"][i], key=lambda h: stack.keccak256(h.hash_preimage()))
            if rc["bro_counts"][i] != len(bros):
                return {"key": "C05:brother-count", "what": "brother count of block %d wrong" % i}
            for k, b in enumerate(bl):
                if b != bros[k].raw():
                    return {"key": "C05:brothers", "what": "brothers of block %d not exactly that block's "
                            "brothers in ascending hash order" % i}
            for k, m in enumerate(rc["bro_metas"][i]):
                e = struct.pack(">H", bros[k].mm_payload_size()) + bros[k].cb_hash()
                if m != e:
                    return {"key": "C05:brother-meta", "what": "brother metadata mismatch"}
    code = j.get("errorcode")
    want = d.final_report
    if want == "success" and code != 0:
        return {"key": "C05:success-not-0", "what": "device reported total success, reply %s" % code}
    if want == "partial" and code != 1:
        return {"key": "C05:partial-not-1", "what": "device reported partial success, reply %s" % code}
    if want is None and code in (0, 1):
        return {"key": "C05:ok-without-success", "what": "reply %s but device reported no success" % code}
    return None


def gen_cases(rng, n):
    cases = []
    for i in range(n):
        d = gen.random_device(rng)
        adv = i % 3 != 2
        nb = rng.choice([1, 1, 2, 3, 5])
        def hdr(choices):
            # one header in five sits on an RLP length boundary of its merge-mining payload
            if rng.random() < 0.2:
                return gen.boundary_header(rng, rng.choice(choices),
                                           rng.choice([54, 55, 56, 57, 58, 255, 256, 257, 258]))
            return gen.random_header(rng, rng.choice(choices))
        if adv:
            hdrs = [hdr([19, 20]) for _ in range(nb)]
            bros = [[hdr([19, 20]) for _ in range(rng.choice([0, 0, 1, 2, 4]))] for _ in range(nb)]
            if rng.random() < 0.08:
                # the largest brother list the protocol allows (10), and one short of it
                k = rng.randrange(nb)
                bros[k] = [gen.boundary_header(rng, 19, rng.choice([54, 56, 58])) for _ in range(rng.choice([10, 10, 9]))]
                force_ask = k
            else:
                force_ask = None
            for bl in bros:
                # brothers sharing a block hash: the same header twice, or one differing only in
                # the parts the hash does not cover (merkle proof, coinbase transaction)
                if bl and rng.random() < 0.3:
                    b0 = rng.choice(bl)
                    bl.insert(rng.randrange(len(bl) + 1),
                              b0 if rng.random() < 0.5 else gen.same_hash_variant(rng, b0))
            req = {"command": "advanceBlockchain", "version": 5, "blocks": [h.hex() for h in hdrs],
                   "brothers": [[b.hex() for b in bl] for bl in bros]}
        else:
            hdrs = [hdr([17, 18, 19, 20]) for _ in range(nb)]
            bros = None
            req = {"command": "updateAncestorBlock", "version": 5, "blocks": [h.hex() for h in hdrs]}
        plan = {}
        r = rng.random()
        if r < 0.3 and nb > 1:
            plan["stop_after"] = rng.randint(1, nb - 1)
            plan["partial"] = adv and rng.random() < 0.6
        elif adv and r < 0.55:
            # the device ends the whole advance with PARTIAL (the usual outcome while no new best block is
            # reached) - after the last block or right after the last brother of the last block
            plan["partial"] = True
        if adv:
            plan["ask_brothers"] = set(k for k in range(nb) if rng.random() < 0.6)
            if force_ask is not None and "stop_after" not in plan:
                plan["ask_brothers"].add(force_ask)
        d.bo_plan = plan
        meta = {"adv": adv, "headers": hdrs, "brothers": bros}
        if rng.random() < 0.1:
            op = rng.choice([2, 3, 4] + ([7, 8, 9] if adv else []))
            d.inject[(0x10 if adv else 0x30, op)] = rng.choice(
                [0x6B87, 0x6B88, 0x6B8B, 0x6B90, 0x6B94, 0x6B9A, 0x6B9C, 0x6B9D, 0x6B9E, 0x6BA0, 0x6A01])
        cases.append({"mode": "v5", "kind": "ledger", "lines": [gen.line(req)], "device": d,
                      "meta": meta})
    return cases


def run(ctx):
    n = 150 if ctx["tier"] == "quick" else 3000
    return servercases.run(ctx, gen_cases(ctx["rng"], n), oracle, shard=12)
