"""C02 — requests are classified exactly as the protocol specification prescribes."""
import json
import gen
import lattice
import spec_protocol as sp
import stack
from . import servercases

LEVEL = "proof"
RULE = ("the systematic boundary lattice of harness/lattice.py: every single-field deviation (absent, null, "
        "bool, numbers around each bound, floats, empty/odd/blank/non-ASCII hex, lists, objects) of a valid "
        "request of each of the 10 commands in v5 and the 3 of v1, sampled pairwise deviations and "
        "non-objects, one case in four with a reconnection pending from an earlier link error; non-trivial = any request that is not the unmodified base; distinct by request text")
EXPLANATION = ("Theorems C02_* are about the Gallina gate and validators (classification is a function of the "
               "request alone; a rejected request produces no trace event); the model is compared with the "
               "implementation on every lattice point; the oracle spec_protocol.allowed is written from "
               "docs/protocol.md and allows both outcomes wherever the documents are silent.")
TRUSTED_BASE = ["Coq 8.16.1 kernel (vm_compute)", "tools/gen_tables.py (codes, sizes, versions, command tables)",
                "harness: fake transport, honest device simulator",
                "harness/spec_protocol.py: hand-written reading of docs/protocol.md and protocol-v1.md",
                "hand-written Gallina model of comm/protocol.py validators tied by differential runs"]
ASSUMPTIONS = ["json.loads delivers the request value (parser is an oracle)"]


OWN_APDU = {"sign": 0x02, "getPubKey": 0x04, "advanceBlockchain": 0x10, "resetAdvanceBlockchain": 0x21,
            "blockchainState": 0x20, "updateAncestorBlock": 0x30, "blockchainParameters": 0x11,
            "signerHeartbeat": 0x60, "uiHeartbeat": 0x60}


def oracle(case, obs):
    meta = case["meta"]
    r = obs["replies"][-1]
    j = stack.reply_json(r)
    if j is None or r["stop"] or not isinstance(j.get("errorcode"), int):
        # no verdict at all (C03 looks at the same runs for the manager's survival)
        return {"key": "C02:no-verdict:%s" % meta["shape"], "what": "the request got no verdict: reply %r, "
                "manager stopped: %s" % (r["raw"][:80], r["stop"]), "value": meta["value"]}
    value = meta["value"]
    allowed = sp.allowed(case["mode"], value, meta.get("known_tx"))
    # any contact counts: APDUs, but also closing / re-opening the link to repair a pending fault
    napdu = len([e for e in obs["trace"] if e[0] in ("A", "C", "X")])
    code = j["errorcode"]
    C = sp.V5 if case["mode"] == "v5" else sp.V1
    if napdu > 0:
        verdict = sp.ACCEPT
    elif code >= 0:
        verdict = sp.ACCEPT
    else:
        verdict = code
    # a validation code of the command itself given although the command's own exchange never started:
    # the request was not accepted, so nothing at all may have happened on the link (no repair either)
    own = OWN_APDU.get(value.get("command") if isinstance(value, dict) and
                       isinstance(value.get("command"), str) else None)
    own_started = own is not None and any(e[0] == "A" and e[1][1] == own for e in obs["trace"])
    # (sign only: its -101/-102/-103 are decided before the device is needed - C14 says so for -102;
    #  the block commands discover an undecodable block only inside the device layer, after a pending
    #  reconnection has been carried out: that request passed validation, see DESIGN.md observations)
    if napdu > 0 and not own_started and own == 0x02 and -104 < code < -100:
        return {"key": "C02:contact-on-rejected", "what": "request answered %d without any exchange of its "
                "own command, yet the link was used (%d events: repair of a pending fault?)" % (code, napdu)}
    if napdu > 0 and code in (C["format"], C["invalid"], C["unknown"], C["version"]) and case["mode"] == "v5":
        return {"key": "C02:exchange-on-rejected", "what": "request answered %d (generic rejection) "
                "after exchanging %d APDUs" % (code, napdu)}
    if verdict == sp.ACCEPT and sp.ACCEPT not in allowed:
        return {"key": "C02:accepted-invalid:%s" % meta["shape"],
                "what": "request accepted (device contacted or success) although the documentation "
                        "only allows %s" % sorted(map(str, allowed)), "value": value}
    if verdict != sp.ACCEPT and verdict not in allowed:
        # a code produced after acceptance without exchange (e.g. undecodable tx -> -102) is fine
        # only if the documentation attaches that code to the value
        return {"key": "C02:wrong-code:%s" % meta["shape"],
                "what": "verdict %s not among the documented %s" % (verdict, sorted(map(str, allowed))),
                "value": value}
    return None


def gen_cases(rng, tier):
    cases = []
    for mode in ("v5", "v1"):
        for shape, path, val, req in lattice.single_deviations(rng, mode):
            if path is None and isinstance(req.get("message"), dict) and "tx" in req["message"]:
                BASE_TX[shape] = req["message"]["tx"]
            cases.append((mode, shape, req))
        n_pair = 300 if tier == "quick" else 6000
        for shape, path, val, req in lattice.pairwise_deviations(rng, mode, n_pair):
            cases.append((mode, shape + "#pair", req))
        for v in lattice.NON_OBJECTS:
            cases.append((mode, "non-object", v))
    out = []
    seen = set()
    for mode, shape, req in cases:
        try:
            line = json.dumps(req).encode()
        except (TypeError, ValueError):
            continue
        if (mode, line) in seen:
            continue
        seen.add((mode, line))
        value = json.loads(line)
        d = gen.random_device(rng)
        known_tx = None
        if isinstance(req, dict) and isinstance(req.get("message"), dict):
            known_tx = BASE_TX.get(shape, "")
        # one case in four arrives while a reconnection is pending (an earlier request hit a link error)
        issue = rng.random() < 0.25
        out.append({"mode": mode, "kind": "ledger", "lines": [line], "device": d, "issue": issue,
                    "connects": [True] if issue else None,
                    "meta": {"shape": shape, "value": value, "known_tx": known_tx, "issue": issue}})
    # very long request lines (over 1 MiB): the verdict is that of the same document without the padding
    for mode in ("v5", "v1"):
        ver = 5 if mode == "v5" else 1
        for shape, doc in (("version", {"command": "version"}),
                           ("getPubKey", {"command": "getPubKey", "version": ver, "keyId": gen.PATHS[0]}),
                           ("getPubKey", {"command": "getPubKey", "version": ver, "keyId": "m/0"})):
            for pad in ((1 << 20) + 1, 3 << 20):
                body = json.dumps(doc).encode()
                line = body[:-1] + b" " * pad + b"}"
                out.append({"mode": mode, "kind": "ledger", "lines": [line], "device": gen.random_device(rng),
                            "nocompare": True,
                            "meta": {"shape": shape + "#padded", "value": doc, "known_tx": None, "issue": False}})
    return out


BASE_TX = {}


def run(ctx):
    rng = ctx["rng"]
    cases = gen_cases(rng, ctx["tier"])
    return servercases.run(ctx, cases, oracle, shard=150)
