(* C12: concurrent clients and the device.  comm/server.py uses socketserver.TCPServer (no
   ThreadingMixIn / ForkingMixIn): one connection is accepted and handled to completion in the
   server thread before the next accept.  The kind is read from the source into
   Gen.Tables.SERVER_IS_SEQUENTIAL; the two semantics below say what each kind allows. *)
From PowHsm Require Export Py.Base Gen.Tables.

(* a client i issues one request needing [need i] device exchanges *)
Inductive action :=
| AConnect (i : nat)            (* client i connects: joins the kernel's backlog *)
| AStep                         (* the (single) server thread makes one step *)
| AStepThread (i : nat).        (* threaded server only: the thread serving i makes one step *)

Inductive obs := OExchange (i k : nat) | OReply (i : nat).

Record sstate := mkS {
  backlog : list nat;                 (* connected, not yet accepted, oldest first *)
  serving : list (nat * nat);         (* (client, exchanges done); at most one when sequential *)
  log : list obs                      (* newest first *)
}.

Definition s0 : sstate := mkS [] [] [].

Section WithNeed.
Variable need : nat -> nat.

(* one step of the handler of client i having done k exchanges *)
Definition handler_step (i k : nat) (rest : list (nat * nat)) (st : sstate) : sstate :=
  if Nat.ltb k (need i)
  then mkS (backlog st) ((i, S k) :: rest) (OExchange i k :: log st)
  else mkS (backlog st) rest (OReply i :: log st).

(* sequential server: accept only when idle; the handler runs in the server thread *)
Definition seq_step (a : action) (st : sstate) : sstate :=
  match a with
  | AConnect i => mkS (backlog st ++ [i]) (serving st) (log st)
  | AStep =>
      match serving st with
      | (i, k) :: rest => handler_step i k rest st
      | [] => match backlog st with
              | i :: b => mkS b [(i, 0%nat)] (log st)
              | [] => st
              end
      end
  | AStepThread _ => st              (* there are no handler threads *)
  end.

(* threaded server: AStep accepts whenever a connection is waiting; each handler has its thread *)
Fixpoint step_thread (i : nat) (l : list (nat * nat)) (st : sstate) : option sstate :=
  match l with
  | [] => None
  | (j, k) :: r =>
      if Nat.eqb i j then
        Some (if Nat.ltb k (need i)
              then mkS (backlog st) ((i, S k) :: r) (OExchange i k :: log st)
              else mkS (backlog st) r (OReply i :: log st))
      else match step_thread i r st with
           | Some st' => Some (mkS (backlog st') ((j, k) :: serving st') (log st'))
           | None => None
           end
  end.

Definition thr_step (a : action) (st : sstate) : sstate :=
  match a with
  | AConnect i => mkS (backlog st ++ [i]) (serving st) (log st)
  | AStep => match backlog st with
             | i :: b => mkS b (serving st ++ [(i, 0%nat)]) (log st)
             | [] => st
             end
  | AStepThread i => match step_thread i (serving st) st with Some st' => st' | None => st end
  end.

Definition run_seq (sched : list action) : sstate := fold_left (fun st a => seq_step a st) sched s0.
Definition run_thr (sched : list action) : sstate := fold_left (fun st a => thr_step a st) sched s0.

(* the device log, oldest first, as (client, exchange index) *)
Definition exchanges (st : sstate) : list (nat * nat) :=
  fold_left (fun acc o => match o with OExchange i k => (i, k) :: acc | OReply _ => acc end) (log st) [].

(* no APDU of another request between two APDUs of the same request *)
Fixpoint contiguous (l : list (nat * nat)) (closed : list nat) (cur : option nat) : bool :=
  match l with
  | [] => true
  | (i, _) :: r =>
      match cur with
      | Some c => if Nat.eqb c i then contiguous r closed cur
                  else negb (existsb (Nat.eqb i) (c :: closed)) && contiguous r (c :: closed) (Some i)
      | None => negb (existsb (Nat.eqb i) closed) && contiguous r closed (Some i)
      end
  end.

Definition atomic (st : sstate) : bool := contiguous (exchanges st) [] None.

End WithNeed.
