(* Gathering attestations: sgx/envelope.py (SgxEnvelope, SgxQeAuthData, SgxQeCertData),
   admin/sgx_attestation.py (conversions and element construction), admin/dongle_admin.py
   (get_device_key, setup_endorsement_key response slicing), admin/onboard.py and
   admin/ledger_attestation.py (element construction). *)
From PowHsm Require Export Model.CertV2.

(* ---------- bytes helpers ---------- *)
Fixpoint starts (p b : bytes) : bool :=
  match p, b with
  | [], _ => true
  | x :: p', y :: b' => (x =? y) && starts p' b'
  | _ :: _, [] => false
  end.

(* bytes.split(sep) for a non-empty separator; fuel = length of the input + 1 *)
Fixpoint split_bytes (fuel : nat) (sep b cur : bytes) : list bytes :=
  match fuel with
  | O => [rev cur ++ b]
  | S f =>
      match b with
      | [] => [rev cur]
      | x :: r => if starts sep b then rev cur :: split_bytes f sep (skipn (length sep) b) []
                  else split_bytes f sep r (x :: cur)
      end
  end.

Definition bsplit (sep b : bytes) : list bytes := split_bytes (S (length b)) sep b [].

(* bytes.replace(old, b"") *)
Definition remove_all (old b : bytes) : bytes := concat (bsplit old b).

Fixpoint lstrip_b (b : bytes) : bytes :=
  match b with c :: r => if is_pyspace c then lstrip_b r else b | [] => [] end.

Definition X509_START : bytes := s "-----BEGIN CERTIFICATE-----" ++ [10].
Definition X509_END : bytes := [10] ++ s "-----END CERTIFICATE-----" ++ [10].

(* SgxQeCertData.certs *)
Definition split_certs (data : bytes) : list bytes :=
  map (remove_all X509_START)
      (filter (fun c => starts X509_START (lstrip_b c)) (bsplit X509_END data)).

Record envelope := mkEnv {
  en_quote : bytes; en_sig : bytes; en_attkey : bytes; en_qe_body : bytes; en_qe_sig : bytes;
  en_auth : bytes; en_certs : list bytes; en_custom : bytes
}.

Definition fld (lay : list (str * (N * N))) (nm : str) (base : N) (b : bytes) : bytes :=
  let '(o, z) := field_of lay nm in sub b (base + o, z).

(* SgxEnvelope(envelope_bytes, custom_message_bytes): None = ValueError *)
Definition parse_envelope (env custom : bytes) : option envelope :=
  if nlen env <? SIZEOF_SgxEnvelope then None else
  let quote := fld LAYOUT_SgxEnvelope (s "quote") 0 env in
  let '(ao, _) := field_of LAYOUT_SgxEnvelope (s "quote_auth_data") in
  let sig := fld LAYOUT_SgxQuoteAuthData (s "signature") ao env in
  let key := fld LAYOUT_SgxQuoteAuthData (s "attestation_key") ao env in
  let qeb := fld LAYOUT_SgxQuoteAuthData (s "qe_report_body") ao env in
  let qes := fld LAYOUT_SgxQuoteAuthData (s "qe_report_body_signature") ao env in
  let off1 := N.to_nat SIZEOF_SgxEnvelope in
  (* sgx_qe_auth_data_t: uint16 size, then the data *)
  let r1 := skipn off1 env in
  if nlen r1 <? SIZEOF_SgxQeAuthData then None else
  let asz := from_bytes_le (firstn 2 r1) in
  let adata := firstn (N.to_nat asz) (skipn 2 r1) in
  if negb (nlen adata =? asz) then None else
  let r2 := skipn (2 + N.to_nat asz) r1 in
  (* sgx_qe_cert_data_t: uint16 type, uint32 size, then the data *)
  if nlen r2 <? SIZEOF_SgxQeCertData then None else
  let csz := from_bytes_le (firstn 4 (skipn 2 r2)) in
  (* compare lengths before converting the 32-bit size to nat *)
  if nlen (skipn 6 r2) <? csz then None else
  let cdata := firstn (N.to_nat csz) (skipn 6 r2) in
  if negb (nlen cdata =? csz) then None else
  let tail := skipn (6 + N.to_nat csz) r2 in
  if negb (bytes_eqb tail custom) then None else
  Some (mkEnv quote sig key qeb qes adata (split_certs cdata) custom).

(* ecdsa.util.sigencode_der(r, s): minimal two's complement integers *)
Fixpoint strip_zeros (b : bytes) : bytes :=
  match b with 0 :: r => strip_zeros r | _ => b end.
Definition der_int (b : bytes) : bytes :=
  let v := strip_zeros b in
  let v' := match v with [] => [0] | x :: _ => if 128 <=? x then 0 :: v else v end in
  2 :: nlen v' :: v'.
Definition sigencode_der (rs : bytes) : bytes :=
  let body := der_int (firstn 32 rs) ++ der_int (skipn 32 rs) in
  48 :: nlen body :: body.

(* the four elements sgx_attestation.do_attestation writes (needs two certificates) *)
Definition sgx_elements (b64_of_pem : bytes -> str) (e : envelope) : option (list celem) :=
  match en_certs e with
  | c0 :: c1 :: _ =>
      Some [ mkElem (JStr (s "quote")) (JStr (s "attestation")) KQuote None
                    (hex (en_quote e)) (hex (sigencode_der (en_sig e))) (hex (en_custom e)) [];
             mkElem (JStr (s "attestation")) (JStr (s "quoting_enclave")) KAttKey None
                    (hex (en_qe_body e)) (hex (sigencode_der (en_qe_sig e)))
                    (hex (4 :: en_attkey e)) (hex (en_auth e));
             mkElem (JStr (s "quoting_enclave")) (JStr (s "platform_ca")) KX509 None
                    (b64_of_pem c0) [] [] [];
             mkElem (JStr (s "platform_ca")) (JStr (s "sgx_root")) KX509 None
                    (b64_of_pem c1) [] [] [] ]
  | _ => None
  end.

(* ---------- Ledger: dongle_admin.get_device_key / setup_endorsement_key slicing ---------- *)
Record key_info := mkKi { ki_message : bytes; ki_signature : bytes }.

(* response = len | header | len | device key | len | signature; signed data = role || header || key *)
Definition device_key_info (resp : bytes) : option key_info :=
  match resp with
  | hl :: r1 =>
      let header := firstn (N.to_nat hl) r1 in
      match skipn (N.to_nat hl) r1 with
      | kl :: r2 =>
          let key := firstn (N.to_nat kl) r2 in
          match skipn (N.to_nat kl) r2 with
          | sl :: r3 => Some (mkKi (DA_ROLE_DEVICE :: header ++ key) (firstn (N.to_nat sl) r3))
          | [] => None
          end
      | [] => None
      end
  | [] => None
  end.

(* response = 65-byte endorsement key || signature; signed data = role || key *)
Definition endorsement_key_info (resp : bytes) : key_info :=
  mkKi (DA_ROLE_ENDORSEMENT :: firstn 65 resp) (skipn 65 resp).

(* the certificate elements written by onboarding and by the attestation command *)
Definition ledger_elements (dev att : key_info) (ui_msg ui_sig ui_hash sg_msg sg_sig sg_hash : bytes)
  : list celem :=
  [ mkElem (JStr (s "attestation")) (JStr (s "device")) KV1 None (hex (ki_message att))
           (hex (ki_signature att)) [] [];
    mkElem (JStr (s "device")) (JStr (s "root")) KV1 None (hex (ki_message dev))
           (hex (ki_signature dev)) [] [];
    mkElem (JStr (s "ui")) (JStr (s "attestation")) KV1 (Some (hex ui_hash)) (hex ui_msg) (hex ui_sig) [] [];
    mkElem (JStr (s "signer")) (JStr (s "attestation")) KV1 (Some (hex sg_hash)) (hex sg_msg) (hex sg_sig) [] [] ].
