(* C10: the PIN kept on disk across manager lifetimes, device outcomes, file-system failures and
   crashes.  One step = one manager start against a locked (bootloader-mode) device, following
   ledger/pin.py FileBasedPin.__init__ and ledger/protocol.py:185-209 (unlock, then the
   change block: start_change, new_pin, commit_change / abort_change, always interrupt). *)
From PowHsm Require Export Model.Pin.

(* bytes.strip(): ASCII whitespace off both ends *)
Fixpoint lstrip (b : bytes) : bytes :=
  match b with
  | c :: r => if is_pyspace c then lstrip r else b
  | [] => []
  end.
Definition py_strip (b : bytes) : bytes := rev (lstrip (rev (lstrip b))).

Record gstate := mkG {
  g_file : option bytes;        (* PIN file content, None = no file *)
  g_dev : bytes;                (* the PIN the device currently accepts *)
  g_default : option bytes      (* configured default PIN *)
}.

(* what the device / link does with the new PIN *)
Inductive send_outcome :=
| SAck          (* device stores the new PIN and says so *)
| SRefuse       (* device answers "invalid PIN": nothing stored *)
| SError        (* device answers another error / link fails before the PIN is stored *)
| SAckLost.     (* device stores the new PIN but the acknowledgement never arrives *)

(* what happens at commit time (only reached after SAck) *)
Inductive commit_outcome :=
| COk
| COpenFail            (* open(path,"wb") raises: nothing truncated *)
| CWriteFail           (* file truncated by open, write raises *)
| CCrashBeforeCommit   (* process dies between the acknowledgement and commit_change *)
| CCrashAfterTruncate. (* process dies after open truncated the file *)

Record run := mkRun { r_force : bool; r_newpin : bytes; r_send : send_outcome; r_commit : commit_outcome }.

Inductive run_result :=
| RPinError            (* PIN cannot be loaded: manager does not start *)
| RUnlockFailed        (* loaded PIN does not open the device *)
| RServed              (* unlocked, no change needed: goes on to serve *)
| RStopped             (* a change was attempted: the manager stops (interrupt) *)
| RCrashed.

(* the PIN the manager loads: file content (stripped) when the file exists, else the default *)
Definition loaded_pin (s : gstate) : option bytes :=
  match g_file s with
  | Some f => Some (py_strip f)
  | None => g_default s
  end.

Definition run_once (s : gstate) (r : run) : gstate * run_result :=
  match loaded_pin s with
  | None => (s, RPinError)
  | Some cur =>
      if negb (pin_is_valid cur false) then (s, RPinError) else
      if negb (bytes_eqb cur (g_dev s)) then (s, RUnlockFailed) else
      let needs_change := r_force r || match g_file s with Some _ => false | None => true end in
      if negb needs_change then (s, RServed) else
      match r_send r with
      | SRefuse | SError => (s, RStopped)
      | SAckLost => (mkG (g_file s) (r_newpin r) (g_default s), RStopped)
      | SAck =>
          let dev' := r_newpin r in
          match r_commit r with
          | COk => (mkG (Some dev') dev' (g_default s), RStopped)
          | COpenFail => (mkG (g_file s) dev' (g_default s), RStopped)
          | CWriteFail => (mkG (Some []) dev' (g_default s), RStopped)
          | CCrashBeforeCommit => (mkG (g_file s) dev' (g_default s), RCrashed)
          | CCrashAfterTruncate => (mkG (Some []) dev' (g_default s), RCrashed)
          end
      end
  end.

Definition run_history (s : gstate) (h : list run) : gstate := fold_left (fun st r => fst (run_once st r)) h s.

(* a PIN that unlocks the device can be recovered from the PIN file or the configured default *)
Definition recoverable (s : gstate) : Prop :=
  (exists f, g_file s = Some f /\ py_strip f = g_dev s) \/ g_default s = Some (g_dev s).

Definition recoverableb (s : gstate) : bool :=
  match g_file s with Some f => bytes_eqb (py_strip f) (g_dev s) | None => false end
  || match g_default s with Some d => bytes_eqb d (g_dev s) | None => false end.

(* a run in which nothing goes wrong between the device's acknowledgement and the commit *)
Definition fault_free (r : run) : bool :=
  match r_send r, r_commit r with
  | SAck, COk | SRefuse, _ | SError, _ => true
  | _, _ => false
  end.
