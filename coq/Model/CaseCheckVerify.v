(* Correspondence checker for the verify_attestation commands (admin/verify_*_attestation.py). *)
From PowHsm Require Import Model.Verify.
From PowHsm Require Export Model.CaseCheck.

Definition ob (a b : option bytes) : bool :=
  match a, b with Some x, Some y => bytes_eqb x y | None, None => true | _, _ => false end.

(* what the command printed, parsed back by the harness *)
Record pm_obs := mkPmObs { po_platform : bytes; po_ud : bytes; po_best_block : bytes; po_last_tx : bytes;
                           po_timestamp : N }.

Definition pm_eqb (m : powhsm_msg) (o : pm_obs) : bool :=
  bytes_eqb (pm_platform m) (po_platform o) && bytes_eqb (pm_ud_value m) (po_ud o)
  && bytes_eqb (pm_best_block m) (po_best_block o) && bytes_eqb (pm_last_signed_tx m) (po_last_tx o)
  && (pm_timestamp m =? po_timestamp o).

Record ledger_obs := mkLo {
  lo_ud : bytes; lo_pubkey : bytes; lo_auth_signer_hash : bytes; lo_iteration : N; lo_ui_hash : bytes;
  lo_ui_version : bytes; lo_keys_hash : bytes; lo_signer_hash : bytes; lo_signer_version : bytes;
  lo_powhsm : option pm_obs
}.

Record lcase := mkLcase {
  lc_keys : option (list opkey);             (* None: the public-keys file could not be loaded *)
  lc_ui : option tres; lc_signer : option tres;
  lc_observed : option ledger_obs            (* None: the command ended in an error *)
}.

Definition check_lcase (c : lcase) : bool :=
  match (match lc_keys c with Some ks => verify_ledger sha256 ks (lc_ui c) (lc_signer c) | None => None end),
        lc_observed c with
  | None, None => true
  | Some (u, sr), Some o =>
      bytes_eqb (ur_ud_value u) (lo_ud o) && bytes_eqb (ur_public_key u) (lo_pubkey o)
      && bytes_eqb (ur_signer_hash u) (lo_auth_signer_hash o) && (ur_signer_iteration u =? lo_iteration o)
      && bytes_eqb (ur_ui_hash u) (lo_ui_hash o) && bytes_eqb (ur_ui_version u) (lo_ui_version o)
      && bytes_eqb (sr_keys_hash sr) (lo_keys_hash o) && bytes_eqb (sr_signer_hash sr) (lo_signer_hash o)
      && bytes_eqb (sr_version sr) (lo_signer_version o)
      && match sr_powhsm sr, lo_powhsm o with
         | Some m, Some po => pm_eqb m po | None, None => true | _, _ => false end
  | _, _ => false
  end.

Record sgx_obs := mkSo { so_keys_hash : bytes; so_mrenclave : bytes; so_mrsigner : bytes; so_version : bytes;
                         so_powhsm : pm_obs }.

Record xcase := mkXcase {
  xc_root_ok : bool;
  xc_keys : option (list opkey);
  xc_quote : option (bytes * bytes);         (* (custom message, quote bytes) when the quote target is valid *)
  xc_observed : option sgx_obs
}.

Definition check_xcase (c : xcase) : bool :=
  match (match xc_keys c with Some ks => verify_sgx sha256 (xc_root_ok c) ks (xc_quote c) | None => None end),
        xc_observed c with
  | None, None => true
  | Some r, Some o =>
      bytes_eqb (sg_keys_hash r) (so_keys_hash o) && bytes_eqb (sg_mrenclave r) (so_mrenclave o)
      && bytes_eqb (sg_mrsigner r) (so_mrsigner o) && bytes_eqb (pm_version (sg_powhsm r)) (so_version o)
      && pm_eqb (sg_powhsm r) (so_powhsm o)
  | _, _ => false
  end.
