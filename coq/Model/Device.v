(* The device as a script of answers; the state+exception monad every model runs in;
   _send_command (ledger/hsm2dongle.py:417-455), connect, disconnect. *)
From PowHsm Require Export Py.Base Py.Json Gen.Tables.

Inductive exn :=
| ErrorResult (sw : N)      (* HSM2DongleErrorResult *)
| DongleTimeout             (* HSM2DongleTimeoutError *)
| DongleComm                (* HSM2DongleCommError *)
| DongleError               (* HSM2DongleError *)
| ProtocolError             (* HSM2ProtocolError *)
| ProtocolInterrupt         (* HSM2ProtocolInterrupt *)
| PinError
| AdminError
| Py (e : pyexc).

Inductive result (A : Type) := Ok (a : A) | Exn (e : exn).
Arguments Ok {A} a.
Arguments Exn {A} e.

(* what one exchange with the transport can produce *)
Inductive resp :=
| Data (b : bytes)          (* normal return (status 9000 / 61xx / 6Cxx) *)
| Status (sw : N)           (* CommException("Invalid status", sw) *)
| TimeoutR                  (* CommException("Timeout", 0x6F00) *)
| WriteErr                  (* BaseException("Error while writing") *)
| ReadErr                   (* OSError("read error") *)
| Raise.                    (* any other exception out of exchange() *)

(* the PIN object of ledger/pin.py (FileBasedPin), part of the manager's mutable state *)
Record pin_obj := mkPin {
  pin_cur : bytes;            (* _pin *)
  pin_needs_change : bool;    (* _needs_change *)
  pin_changing : bool;        (* _changing *)
  pin_new : option bytes      (* _new_pin *)
}.

Inductive event :=
| Apdu (b : bytes) (r : resp) | Connect (ok : bool) | Close
| PinFileWrite (b : bytes) (ok : bool).   (* commit_change: open(path,"wb") + write *)

Record world := mkWorld {
  script : list resp;       (* remaining device answers; exhausted = silent device = TimeoutR *)
  connects : list bool;     (* outcomes of the next getDongle calls; exhausted = success *)
  opened : bool;            (* self.dongle.opened *)
  trace : list event;       (* newest first *)
  comm_issue : bool;        (* HSM2ProtocolLedger._comm_issue *)
  pin : option pin_obj;     (* protocol.pin (None for the TCP manager) *)
  rand_pins : list bytes;   (* candidate PINs the RNG will produce next *)
  fs_ok : list bool         (* outcomes of the next PIN-file commits; exhausted = success *)
}.

Definition set_script (w : world) (x : list resp) : world :=
  mkWorld x (connects w) (opened w) (trace w) (comm_issue w) (pin w) (rand_pins w) (fs_ok w).
Definition set_connects (w : world) (x : list bool) : world :=
  mkWorld (script w) x (opened w) (trace w) (comm_issue w) (pin w) (rand_pins w) (fs_ok w).
Definition set_opened (w : world) (x : bool) : world :=
  mkWorld (script w) (connects w) x (trace w) (comm_issue w) (pin w) (rand_pins w) (fs_ok w).
Definition set_trace (w : world) (x : list event) : world :=
  mkWorld (script w) (connects w) (opened w) x (comm_issue w) (pin w) (rand_pins w) (fs_ok w).
Definition set_comm_issue (w : world) (x : bool) : world :=
  mkWorld (script w) (connects w) (opened w) (trace w) x (pin w) (rand_pins w) (fs_ok w).
Definition set_pin (w : world) (x : option pin_obj) : world :=
  mkWorld (script w) (connects w) (opened w) (trace w) (comm_issue w) x (rand_pins w) (fs_ok w).
Definition set_rand_pins (w : world) (x : list bytes) : world :=
  mkWorld (script w) (connects w) (opened w) (trace w) (comm_issue w) (pin w) x (fs_ok w).
Definition set_fs_ok (w : world) (x : list bool) : world :=
  mkWorld (script w) (connects w) (opened w) (trace w) (comm_issue w) (pin w) (rand_pins w) x.

Definition M (A : Type) := world -> result A * world.

Definition ret {A} (a : A) : M A := fun w => (Ok a, w).
Definition raise {A} (e : exn) : M A := fun w => (Exn e, w).
Definition bind {A B} (m : M A) (f : A -> M B) : M B :=
  fun w => match m w with
           | (Ok a, w') => f a w'
           | (Exn e, w') => (Exn e, w')
           end.
Notation "x <- m ;; k" := (bind m (fun x => k)) (at level 61, m at next level, right associativity).
Notation "m ;;; k" := (bind m (fun _ => k)) (at level 61, right associativity).

(* try: m  except <classes matched by h>: h e *)
Definition try_catch {A} (m : M A) (h : exn -> option (M A)) : M A :=
  fun w => match m w with
           | (Ok a, w') => (Ok a, w')
           | (Exn e, w') => match h e with Some k => k w' | None => (Exn e, w') end
           end.

(* Option -> M, raising a Python exception on None (indexing, to_bytes, fromhex ...) *)
Definition of_opt {A} (o : option A) (e : pyexc) : M A :=
  match o with Some a => ret a | None => raise (Py e) end.

Fixpoint in_ranges (sw : N) (r : list (N * N)) : bool :=
  match r with [] => false | (lo, hi) :: r' => ((lo <=? sw) && (sw <=? hi)) || in_ranges sw r' end.

Definition user_defined (sw : N) : bool := in_ranges sw USER_DEFINED_RANGES.

Definition classify (r : resp) : result bytes :=
  match r with
  | Data b => Ok b
  | Status sw => if user_defined sw then Exn (ErrorResult sw) else Exn DongleError
  | TimeoutR => Exn DongleTimeout
  | WriteErr | ReadErr => Exn DongleComm
  | Raise => Exn DongleError
  end.

Definition push (e : event) (w : world) : world := set_trace w (e :: trace w).

(* _send_command(command, data): one APDU out, one script item in *)
Definition send_command (cmd : N) (data : bytes) : M bytes :=
  fun w =>
    match script w with
    | [] => (Exn DongleTimeout, push (Apdu (CLA :: cmd :: data) TimeoutR) w)
    | r :: rest => (classify r, push (Apdu (CLA :: cmd :: data) r) (set_script w rest))
    end.

(* HSM2Dongle.connect: getDongle raising CommException -> HSM2DongleCommError *)
Definition connect : M unit :=
  fun w =>
    let ok := match connects w with [] => true | b :: _ => b end in
    let w1 := push (Connect ok)
                   (set_opened (set_connects w (tl (connects w))) (if ok then true else opened w)) in
    if ok then (Ok tt, w1) else (Exn DongleComm, w1).

(* HSM2Dongle.disconnect: closes only an opened transport *)
Definition disconnect : M unit :=
  fun w => if opened w
           then (Ok tt, push Close (set_opened w false))
           else (Ok tt, w).

(* exception class ids of Gen.Tables and the subclass test used by `except (A, B)` *)
Definition exn_class (e : exn) : N :=
  match e with
  | ErrorResult _ => EXC_HSM2DongleErrorResult
  | DongleTimeout => EXC_HSM2DongleTimeoutError
  | DongleComm => EXC_HSM2DongleCommError
  | DongleError => EXC_HSM2DongleError
  | ProtocolError => 200
  | ProtocolInterrupt => 201
  | PinError => 202
  | AdminError => 203
  | Py _ => 204
  end.

(* isinstance(e, class c): dongle errors by the generated hierarchy; every model exception
   is an Exception (and a BaseException) *)
Definition exn_isa (e : exn) (c : N) : bool :=
  match assoc_N (exn_class e) EXC_ISA with
  | Some supers => mem_N c supers
  | None => (c =? exn_class e) || (c =? EXC_Exception) || (c =? EXC_BaseException)
  end.

Definition exn_matches (e : exn) (cs : list N) : bool := existsb (exn_isa e) cs.

Definition apdus (w : world) : list bytes :=
  fold_left (fun acc ev => match ev with Apdu b _ => b :: acc | _ => acc end) (trace w) [].

Definition world0 (sc : list resp) (cn : list bool) : world :=
  mkWorld sc cn true [] false None [] [].

Definition get_world : M world := fun w => (Ok w, w).
Definition put_world (w' : world) : M unit := fun _ => (Ok tt, w').
Definition modify (f : world -> world) : M unit := fun w => (Ok tt, f w).
