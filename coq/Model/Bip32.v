(* comm/bip32.py: BIP32Element / BIP32Path grammar and to_binary. *)
From PowHsm Require Export Py.Base Gen.Tables.

(* digit value of a Unicode decimal digit (str.isdecimal), None otherwise *)
Fixpoint nd_value (c : N) (starts : list N) : option N :=
  match starts with
  | [] => None
  | st :: r => if (st <=? c) && (c <? st + 10) then Some (c - st) else nd_value c r
  end.

Definition is_decimal_char (c : N) : bool :=
  match nd_value c UNICODE_ND_STARTS with Some _ => true | None => false end.

(* str.isdecimal: nonempty and every char a decimal digit *)
Definition is_decimal (x : str) : bool :=
  match x with [] => false | _ => forallb is_decimal_char x end.

(* int(x) for a string passing isdecimal; None = ValueError (digit-count limit) *)
Definition int_of_decimal (x : str) : option N :=
  if INT_MAX_STR_DIGITS <? nlen x then None
  else Some (fold_left (fun acc c => acc * 10 + match nd_value c UNICODE_ND_STARTS with
                                                   | Some d => d | None => 0 end) x 0).

Definition QUOTE : N := 39.
Definition SLASH : N := 47.

(* BIP32Element(spec): index, None = ValueError *)
Definition bip32_element (spec : str) : option N :=
  match rev spec with
  | [] => None
  | lastc :: _ =>
      let hard := lastc =? QUOTE in
      let sindex := if hard then removelast spec else spec in
      if negb (is_decimal sindex) then None else
      match int_of_decimal sindex with
      | None => None
      | Some v =>
          if 2 ^ 31 <=? v then None else
          let index := (if hard then 2 ^ 31 else 0) + v in
          if 2 ^ 32 <? index then None else Some index
      end
  end.

(* str.split("/") *)
Fixpoint split_on (sep : N) (x : str) (cur : str) : list str :=
  match x with
  | [] => [rev cur]
  | c :: r => if c =? sep then rev cur :: split_on sep r [] else split_on sep r (c :: cur)
  end.

(* BIP32Path(spec) with nelements = 5: list of indexes, None = ValueError *)
Definition bip32_path (spec : str) : option (list N) :=
  match spec with
  | 109 :: 47 :: rest =>           (* "m/" *)
      match all_some (map bip32_element (split_on SLASH rest [])) with
      | Some els => if Nat.eqb (length els) 5 then Some els else None
      | None => None
      end
  | _ => None
  end.

(* to_binary(): count byte then little-endian uint32 per element *)
Definition path_to_binary (els : list N) : bytes :=
  nlen els :: concat (map (le_bytes 4) els).
