(* Correspondence checker for attestation certificates (admin/certificate*.py). *)
From PowHsm Require Import Model.Cert.
From PowHsm Require Export Model.CaseCheck.

Inductive vres :=
| VValid (value : str) (tweak : option str)   (* (True, value, tweak); value = hex / custom data hex *)
| VInvalid (name : json)                      (* (False, name) *)
| VRaises.                                    (* validate raised for this target *)

Definition opt_str_eqb (a b : option str) : bool :=
  match a, b with
  | Some x, Some y => str_eqb x y | None, None => true | _, _ => false end.

Definition vres_eqb (a b : vres) : bool :=
  match a, b with
  | VValid v t, VValid v' t' => str_eqb v v' && opt_str_eqb t t'
  | VInvalid n, VInvalid n' => json_eqb n n'
  | VRaises, VRaises => true
  | _, _ => false
  end.

Fixpoint lookup_str {B} (k : str) (l : list (str * B)) : option B :=
  match l with
  | [] => None
  | (k', v) :: r => if str_eqb k k' then Some v else lookup_str k r
  end.

Record ccase := mkCcase {
  cc_doc : json;
  cc_b64 : list (str * option str);                 (* b64 canonicalisation oracle *)
  cc_keys : list (str * option str);                (* P-256 key re-encoding oracle *)
  cc_links : list (json * option json * bool);      (* (element name, certifier name | root, verdict) *)
  (* observed *)
  cc_loaded : bool;
  cc_results : option (list vres);                  (* per target, in the document's order *)
  cc_resave : option (option json)                  (* Some None: to_dict raised *)
}.

Definition b64_of (c : ccase) (x : str) : option str :=
  match lookup_str x (cc_b64 c) with Some r => r | None => None end.
Definition key_of (c : ccase) (x : str) : option str :=
  match lookup_str x (cc_keys c) with Some r => r | None => None end.

Definition cf_name (cf : certifier) : option json :=
  match cf with ByRoot => None | ByElem e => Some (ce_name e) end.

Fixpoint link_lookup (n : json) (cf : option json) (l : list (json * option json * bool)) : bool :=
  match l with
  | [] => false
  | (n', cf', v) :: r =>
      if key_eqb n n' && match cf, cf' with
                         | None, None => true
                         | Some a, Some b => key_eqb a b
                         | _, _ => false
                         end
      then v else link_lookup n cf r
  end.

Definition link_of (c : ccase) (e : celem) (cf : certifier) : bool :=
  link_lookup (ce_name e) (cf_name cf) (cc_links c).

Definition vres_of (v : option verdict) : vres :=
  match v with
  | Some (Valid e) =>
      match ce_kind e with
      | KV1 => match ce_name e, fromhex (ce_message e) with
               | JStr nm, Some mb => VValid (hex (v1_value nm mb)) (ce_tweak e)
               | _, _ => VRaises
               end
      | KQuote => VValid (ce_extra1 e) None
      | _ => VRaises            (* get_value(): NotImplementedError *)
      end
  | Some (Invalid n) => VInvalid n
  | None => VRaises
  end.

Definition check_ccase (c : ccase) : bool :=
  match load_cert (b64_of c) (cc_doc c) with
  | LError => negb (cc_loaded c)
  | LOk crt =>
      cc_loaded c &&
      match cc_results c with
      | Some rs => list_eqb vres_eqb
                     (map (fun tv => vres_of (snd tv)) (validate_all (link_of c) crt)) rs
      | None => true
      end &&
      match cc_resave c with
      | Some (Some j) => match cert_to_json crt with
                         | Some j' => json_eqb j' j | None => false end
      | Some None => match cert_to_json crt with Some _ => false | None => true end
      | None => true
      end
  end.
