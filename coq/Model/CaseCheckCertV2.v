(* Correspondence checker for version-2 (SGX) certificates: the model's own link predicates
   (Model/CertV2.v) run on oracle tables computed independently of the libraries the code uses. *)
From PowHsm Require Import Model.Cert Model.CertV2 Model.CaseCheckCert.
From PowHsm Require Export Model.CaseCheck.

Record v2case := mkV2case {
  v_doc : json;
  v_root_b64 : str;                                  (* the root of trust certificate (canonical base64) *)
  v_b64 : list (str * option str);
  v_keys : list (str * option str);                  (* hex key -> hex raw x||y *)
  v_x509 : list (str * option (Z * Z * option str)); (* b64 -> not_before, not_after, P-256 key hex *)
  v_x509_sig : list (str * str * bool);              (* subject b64, issuer b64 -> signature ok *)
  v_verify : list (str * str * str * bool);          (* key hex, digest hex, signature hex -> ok *)
  v_now : Z;
  (* observed *)
  v_loaded : bool;
  v_results : option (list vres);
  v_links : list (json * option json * bool)         (* implementation's is_valid per pair *)
}.

Fixpoint lookup2 (a b : str) (l : list (str * str * bool)) : bool :=
  match l with
  | [] => false
  | (a', b', v) :: r => if str_eqb a a' && str_eqb b b' then v else lookup2 a b r
  end.

Fixpoint lookup3 (a b c : str) (l : list (str * str * str * bool)) : bool :=
  match l with
  | [] => false
  | (a', b', c', v) :: r => if str_eqb a a' && str_eqb b b' && str_eqb c c' then v else lookup3 a b c r
  end.

Section Run.
Variable c : v2case.

Definition o_b64 (x : str) : option str := match lookup_str x (v_b64 c) with Some r => r | None => None end.
Definition o_key (x : str) : option bytes :=
  match lookup_str x (v_keys c) with Some (Some h) => fromhex h | _ => None end.
Definition o_x509 (x : str) : option x509_info :=
  match lookup_str x (v_x509 c) with
  | Some (Some (nb, na, k)) => Some (mkX509 nb na (match k with Some h => fromhex h | None => None end))
  | _ => None
  end.
Definition o_sig (a b : str) : bool := lookup2 a b (v_x509_sig c).
Definition o_verify (k d sg : bytes) : bool := lookup3 (hex k) (hex d) (hex sg) (v_verify c).

Definition root_elem_of : celem :=
  mkElem (JStr CERT_V2_ROOT) (JStr CERT_V2_ROOT) KX509 None (v_root_b64 c) [] [] [].

Definition model_link : celem -> certifier -> bool :=
  link_v2 sha256 o_verify o_key o_x509 o_sig (v_now c) root_elem_of.

Definition check_v2case : bool :=
  match load_cert o_b64 (v_doc c) with
  | LError => negb (v_loaded c)
  | LOk crt =>
      v_loaded c &&
      match v_results c with
      | Some rs => list_eqb vres_eqb (map (fun tv => vres_of (snd tv)) (validate_all model_link crt)) rs
      | None => true
      end &&
      (* every link verdict of the implementation equals the model's predicate *)
      forallb (fun l => let '(n, cf, v) := l in
                        match tbl_get n (c_elems crt) with
                        | None => true
                        | Some e =>
                            match cf with
                            | None => Bool.eqb (model_link e ByRoot) v
                            | Some cn => match tbl_get cn (c_elems crt) with
                                         | Some ce => Bool.eqb (model_link e (ByElem ce)) v
                                         | None => true
                                         end
                            end
                        end) (v_links c)
  end.
End Run.
