(* ledger/protocol.py (v5) and ledger/protocol_v1.py: command handlers, their except ladders
   (generated), result translation, and handle_request on top of the comm-layer gate. *)
From PowHsm Require Export Model.CommProtocol Model.Bringup Model.BlockOps.

Section WithEnv.
Variable keccak : bytes -> bytes.
Variable kind : dongle_kind.

Definition ladder := list (list N * bool * ladder_action).

(* operation result tuple: (code,) or (code, dict) *)
Definition rtuple := (Z * option obj)%type.

(* apply the first handler whose class tuple matches the pending exception *)
Fixpoint apply_ladder (lad : ladder) (e : exn) : option (M rtuple) :=
  match lad with
  | [] => None
  | (cs, flag, act) :: rest =>
      if exn_matches e cs then
        Some ((if flag then modify (fun w => set_comm_issue w true) else ret tt) ;;;
              match act with
              | LadCode c => ret (c, None)
              | LadError => raise ProtocolError
              | LadPass => ret (0%Z, None)
              end)
      else apply_ladder rest e
  end.

Definition with_ladder (lad : ladder) (body : M rtuple) : M rtuple :=
  try_catch body (apply_ladder lad).

Definition lookup_Z (k : Z) (tbl : list (Z * Z)) (dflt : Z) : Z :=
  match assoc_Z k tbl with Some v => v | None => dflt end.

Definition key_path (req : obj) : M (list N) :=
  match jget (s "keyId") req with
  | Some (JStr x) => of_opt (bip32_path x) KeyError
  | _ => raise (Py KeyError)
  end.

Definition jstr_field (o : obj) (k : str) : M str :=
  match jget k o with Some (JStr x) => ret x | _ => raise (Py KeyError) end.
Definition jobj_field (o : obj) (k : str) : M obj :=
  match jget k o with Some (JObj x) => ret x | _ => raise (Py KeyError) end.
Definition hex_field (o : obj) (k : str) : M bytes :=
  x <- jstr_field o k ;; of_opt (fromhex x) ValueError.

Definition str_list_field (o : obj) (k : str) : M (list bytes) :=
  match jget k o with
  | Some (JArr l) =>
      of_opt (all_some (map (fun j => match j with JStr x => fromhex x | _ => None end) l)) ValueError
  | _ => raise (Py KeyError)
  end.

(* blocks are only checked to be strings: Some bytes when hex, None otherwise *)
Definition block_list (j : option json) : M (list (option bytes)) :=
  match j with
  | Some (JArr l) => ret (map (fun x => match x with JStr h => fromhex h | _ => None end) l)
  | _ => raise (Py KeyError)
  end.

Definition sig_obj (rs : bytes * bytes) : json :=
  JObj [(s "r", JStr (hex (fst rs))); (s "s", JStr (hex (snd rs)))].

(* ---------- getPubKey ---------- *)
Definition op_get_pubkey (m : pmode) (req : obj) : M rtuple :=
  with_ladder (match m with V5 => LADDER_V5_get_pubkey | V1 => LADDER_V1_get_pubkey end)
    (ensure_connection kind ;;;
     p <- key_path req ;;
     pk <- get_public_key (path_to_binary p) ;;
     ret (0%Z, Some [(s "pubKey", JStr pk)])).

(* ---------- sign ---------- *)
Definition finish_sign (m : pmode) (r : sign_result) : rtuple :=
  match r with
  | inl rs => (0%Z, Some [(s "signature", sig_obj rs)])
  | inr c => (match m with
              | V5 => lookup_Z c TR_SIGN_V5 TR_SIGN_V5_DEFAULT
              | V1 => lookup_Z c TR_SIGN_V1 TR_SIGN_V1_DEFAULT
              end, None)
  end.

Definition with_ladder_sign (m : pmode) (lad : ladder) (body : M sign_result) : M rtuple :=
  try_catch (r <- body ;; ret (finish_sign m r)) (apply_ladder lad).

Definition op_sign_v5 (req : obj) : M rtuple :=
  let c := codes_of V5 in
  let is_hash := match jget (s "message") req with
                 | Some (JObj m) => jhas (s "hash") m
                 | _ => false
                 end in
  if is_hash then
    let mv := validate_message c req WHash in
    if (mv <? 0)%Z then ret (mv, None) else
    with_ladder_sign V5 LADDER_V5_sign_unauth
      (ensure_connection kind ;;;
       p <- key_path req ;;
       msg <- jobj_field req (s "message") ;;
       h <- jstr_field msg (s "hash") ;;
       sign_unauthorized (path_to_binary p) (fromhex h))
  else
    let av := validate_auth c req true in
    if (av <? 0)%Z then ret (av, None) else
    let mv := validate_message c req WTx in
    if (mv <? 0)%Z then ret (mv, None) else
    msg <- jobj_field req (s "message") ;;
    txraw <- hex_field msg (s "tx") ;;
    match unsign_tx txraw with
    | None => ret (c_invalid_message c, None)
    | Some utx =>
        match deserialize_tx utx with       (* get_tx_hash(unsigned) inside the same try *)
        | None => ret (c_invalid_message c, None)
        | Some _ =>
            with_ladder_sign V5 LADDER_V5_sign_auth
              (ensure_connection kind ;;;
               p <- key_path req ;;
               auth <- jobj_field req (s "auth") ;;
               receipt <- hex_field auth (s "receipt") ;;
               proof <- str_list_field auth (s "receipt_merkle_proof") ;;
               input <- match jget (s "input") msg with
                        | Some (JInt z) => ret z | _ => raise (Py KeyError) end ;;
               mode <- jstr_field msg (s "sighashComputationMode") ;;
               ws <- match jget (s "witnessScript") msg with
                     | Some (JStr x) => of_opt (fromhex x) ValueError
                     | _ => ret [] end ;;
               ov <- match jget (s "outpointValue") msg with
                     | Some (JInt z) => ret z | _ => ret 0%Z end ;;
               sign_authorized (path_to_binary p) receipt proof utx input mode ws ov)
        end
    end.

Definition op_sign_v1 (req : obj) : M rtuple :=
  with_ladder_sign V1 LADDER_V1_sign
    (ensure_connection kind ;;;
     p <- key_path req ;;
     h <- jstr_field req (s "message") ;;
     sign_unauthorized (path_to_binary p) (fromhex h)).

(* ---------- blockchain state ---------- *)
Definition hash_of (k : str) (st : bc_state) : M json :=
  match assoc_str k (st_hashes st) with Some h => ret (JStr h) | None => raise (Py KeyError) end.

Definition op_blockchain_state (req : obj) : M rtuple :=
  with_ladder LADDER_V5_blockchain_state
    (ensure_connection kind ;;;
     st <- get_blockchain_state ;;
     bb <- hash_of (s "best_block") st ;;
     nvb <- hash_of (s "newest_valid_block") st ;;
     ab <- hash_of (s "ancestor_block") st ;;
     arr <- hash_of (s "ancestor_receipts_root") st ;;
     ubb <- hash_of (s "updating.best_block") st ;;
     unvb <- hash_of (s "updating.newest_valid_block") st ;;
     uneb <- hash_of (s "updating.next_expected_block") st ;;
     let '(f0, f1, f2) := st_flags st in
     ret (0%Z, Some [(s "state", JObj [
       (s "best_block", bb); (s "newest_valid_block", nvb); (s "ancestor_block", ab);
       (s "ancestor_receipts_root", arr);
       (s "updating", JObj [
          (s "best_block", ubb); (s "newest_valid_block", unvb); (s "next_expected_block", uneb);
          (s "total_difficulty", JInt (Z.of_N (st_difficulty st)));
          (s "in_progress", JBool f0); (s "already_validated", JBool f1);
          (s "found_best_block", JBool f2)])])])).

Definition op_reset_advance (req : obj) : M rtuple :=
  with_ladder LADDER_V5_reset_advance_blockchain
    (ensure_connection kind ;;; reset_advance_blockchain ;;; ret (0%Z, Some [])).

(* ---------- advance / update ancestor ---------- *)
Definition op_advance (req : obj) : M rtuple :=
  with_ladder LADDER_V5_advance_blockchain
    (ensure_connection kind ;;;
     blocks <- block_list (jget (s "blocks") req) ;;
     bros <- match jget (s "brothers") req with
             | Some (JArr l) =>
                 (fix go (l : list json) : M (list (list (option bytes))) :=
                    match l with
                    | [] => ret []
                    | x :: r => a <- block_list (Some x) ;; b <- go r ;; ret (a :: b)
                    end) l
             | _ => raise (Py KeyError)
             end ;;
     r <- advance_blockchain keccak blocks bros ;;
     ret (lookup_Z (snd r) TR_ADV TR_ADV_DEFAULT, Some [])).

Definition op_update_ancestor (req : obj) : M rtuple :=
  with_ladder LADDER_V5_update_ancestor_block
    (ensure_connection kind ;;;
     blocks <- block_list (jget (s "blocks") req) ;;
     r <- update_ancestor blocks ;;
     ret (lookup_Z (snd r) TR_UPD TR_UPD_DEFAULT, Some [])).

(* ---------- parameters ---------- *)
Definition op_parameters (req : obj) : M rtuple :=
  with_ladder LADDER_V5_get_blockchain_parameters
    (ensure_connection kind ;;;
     p <- get_signer_parameters ;;
     nm <- of_opt (assoc_N (p_network p) NETWORK_NAMES) KeyError ;;
     ret (0%Z, Some [(s "parameters", JObj [
       (s "checkpoint", JStr (p_checkpoint p));
       (s "minimum_difficulty", JInt (Z.of_N (p_mrd p)));
       (s "network", JStr nm)])])).

(* ---------- heartbeats ---------- *)
Definition hb_reply (c : codes) (h : heartbeat + N) : rtuple :=
  match h with
  | inr _ => (c_device c, None)
  | inl hb => (0%Z, Some [(s "pubKey", JStr (hb_pubkey hb)); (s "message", JStr (hb_message hb));
                         (s "tweak", JStr (hb_tweak hb));
                         (s "signature", JObj [(s "r", JStr (hb_r hb)); (s "s", JStr (hb_s hb))])])
  end.

Definition op_signer_heartbeat (req : obj) : M rtuple :=
  with_ladder LADDER_V5_signer_heartbeat
    (ensure_connection kind ;;;
     ud <- hex_field req (s "udValue") ;;
     h <- get_signer_heartbeat ud ;;
     ret (hb_reply (codes_of V5) h)).

(* exit_app inside `try: ... except HSM2DongleCommError: pass` *)
Definition exit_app_tolerant (lad : ladder) : M unit :=
  try_catch exit_app
    (fun e => match apply_ladder lad e with Some _ => Some (ret tt) | None => None end).

Definition op_ui_heartbeat (req : obj) : M rtuple :=
  let c := codes_of V5 in
  with_ladder LADDER_V5_ui_heartbeat
    (ensure_connection kind ;;;
     m0 <- get_current_mode ;;
     if negb (mem_N m0 [MODE_SIGNER; MODE_UI_HEARTBEAT]) then ret (c_device c, None) else
     let from_signer := m0 =? MODE_SIGNER in
     go1 <- (if from_signer then
               exit_app_tolerant LADDER_V5_ui_heartbeat_exit1 ;;;
               wait_and_reconnect ;;;
               m1 <- get_current_mode ;; ret (m1 =? MODE_UI_HEARTBEAT)
             else ret true) ;;
     if negb go1 then ret (c_device c, None) else
     ud <- hex_field req (s "udValue") ;;
     h <- get_ui_heartbeat ud ;;
     go2 <- (if from_signer then
               exit_app_tolerant LADDER_V5_ui_heartbeat_exit2 ;;;
               wait_and_reconnect ;;;
               m2 <- get_current_mode ;; ret (m2 =? MODE_SIGNER)
             else ret true) ;;
     if negb go2 then ret (c_device c, None) else
     ret (hb_reply c h)).

(* ---------- dispatch by generated method name ---------- *)
Definition run_operation (m : pmode) (opname : str) (req : obj) : option (M rtuple) :=
  let is x := str_eqb opname (s x) in
  if is "_version" then Some (ret (0%Z, Some [(KEY_VERSION, JInt (c_version (codes_of m)))]))
  else if is "_get_pubkey" then Some (op_get_pubkey m req)
  else if is "_sign" then Some (match m with V5 => op_sign_v5 req | V1 => op_sign_v1 req end)
  else match m with
       | V1 => None
       | V5 =>
           if is "_advance_blockchain" then Some (op_advance req)
           else if is "_reset_advance_blockchain" then Some (op_reset_advance req)
           else if is "_blockchain_state" then Some (op_blockchain_state req)
           else if is "_update_ancestor_block" then Some (op_update_ancestor req)
           else if is "_get_blockchain_parameters" then Some (op_parameters req)
           else if is "_signer_heartbeat" then Some (op_signer_heartbeat req)
           else if is "_ui_heartbeat" then Some (op_ui_heartbeat req)
           else None
       end.

(* handle_request: the reply dict, or an exception escaping to the server *)
Definition handle_request (m : pmode) (request : json) : M json :=
  let err code := JObj [(KEY_ERRORCODE, JInt code)] in
  match gate_request m request with
  | GReject code => ret (err code)
  | GCrash e => raise (Py e)
  | GAccept cmd req =>
      match assoc_str cmd (match m with V5 => DISPATCH_V5 | V1 => DISPATCH_V1 end) with
      | None => raise (Py KeyError)
      | Some opname =>
          match run_operation m opname req with
          | None => raise (Py NotImplementedErr)
          | Some op =>
              r <- op ;;
              let '(code, out) := r in
              if (code <? 0)%Z then ret (err code) else
              match out with
              | None => raise (Py IndexError)           (* operation_result[1] on a 1-tuple *)
              | Some fields =>
                  ret (JObj (filter (fun kv => negb (str_eqb (fst kv) KEY_ERRORCODE)) fields
                             ++ [(KEY_ERRORCODE, JInt code)]))
              end
          end
      end
  end.

End WithEnv.
