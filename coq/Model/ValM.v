(* The value kit of Py/Val.v lifted to the device monad: computations that exchange APDUs with the
   device, read and write the manager's state and raise the middleware's own exception classes.
   Used by the second backend of tools/gen_src.py (Gen/SrcM.v).  Inside module MV every operation of
   the pure kit has a monadic namesake, so that the translator emits the same text for both backends.
   Executable definitions only. *)
From PowHsm Require Export Py.ValGen Model.Device Model.Pin.

Inductive xr (A : Type) := XOk (a : A) | XRaise (e : exn) | XStuck.
Arguments XOk {A} a.
Arguments XRaise {A} e.
Arguments XStuck {A}.

Definition pm (A : Type) := world -> xr A * world.

Definition mret {A} (a : A) : pm A := fun w => (XOk a, w).
Definition mraise {A} (e : exn) : pm A := fun w => (XRaise e, w).
Definition mstuck {A} : pm A := fun w => (XStuck, w).
Definition mbind {A B} (m : pm A) (f : A -> pm B) : pm B :=
  fun w => match m w with
           | (XOk a, w') => f a w'
           | (XRaise e, w') => (XRaise e, w')
           | (XStuck, w') => (XStuck, w')
           end.

(* a pure computation inside the monad: a Python built-in exception becomes the model's Py e *)
Definition lift {A} (p : pr A) : pm A :=
  fun w => (match p with POk a => XOk a | PRaise e => XRaise (Py e) | PStuck => XStuck end, w).

(* a computation of the hand-written models inside pm *)
Definition of_M {A} (m : M A) : pm A :=
  fun w => match m w with (Ok a, w') => (XOk a, w') | (Exn e, w') => (XRaise e, w') end.

(* `except` patterns: a built-in exception class, or a class of the generated hierarchy (by id) *)
Inductive xpat := XPy (e : pyexc) | XCls (c : N).

Definition xpat_matches (e : exn) (p : xpat) : bool :=
  match p with
  | XPy x => match e with Py y => pyexc_eqb x y | _ => false end
  | XCls c => exn_isa e c
  end.

Module MV.

Definition POk {A} (a : A) : pm A := mret a.
Definition PRaise {A} (e : pyexc) : pm A := mraise (Py e).
Definition PRaiseX {A} (e : exn) : pm A := mraise e.
Definition PStuck {A} : pm A := mstuck.
Definition pbind {A B} (m : pm A) (f : A -> pm B) : pm B := mbind m f.
Definition pmap {A B} (f : A -> B) (m : pm A) : pm B := mbind m (fun a => mret (f a)).
Definition vbool (m : pm bool) : pm pv := pmap VBool m.

Definition pif {A} (c : pm pv) (t e : pm A) : pm A :=
  mbind c (fun v => if py_truth v then t else e).
Definition py_and (a b : pm pv) : pm pv := mbind a (fun v => if py_truth v then b else mret v).
Definition py_or (a b : pm pv) : pm pv := mbind a (fun v => if py_truth v then mret v else b).
Definition py_not (a : pm pv) : pm pv := pmap (fun v => VBool (negb (py_truth v))) a.

(* try: m  except <patterns> [as e]: h e ;  catch_all = except Exception / BaseException / bare *)
Definition ptry {A} (m : pm A) (catch_all : bool) (pats : list xpat) (h : exn -> pm A) : pm A :=
  fun w => match m w with
           | (XRaise e, w') => if catch_all || existsb (xpat_matches e) pats then h e w' else (XRaise e, w')
           | other => other
           end.

(* try: body  except ...: handler   - body and handler both yield a tagged outcome ([VInt 2; value] = return,
   [VInt 1; state] = fell through) which the continuation k dispatches on *)
Definition ptry_k {A} (m : pm pv) (catch_all : bool) (pats : list xpat) (h : exn -> pm pv) (k : pv -> pm A)
  : pm A :=
  fun w => match m w with
           | (XOk v, w') => k v w'
           | (XRaise e, w') => if catch_all || existsb (xpat_matches e) pats then mbind (h e) k w'
                               else (XRaise e, w')
           | (XStuck, w') => (XStuck, w')
           end.

(* ---- pure operations, lifted ---- *)
Definition py_eq (a b : pv) : pm bool := lift (Val.py_eq a b).
Definition py_ne (a b : pv) : pm bool := lift (Val.py_ne a b).
Definition py_cmp (op : cmpop) (a b : pv) : pm bool := lift (Val.py_cmp op a b).
Definition py_in (x c : pv) : pm bool := lift (Val.py_in x c).
Definition py_not_in (x c : pv) : pm bool := lift (Val.py_not_in x c).
Definition py_len (v : pv) : pm pv := lift (Val.py_len v).
Definition py_getitem (c k : pv) : pm pv := lift (Val.py_getitem c k).
Definition py_setitem (c k v : pv) : pm pv := lift (Val.py_setitem c k v).
Definition py_slice (c : pv) (lo hi : option Z) : pm pv := lift (Val.py_slice c lo hi).
Definition py_slice_v (c : pv) (lo hi : option pv) : pm pv := lift (Val.py_slice_v c lo hi).
Definition py_getattr (o : pv) (n : string) : pm pv := lift (Val.py_getattr o n).
Definition py_setattr (o : pv) (n : string) (v : pv) : pm pv := lift (Val.py_setattr o n v).
Definition py_add (a b : pv) : pm pv := lift (Val.py_add a b).
Definition py_sub (a b : pv) : pm pv := lift (Val.py_sub a b).
Definition py_lshift (a b : pv) : pm pv := lift (Val.py_lshift a b).
Definition py_chr (v : pv) : pm pv := lift (Val.py_chr v).
Definition py_int (v : pv) : pm pv := lift (ValGen.py_int v).
Definition py_int_base (o : str -> Z -> option Z) (v b : pv) : pm pv := lift (Val.py_int_base o v b).
Definition py_str (v : pv) : pm pv := lift (Val.py_str v).
Definition py_enum_of (l : list Z) (v : pv) : pm pv := lift (Val.py_enum_of l v).
Definition py_fromhex (v : pv) : pm pv := lift (Val.py_fromhex v).
Definition py_isdecimal (v : pv) : pm pv := lift (ValGen.py_isdecimal v).
Definition py_startswith (v p : pv) : pm pv := lift (Val.py_startswith v p).
Definition py_split (v p : pv) : pm pv := lift (Val.py_split v p).
Definition py_hex (v : pv) : pm pv := lift (Val.py_hex v).
Definition py_enum_name (tbl : list (Z * str)) (v : pv) : pm pv := lift (Val.py_enum_name tbl v).
Definition py_lower (v : pv) : pm pv := lift (Val.py_lower v).
Definition py_encode_ascii (v : pv) : pm pv := lift (Val.py_encode_ascii v).
Definition py_from_bytes_be (v : pv) : pm pv := lift (Val.py_from_bytes_be v).
Definition py_fmt_field (v : pv) : pm str := lift (Val.py_fmt_field v).
Definition py_list_append (l x : pv) : pm pv := lift (Val.py_list_append l x).
Definition py_list_pop (l : pv) : pm pv := lift (Val.py_list_pop l).
Definition py_dict_get (d k : pv) : pm pv := lift (Val.py_dict_get d k).
Definition py_iter (v : pv) : pm (list pv) := lift (Val.py_iter v).
Definition py_to_bytes_le (v k : pv) : pm pv := lift (Val.py_to_bytes_le v k).
Definition py_eq_obj (a b : pv) : pm bool := lift (Val.py_eq_obj a b).
Definition py_to_bytes_be (v k : pv) : pm pv := lift (Val.py_to_bytes_be v k).
Definition py_range (v : pv) : pm pv := lift (Val.py_range v).
Definition py_enumerate (c st : pv) : pm pv := lift (Val.py_enumerate c st).
Definition py_get_default (d k dflt : pv) : pm pv := lift (Val.py_get_default d k dflt).
Definition py_enum_member (ms : list pv) (v : pv) : pm pv := lift (Val.py_enum_member ms v).

(* ---- operations taking computations ---- *)
Fixpoint py_all (l : list pv) (f : pv -> pm pv) : pm pv :=
  match l with
  | [] => mret (VBool true)
  | x :: r => mbind (f x) (fun v => if py_truth v then py_all r f else mret (VBool false))
  end.
Fixpoint py_any (l : list pv) (f : pv -> pm pv) : pm pv :=
  match l with
  | [] => mret (VBool false)
  | x :: r => mbind (f x) (fun v => if py_truth v then mret (VBool true) else py_any r f)
  end.
Definition py_all_in (c : pv) (f : pv -> pm pv) : pm pv := mbind (py_iter c) (fun l => py_all l f).
Definition py_any_in (c : pv) (f : pv -> pm pv) : pm pv := mbind (py_iter c) (fun l => py_any l f).

Fixpoint pmap_list (l : list pv) (f : pv -> pm pv) : pm (list pv) :=
  match l with
  | [] => mret []
  | x :: r => mbind (f x) (fun y => mbind (pmap_list r f) (fun ys => mret (y :: ys)))
  end.
Definition py_list_map (f : pv -> pm pv) (c : pv) : pm pv :=
  mbind (py_iter c) (fun l => pmap VList (pmap_list l f)).

Fixpoint pfold (l : list pv) (acc : pv) (body : pv -> pv -> pm pv) : pm pv :=
  match l with
  | [] => mret acc
  | x :: r => mbind (body acc x) (fun acc' => pfold r acc' body)
  end.
Definition py_for (c : pv) (acc : pv) (body : pv -> pv -> pm pv) : pm pv :=
  mbind (py_iter c) (fun l => pfold l acc body).

(* sorted(c, key=f) where the keys are bytes objects; keys are computed for every element first, in order *)
Fixpoint keys_of (l : list pv) (f : pv -> pm pv) : pm (list (bytes * pv)) :=
  match l with
  | [] => mret []
  | x :: r => mbind (f x) (fun k => match k with
                                    | VBytes kb => mbind (keys_of r f) (fun rest => mret ((kb, x) :: rest))
                                    | _ => mstuck
                                    end)
  end.
Definition py_sorted_by (f : pv -> pm pv) (c : pv) : pm pv :=
  mbind (py_iter c) (fun l => mbind (keys_of l f) (fun kv => mret (VList (sort_keyed kv)))).

(* for x in c with `return` inside the body: the body yields [VInt 0; state] (go on) or [VInt 2; value]
   (return); the loop yields [VInt 1; state] when the sequence is exhausted, or the [VInt 2; value] *)
Fixpoint pfold_t (l : list pv) (acc : pv) (body : pv -> pv -> pm pv) : pm pv :=
  match l with
  | [] => mret (VList [VInt 1%Z; acc])
  | x :: r => mbind (body acc x) (fun o =>
                match o with
                | VList [VInt 0%Z; acc'] => pfold_t r acc' body
                | VList [VInt 2%Z; v] => mret (VList [VInt 2%Z; v])
                | _ => mstuck
                end)
  end.
Definition py_for_t (c : pv) (acc : pv) (body : pv -> pv -> pm pv) : pm pv :=
  mbind (py_iter c) (fun l => pfold_t l acc body).

(* the same with `break` as well: the body may also yield [VInt 1; state] (leave the loop) *)
Fixpoint pfold_tb (l : list pv) (acc : pv) (body : pv -> pv -> pm pv) : pm pv :=
  match l with
  | [] => mret (VList [VInt 1%Z; acc])
  | x :: r => mbind (body acc x) (fun o =>
                match o with
                | VList [VInt 0%Z; acc'] => pfold_tb r acc' body
                | VList [VInt 1%Z; acc'] => mret (VList [VInt 1%Z; acc'])
                | VList [VInt 2%Z; v] => mret (VList [VInt 2%Z; v])
                | _ => mstuck
                end)
  end.
Definition py_for_tb (c : pv) (acc : pv) (body : pv -> pv -> pm pv) : pm pv :=
  mbind (py_iter c) (fun l => pfold_tb l acc body).

(* loops: the body returns [VInt tag; payload] with tag 0 = go on (payload = state), 1 = leave the loop
   (payload = state), 2 = return from the function (payload = value) *)
Fixpoint py_while (fuel : nat) (st : pv) (body : pv -> pm pv) : pm pv :=
  match fuel with
  | O => mstuck
  | S f =>
      mbind (body st) (fun r =>
        match r with
        | VList [VInt 0%Z; st'] => py_while f st' body
        | VList [VInt 1%Z; st'] => mret (VList [VInt 1%Z; st'])
        | VList [VInt 2%Z; v] => mret (VList [VInt 2%Z; v])
        | _ => mstuck
        end)
  end.

(* ---- the device and the manager's state ---- *)

(* self._send_command(command, data): one exchange of the model's device *)
Definition m_send_command (cmd data : pv) : pm pv :=
  match vint cmd, data with
  | Some c, VBytes d => if (c <? 0)%Z then mstuck
                        else pmap VBytes (of_M (send_command (Z.to_N c) d))
  | _, _ => mstuck
  end.

(* ---- the transport under _send_command: self.dongle.exchange(apdu, timeout=...) ----
   One exchange of the scripted device seen at the level of the transport library: the answer's data, or the
   exception OBJECT the transport raises (as the fake transports of the harness and ledgerblue do):
   a status word -> CommException(message, sw); no answer in time -> CommException("Timeout", 0x6F00);
   a failed write -> BaseException("Error while writing"); a failed read -> OSError("read error");
   anything else -> some other exception.  Result: [VInt 0; data] or [VInt 1; exception object]. *)
Definition exc_obj_of_resp (r : resp) : option pv :=
  match r with
  | Data _ => None
  | Status sw => Some (VObj "CommException" [("sw", VInt (Z.of_N sw)); ("message", VStr (s "Invalid status"))])
  | TimeoutR => Some (VObj "CommException" [("sw", VInt 28416%Z); ("message", VStr (s "Timeout"))])
  | WriteErr => Some (VObj "BaseException" [("args", VList [VStr (s "Error while writing")])])
  | ReadErr => Some (VObj "OSError" [("args", VList [VStr (s "read error")])])
  | Raise => Some (VObj "RuntimeError" [("args", VList [])])
  end.

Definition m_exchange (apdu : pv) : pm pv :=
  match apdu with
  | VBytes a =>
      fun w =>
        let r := match script w with [] => TimeoutR | r :: _ => r end in
        let w' := push (Apdu a r) (match script w with [] => w | _ :: rest => set_script w rest end) in
        (XOk (match r, exc_obj_of_resp r with
              | Data b, _ => VList [VInt 0%Z; VBytes b]
              | _, Some e => VList [VInt 1%Z; e]
              | _, None => VNone
              end), w')
  | _ => mstuck
  end.

(* raise HSM2DongleErrorResult(code) *)
Definition m_raise_error_result (code : pv) : pm pv :=
  match vint code with
  | Some c => if (c <? 0)%Z then mstuck else mraise (ErrorResult (Z.to_N c))
  | None => mstuck
  end.

(* struct.pack("BB%ds" % len(data), a, b, data): two unsigned bytes then the data; out-of-range leaves the subset *)
Definition py_struct_pack_BBs (a b data : pv) : pm pv :=
  match vint a, vint b, data with
  | Some x, Some y, VBytes d =>
      if ((0 <=? x) && (x <? 256) && (0 <=? y) && (y <? 256))%Z
      then mret (VBytes (Z.to_N x :: Z.to_N y :: d)) else mstuck
  | _, _, _ => mstuck
  end.

(* bytes([a, b, ...]) / bytes(x) for a list of ints in 0..255 or a bytes object *)
Definition py_bytes (v : pv) : pm pv :=
  match v with
  | VBytes b => mret (VBytes b)
  | VList l =>
      match all_some (map (fun x => match vint x with
                                    | Some z => if (0 <=? z)%Z && (z <? 256)%Z then Some (Z.to_N z) else None
                                    | None => None end) l) with
      | Some b => mret (VBytes b)
      | None => mstuck
      end
  | _ => mstuck
  end.

(* e.error_code of a caught HSM2DongleErrorResult *)
Definition m_error_code (e : exn) : pm pv :=
  match e with ErrorResult sw => mret (VInt (Z.of_N sw)) | _ => mstuck end.

(* the protocol object's reconnection flag lives in the world *)
Definition m_get_comm_issue : pm pv := fun w => (XOk (VBool (comm_issue w)), w).
Definition m_set_comm_issue (v : pv) : pm pv :=
  match v with
  | VBool b => fun w => (XOk VNone, set_comm_issue w b)
  | _ => mstuck
  end.

Definition m_connect : pm pv := pmap (fun _ => VNone) (of_M connect).

(* the PIN object of ledger/pin.py (self.pin) lives in the world: its methods are those of Model/Pin.v *)
Definition m_pin_get_pin : pm pv := pmap VBytes (of_M pin_get_pin).
Definition m_pin_needs_change : pm pv := pmap VBool (of_M pin_needs_change_m).
Definition m_pin_get_new_pin : pm pv :=
  pmap (fun o => match o with Some b => VBytes b | None => VNone end) (of_M pin_get_new_pin).
Definition m_pin_start_change : pm pv := pmap (fun _ => VNone) (of_M pin_start_change).
Definition m_pin_commit_change : pm pv := pmap (fun _ => VNone) (of_M pin_commit_change).
Definition m_pin_abort_change : pm pv := pmap (fun _ => VNone) (of_M pin_abort_change).

(* try: m  finally: raise e   - whatever m did (value, return, exception) is replaced by e *)
Definition pfinally_raise {A} (m : pm pv) (e : exn) : pm A :=
  fun w => match m w with
           | (XStuck, w') => (XStuck, w')
           | (_, w') => (XRaise e, w')
           end.
Definition m_disconnect : pm pv := pmap (fun _ => VNone) (of_M disconnect).

End MV.
