(* admin/verify_ledger_attestation.py (51-201), admin/verify_sgx_attestation.py (41-128) and
   admin/attestation_utils.py (message layout, public keys loading / hashing), as functions of
   the certificate's verdict map, the operator's public keys and the hash function. *)
From PowHsm Require Export Py.Base Gen.Tables Model.BlockOps Model.CertV2.

(* a target's entry in the result of validate_and_get_values *)
Inductive tres :=
| TValid (value : bytes) (tweak : option bytes)    (* (True, value, tweak) with the hex decoded *)
| TInvalid.                                        (* (False, name) *)

(* one operator public key: what secp256k1 serialises it to *)
Record opkey := mkKey { k_path : str; k_uncompressed : bytes; k_compressed : bytes }.

Definition is_digit (c : N) : bool := (48 <=? c) && (c <=? 57).
Definition starts_with (p b : bytes) : bool := bytes_eqb (firstn (length p) b) p.

(* re `^HSM:UI:([2345].[0-9])` on bytes: '.' is any byte but newline *)
Definition ui_header_len : nat := 10.
Definition is_ui_header (m : bytes) : bool :=
  starts_with (s "HSM:UI:") m &&
  match skipn 7 m with
  | a :: b :: c :: _ => mem_N a [50; 51; 52; 53] && negb (b =? 10) && is_digit c
  | _ => false
  end.

Definition legacy_header_len : nat := 14.
Definition is_legacy_signer_header (m : bytes) : bool :=
  starts_with (s "HSM:SIGNER:") m &&
  match skipn 11 m with
  | a :: b :: c :: _ => mem_N a [50; 51; 52; 53] && negb (b =? 10) && is_digit c
  | _ => false
  end.

(* PowHsmAttestationMessage.HEADER_REGEX `^POWHSM:(5.[0-9])::` *)
Definition powhsm_header_len : nat := N.to_nat POWHSM_HEADER_LEN.
Definition is_powhsm_header (m : bytes) : bool :=
  starts_with (s "POWHSM:") m &&
  match skipn 7 m with
  | a :: b :: c :: d :: e :: _ => (a =? 53) && negb (b =? 10) && is_digit c && (d =? 58) && (e =? 58)
  | _ => false
  end.

Record powhsm_msg := mkPm {
  pm_version : bytes; pm_platform : bytes; pm_ud_value : bytes; pm_keys_hash : bytes;
  pm_best_block : bytes; pm_last_signed_tx : bytes; pm_timestamp : N
}.

Definition pm_field (body : bytes) (name : str) : bytes :=
  sub body (field_of LAYOUT_PowHsmAttestationMessage name).

(* PowHsmAttestationMessage(value): None = ValueError (header, exact length, non-ASCII platform) *)
Definition parse_powhsm (m : bytes) : option powhsm_msg :=
  if negb (is_powhsm_header m) then None else
  if negb (nlen m =? POWHSM_HEADER_LEN + SIZEOF_PowHsmAttestationMessage) then None else
  let body := skipn powhsm_header_len m in
  let plat := pm_field body (s "platform") in
  if negb (forallb (fun c => c <? 128) plat) then None else
  Some (mkPm (firstn 3 (skipn 7 m)) plat (pm_field body (s "ud_value"))
             (pm_field body (s "public_keys_hash")) (pm_field body (s "best_block"))
             (pm_field body (s "last_signed_tx"))
             (from_bytes_be (pm_field body (s "timestamp")))).

Section WithHash.
Variable hash : bytes -> bytes.

(* compute_pubkeys_hash: sha256 over the uncompressed keys in path order; None = AdminError *)
Definition sorted_keys (ks : list opkey) : list opkey :=
  sort_by_key (map (fun k => (k_path k, k)) ks).

Definition pubkeys_hash (ks : list opkey) : option bytes :=
  match ks with
  | [] => None
  | _ => Some (hash (concat (map k_uncompressed (sorted_keys ks))))
  end.

Fixpoint find_key (p : str) (ks : list opkey) : option opkey :=
  match ks with
  | [] => None
  | k :: r => if str_eqb (k_path k) p then Some k else find_key p r
  end.

Record ui_report := mkUi {
  ur_ud_value : bytes; ur_public_key : bytes; ur_signer_hash : bytes; ur_signer_iteration : N;
  ur_ui_hash : bytes; ur_ui_version : bytes
}.

Record signer_report := mkSr {
  sr_keys_hash : bytes; sr_signer_hash : bytes; sr_version : bytes;
  sr_powhsm : option powhsm_msg          (* None for the legacy message format *)
}.

(* the Ledger verification after the certificate was validated: None = any error *)
Definition verify_ledger (ks : list opkey) (ui signer : option tres) : option (ui_report * signer_report) :=
  match pubkeys_hash ks, find_key VL_UI_DERIVATION_PATH ks with
  | Some kh, Some uik =>
      match ui with
      | Some (TValid um (Some uih)) =>
          if negb (is_ui_header um) then None else
          let o1 := ui_header_len in
          let o2 := (o1 + N.to_nat VL_UD_VALUE_LENGTH)%nat in
          let o3 := (o2 + N.to_nat VL_PUBKEY_COMPRESSED_LENGTH)%nat in
          let o4 := (o3 + N.to_nat VL_SIGNER_HASH_LENGTH)%nat in
          let o5 := (o4 + N.to_nat VL_SIGNER_ITERATION_LENGTH)%nat in
          let ui_pk := slice um o2 o3 in
          if negb (bytes_eqb ui_pk (k_compressed uik)) then None else
          let ur := mkUi (slice um o1 o2) ui_pk (slice um o3 o4) (from_bytes_be (slice um o4 o5)) uih
                         (firstn 3 (skipn 7 um)) in
          match signer with
          | Some (TValid sm (Some sh)) =>
              if is_legacy_signer_header sm then
                let reported := skipn legacy_header_len sm in
                if negb (match skipn (legacy_header_len + N.to_nat VL_PUBLIC_KEYS_HASH_LENGTH) sm with
                         | [] => true | _ => false end) then None else
                if bytes_eqb reported kh
                then Some (ur, mkSr kh sh (firstn 3 (skipn 11 sm)) None) else None
              else if is_powhsm_header sm then
                match parse_powhsm sm with
                | Some pm => if bytes_eqb (pm_keys_hash pm) kh
                             then Some (ur, mkSr kh sh (pm_version pm) (Some pm)) else None
                | None => None
                end
              else None
          | _ => None
          end
      | _ => None
      end
  | _, _ => None
  end.

Record sgx_report := mkSg {
  sg_keys_hash : bytes; sg_mrenclave : bytes; sg_mrsigner : bytes; sg_powhsm : powhsm_msg
}.

(* the SGX verification: quote target valid with (custom message, quote bytes) *)
Definition verify_sgx (root_self_valid : bool) (ks : list opkey) (quote : option (bytes * bytes))
  : option sgx_report :=
  if negb root_self_valid then None else
  match pubkeys_hash ks, quote with
  | Some kh, Some (custom, q) =>
      match parse_powhsm custom with
      | Some pm =>
          if negb (bytes_eqb (pm_keys_hash pm) kh) then None else
          let body := sub q (field_of LAYOUT_SgxQuote (s "report_body")) in
          Some (mkSg kh (sub body (field_of LAYOUT_SgxReportBody (s "mrenclave")))
                     (sub body (field_of LAYOUT_SgxReportBody (s "mrsigner"))) pm)
      | None => None
      end
  | _, _ => None
  end.

End WithHash.
