(* admin/certificate_v1.py and the shared parts of certificate_v2.py:
   from_jsonfile dispatch, element factories, _parse (237-271) with its cycle check,
   validate_and_get_values (180-210), to_dict.  Signature verification is an oracle. *)
From PowHsm Require Export Py.Base Py.Json Gen.Tables Model.CommProtocol.

(* ---------- elements ---------- *)

Inductive ekind := KV1 | KQuote | KAttKey | KX509.

Record celem := mkElem {
  ce_name : json;            (* v1: one of VALID_NAMES; v2: any hashable JSON value *)
  ce_signed_by : json;
  ce_kind : ekind;
  ce_tweak : option str;     (* v1 only *)
  ce_message : str;          (* hex (v1, quote, attkey) or base64 text (x509) as stored *)
  ce_signature : str;
  ce_extra1 : str;           (* quote: custom_data hex; attkey: key hex *)
  ce_extra2 : str            (* attkey: auth_data hex *)
}.

Inductive load_result (A : Type) := LOk (a : A) | LError.   (* LError = any exception *)
Arguments LOk {A} a.
Arguments LError {A}.

Definition nonempty_hex_json (j : option json) : option str :=
  match j with
  | Some (JStr x) => if is_nonempty_hex_string x then Some x else None
  | _ => None
  end.

(* auth_data of an attestation key element: hex, and (since fix 36570d0) possibly empty *)
Definition hex_or_empty_json (j : option json) : option str :=
  match j with
  | Some (JStr []) => Some []
  | Some (JStr x) => if is_nonempty_hex_string x then Some x else None
  | _ => None
  end.

Definition json_in_strs (j : json) (l : list str) : bool :=
  match j with JStr x => str_in x l | _ => false end.

(* HSMCertificateElement(element_map) *)
Definition elem_v1 (item : json) : load_result celem :=
  match item with
  | JObj m =>
      match jget (s "name") m with
      | Some nm =>
          if negb (json_in_strs nm CERT_V1_VALID_NAMES) then LError else
          match jget (s "signed_by") m with
          | None => LError
          | Some sb =>
              let tw := match jget (s "tweak") m with
                        | None => Some None
                        | Some t => match nonempty_hex_json (Some t) with
                                    | Some x => Some (Some x) | None => None end
                        end in
              match tw, nonempty_hex_json (jget (s "message") m),
                    nonempty_hex_json (jget (s "signature") m) with
              | Some tweak, Some msg, Some sg => LOk (mkElem nm sb KV1 tweak msg sg [] [])
              | _, _, _ => LError
              end
          end
      | None => LError
      end
  | _ => LError
  end.

(* standard-library / third-party codecs are oracles (finite tables supplied by the harness):
   b64_norm x  = Some (b64encode (b64decode x))  or None when b64decode raises *)
Section WithCodecs.
Variable b64_norm : str -> option str.

Definition canon_hex (x : str) : str := match fromhex x with Some b => hex b | None => x end.

(* HSMCertificateV2Element.from_dict(element_map) *)
Definition elem_v2 (item : json) : load_result celem :=
  match item with
  | JObj m =>
      match jget (s "type") m with
      | Some (JStr ty) =>
          if negb (str_in ty CERT_V2_TYPES) then LError else
          match jget (s "name") m, jget (s "signed_by") m with
          | Some nm, Some sb =>
              if str_eqb ty (s "sgx_quote") then
                match nonempty_hex_json (jget (s "message") m),
                      nonempty_hex_json (jget (s "custom_data") m),
                      nonempty_hex_json (jget (s "signature") m) with
                | Some msg, Some cd, Some sg =>
                    LOk (mkElem nm sb KQuote None (canon_hex msg) (canon_hex sg) (canon_hex cd) [])
                | _, _, _ => LError
                end
              else if str_eqb ty (s "sgx_attestation_key") then
                match nonempty_hex_json (jget (s "message") m),
                      nonempty_hex_json (jget (s "key") m),
                      hex_or_empty_json (jget (s "auth_data") m),
                      nonempty_hex_json (jget (s "signature") m) with
                | Some msg, Some k, Some ad, Some sg =>
                    LOk (mkElem nm sb KAttKey None (canon_hex msg) (canon_hex sg) (canon_hex k)
                                (canon_hex ad))
                | _, _, _, _ => LError
                end
              else
                match jget (s "message") m with
                | Some (JStr msg) => match b64_norm msg with
                                     | Some cm => LOk (mkElem nm sb KX509 None cm [] [] [])
                                     | None => LError
                                     end
                | _ => LError
                end
          | _, _ => LError
          end
      | _ => LError
      end
  | _ => LError
  end.

(* ---------- the element table: a Python dict keyed by name (last wins, first position) ---------- *)

Definition etable := list (json * celem).

Fixpoint tbl_get (k : json) (t : etable) : option celem :=
  match t with
  | [] => None
  | (k', e) :: r => if key_eqb k k' then Some e else tbl_get k r
  end.

Fixpoint tbl_set (k : json) (e : celem) (t : etable) : etable :=
  match t with
  | [] => [(k, e)]
  | (k', e') :: r => if key_eqb k k' then (k', e) :: r else (k', e') :: tbl_set k e r
  end.

Record cert := mkCert { c_version : Z; c_targets : list json; c_elems : etable }.

Definition root_name (version : Z) : str :=
  if (version =? 2)%Z then CERT_V2_ROOT else CERT_V1_ROOT.

(* the walk of _parse for one target: names visited so far; fuel = number of elements + 1.
   true = has a path to the root; false = ValueError (cycle or missing signer) *)
Fixpoint path_check (fuel : nat) (root : str) (t : etable) (visited : list json) (cur : celem)
  : option bool (* None = unhashable signed_by: TypeError *) :=
  match fuel with
  | O => Some false              (* unreachable: see parse_terminates *)
  | S f =>
      if existsb (key_eqb (ce_name cur)) visited then Some false else
      if py_eq_str (ce_signed_by cur) root then Some true else
      if negb (hashable (ce_signed_by cur)) then None else
      match tbl_get (ce_signed_by cur) t with
      | None => Some false
      | Some nxt => path_check f root t (visited ++ [ce_name cur]) nxt
      end
  end.

Fixpoint build_table (factory : json -> load_result celem) (items : list json) (t : etable)
  : load_result etable :=
  match items with
  | [] => LOk t
  | it :: r =>
      match factory it with
      | LError => LError
      | LOk e => if hashable (ce_name e) then build_table factory r (tbl_set (ce_name e) e t)
                 else LError
      end
  end.

Fixpoint check_targets (root : str) (t : etable) (targets : list json) : bool :=
  match targets with
  | [] => true
  | tg :: r =>
      hashable tg &&
      match tbl_get tg t with
      | None => false
      | Some e => match path_check (S (length t)) root t [] e with
                  | Some true => check_targets root t r
                  | _ => false
                  end
      end
  end.

(* HSMCertificate(certificate_map) for the class selected by version *)
Definition parse_cert (version : Z) (m : obj) : load_result cert :=
  match jget (s "targets") m,
        (* `for item in certificate_map["elements"]`: a list; an empty dict or an empty string
           iterate to nothing; iterating a non-empty dict/string yields strings, which no
           element factory accepts; anything else is not iterable *)
        match jget (s "elements") m with
        | Some (JArr items) => Some (JArr items)
        | Some (JObj []) | Some (JStr []) => Some (JArr [])
        | _ => None
        end with
  | Some (JArr targets), Some (JArr items) =>
      match build_table (if (version =? 2)%Z then elem_v2 else elem_v1) items [] with
      | LError => LError
      | LOk t => if check_targets (root_name version) t targets
                 then LOk (mkCert version targets t) else LError
      end
  | _, _ => LError
  end.

(* from_jsonfile on the parsed document *)
Definition load_cert (doc : json) : load_result cert :=
  match doc with
  | JObj m =>
      match jget (s "version") m with
      | Some v =>
          if negb (hashable v) then LError else
          if py_eq_int v 1 then parse_cert 1 m
          else if py_eq_int v 2 then parse_cert 2 m
          else LError
      | None => LError
      end
  | _ => LError
  end.



(* ---------- validation ---------- *)

(* a certifier is the root of trust or an element *)
Inductive certifier := ByRoot | ByElem (e : celem).

Section WithLink.
(* is_valid(certifier) as an oracle *)
Variable link_ok : celem -> certifier -> bool.

(* chain from the target up to (excluding) the root, target first; fuel bounds the walk *)
Fixpoint chain_up (fuel : nat) (root : str) (t : etable) (cur : celem) : option (list celem) :=
  match fuel with
  | O => None
  | S f =>
      if py_eq_str (ce_signed_by cur) root then Some [cur] else
      match tbl_get (ce_signed_by cur) t with
      | None => None
      | Some nxt => match chain_up f root t nxt with
                    | Some l => Some (cur :: l)
                    | None => None
                    end
      end
  end.

Inductive verdict := Valid (e : celem) | Invalid (failing : json).

(* walk from the topmost element down to the target *)
Fixpoint validate_down (cf : certifier) (path : list celem) : option verdict :=
  match path with
  | [] => None
  | e :: rest =>
      if negb (link_ok e cf) then Some (Invalid (ce_name e)) else
      match rest with
      | [] => Some (Valid e)
      | _ => validate_down (ByElem e) rest
      end
  end.

Definition validate_target (c : cert) (tg : json) : option verdict :=
  match tbl_get tg (c_elems c) with
  | None => None
  | Some e =>
      match chain_up (S (length (c_elems c))) (root_name (c_version c)) (c_elems c) e with
      | None => None
      | Some up => validate_down ByRoot (rev up)
      end
  end.

(* result map: target -> verdict, as a Python dict (later duplicates overwrite) *)
Definition validate_all (c : cert) : list (json * option verdict) :=
  map (fun tg => (tg, validate_target c tg)) (c_targets c).

End WithLink.

(* ---------- v1 values ---------- *)

(* EXTRACTORS[name](message bytes) *)
Definition v1_value (name : str) (msg : bytes) : bytes :=
  if str_eqb name (s "device") then last_n msg (Nat.min 65 (length msg))
  else if str_eqb name (s "attestation") then skipn 1 msg
  else msg.

(* to_dict of an element / certificate (what save_to_jsonfile writes); None = to_dict raises *)
Definition elem_to_json (e : celem) : option json :=
  match ce_kind e with
  | KV1 =>
      Some (JObj ([(s "name", ce_name e); (s "message", JStr (ce_message e));
             (s "signature", JStr (ce_signature e)); (s "signed_by", ce_signed_by e)]
            ++ match ce_tweak e with Some t => [(s "tweak", JStr t)] | None => [] end))
  | KQuote =>
      Some (JObj [(s "name", ce_name e); (s "type", JStr (s "sgx_quote"));
            (s "message", JStr (ce_message e)); (s "custom_data", JStr (ce_extra1 e));
            (s "signature", JStr (ce_signature e)); (s "signed_by", ce_signed_by e)])
  | KAttKey =>
      (* since fix 68123f6 the message and the key are written back as they were loaded *)
      Some (JObj [(s "name", ce_name e); (s "type", JStr (s "sgx_attestation_key"));
            (s "message", JStr (ce_message e)); (s "key", JStr (ce_extra1 e));
            (s "auth_data", JStr (ce_extra2 e));
            (s "signature", JStr (ce_signature e)); (s "signed_by", ce_signed_by e)])
  | KX509 =>
      Some (JObj [(s "name", ce_name e); (s "type", JStr (s "x509_pem"));
            (s "message", JStr (ce_message e)); (s "signed_by", ce_signed_by e)])
  end.

Definition cert_to_json (c : cert) : option json :=
  match all_some (map (fun kv => elem_to_json (snd kv)) (c_elems c)) with
  | Some els => Some (JObj [(s "version", JInt (c_version c)); (s "targets", JArr (c_targets c));
                            (s "elements", JArr els)])
  | None => None
  end.

End WithCodecs.
