(* ledger/block_utils.py and the block operations of ledger/hsm2dongle.py:
   advance_blockchain (965-1013), update_ancestor (1022-1057), _do_block_operation (1136-1300),
   _send_block_header (1306-1409). Keccak-256 is an oracle supplied by the caller. *)
From PowHsm Require Export Model.Sign Model.Rlp Model.Sha256.

(* ---------- block_utils ---------- *)

(* len(x) and x[:-k] work on both bytes and lists in Python *)
Definition item_len (i : item) : nat :=
  match i with RStr b => length b | RLst l => length l end.
Definition item_drop_last (i : item) (k : nat) : item :=
  match i with RStr b => RStr (drop_last b k) | RLst l => RLst (drop_last l k) end.

(* remove_mm_fields_if_present(raw, leave_btcblock, hex=False) on decoded hex;
   raw = None models a string bytes.fromhex rejects.  None = ValueError *)
Definition remove_mm_fields (raw : option bytes) (leave_btcblock : bool) : option bytes :=
  match raw with
  | None => None
  | Some b =>
      match decode b with
      | None => None
      | Some blk =>
          let n := item_len blk in
          if negb ((17 <=? n) && (n <=? 20))%nat then None else
          let kept :=
            if (19 <=? n)%nat
            then item_drop_last blk (if leave_btcblock then 2 else 3)
            else if leave_btcblock then blk else item_drop_last blk 1 in
          Some (encode kept)
      end
  end.

(* rlp_first_element_list_payload_length; None = ValueError (IndexError cannot happen: the
   argument is always a non-empty encoding) *)
Definition list_payload_length (bs : bytes) : option N :=
  match bs with
  | [] => None
  | b :: r =>
      if (192 <=? b) && (b <=? 247) then Some (b - 192)
      else if 248 <=? b then Some (from_bytes_be (firstn (N.to_nat (b - 247)) r))
      else None
  end.

Definition rlp_mm_payload_size (raw : option bytes) : option N :=
  match remove_mm_fields raw false with
  | Some e => list_payload_length e
  | None => None
  end.

(* get_coinbase_txn: last field of a 19/20-field header; None = ValueError.
   block[-1].hex(): a list-valued last field has no .hex() -> AttributeError (reported as
   Some None: "raised something that is not a ValueError") *)
Inductive cb_result := CbOk (b : bytes) | CbValueError | CbAttributeError.
Definition get_coinbase_txn (raw : option bytes) : cb_result :=
  match raw with
  | None => CbValueError
  | Some b =>
      match decode b with
      | None => CbValueError
      | Some blk =>
          let n := item_len blk in
          if negb ((19 <=? n) && (n <=? 20))%nat then CbValueError else
          match blk with
          | RLst l => match last l (RStr []) with
                      | RStr x => CbOk x
                      | RLst _ => CbAttributeError
                      end
          | RStr x => CbAttributeError   (* bytes[-1] is an int: no .hex() *)
          end
      end
  end.

Section WithKeccak.
Variable keccak : bytes -> bytes.

(* get_block_hash; None = ValueError *)
Definition get_block_hash (raw : option bytes) : option bytes :=
  match remove_mm_fields raw true with
  | Some e => Some (keccak e)
  | None => None
  end.

(* ---------- sorting brothers by block hash (bytes compare lexicographically) ---------- *)

Fixpoint bytes_leb (a b : bytes) : bool :=
  match a, b with
  | [], _ => true
  | _ :: _, [] => false
  | x :: a', y :: b' => if x <? y then true else if y <? x then false else bytes_leb a' b'
  end.

(* stable insertion sort on keys, as Python's sorted(key=...) *)
Fixpoint insert_by {A} (k : bytes) (v : A) (l : list (bytes * A)) : list (bytes * A) :=
  match l with
  | [] => [(k, v)]
  | (k', v') :: r => if bytes_leb k' k then (k', v') :: insert_by k v r else (k, v) :: l
  end.

Definition sort_by_key {A} (l : list (bytes * A)) : list A :=
  map snd (fold_left (fun acc kv => insert_by (fst kv) (snd kv) acc) l []).

(* ---------- the device exchange ---------- *)

Record blockop := mkBlockOp {
  bo_is_advance : bool;
  bo_cmd : N;
  bo_op_init : N; bo_op_header_meta : N; bo_op_header_chunk : N;
  bo_op_success : N; bo_op_partial : N;
  bo_op_bro_list_meta : N; bo_op_bro_meta : N; bo_op_bro_chunk : N;
  bo_init_errs : list (list N * Z); bo_init_default : Z;
  bo_meta_errs : list (list N * Z); bo_meta_default : Z;
  bo_brolist_errs : list (list N * Z); bo_brolist_default : Z;
  bo_chunk_errors : list (N * Z); bo_chunk_default : Z;
  bo_compute_meta : Z; bo_meta_catches_overflow : bool; bo_unexpected : Z; bo_ok_total : Z; bo_ok_partial : Z;
  bo_next_block : list N; bo_next_brother : list N
}.

Definition ADVANCE_OP : blockop :=
  mkBlockOp true CMD_ADVANCE ADV_OP_INIT ADV_OP_HEADER_META ADV_OP_HEADER_CHUNK
            ADV_OP_SUCCESS ADV_OP_PARTIAL ADV_OP_BROTHER_LIST_META ADV_OP_BROTHER_META
            ADV_OP_BROTHER_CHUNK
            ADV_INIT_ERRS ADV_INIT_DEFAULT ADV_META_ERRS ADV_META_DEFAULT
            ADV_BROLIST_ERRS ADV_BROLIST_DEFAULT ADV_CHUNK_ERRORS ADV_CHUNK_DEFAULT
            ADV_COMPUTE_META_RESULT ADV_COMPUTE_META_CATCHES_OVERFLOW RESP_ADV_ERROR_UNEXPECTED RESP_ADV_OK_TOTAL RESP_ADV_OK_PARTIAL
            ADV_NEXT_OPS_BLOCK ADV_NEXT_OPS_BROTHER.

Definition UPD_OP : blockop :=
  mkBlockOp false CMD_UPD_ANCESTOR UPD_OP_INIT UPD_OP_HEADER_META UPD_OP_HEADER_CHUNK
            UPD_OP_SUCCESS 0 0 0 0
            UPD_INIT_ERRS UPD_INIT_DEFAULT UPD_META_ERRS UPD_META_DEFAULT
            [] 0%Z UPD_CHUNK_ERRORS UPD_CHUNK_DEFAULT
            UPD_COMPUTE_META_RESULT UPD_COMPUTE_META_CATCHES_OVERFLOW RESP_UPD_ERROR_UNEXPECTED RESP_UPD_OK_TOTAL 0%Z
            UPD_NEXT_OPS_BLOCK [].

(* result of the operation: (True|False, code) -- only the code matters to the caller *)
Definition bo_result := (bool * Z)%type.

(* header = decoded hex of the block (None when the string is not hex).
   Returns inl response (True, last device answer) or inr failure code. *)
Definition send_block_header (o : blockop) (is_brother : bool) (raw : option bytes)
  : M (bytes + Z) :=
  let op_meta := if is_brother then bo_op_bro_meta o else bo_op_header_meta o in
  let op_chunk := if is_brother then bo_op_bro_chunk o else bo_op_header_chunk o in
  (* A. metadata *)
  match rlp_mm_payload_size raw with
  | None => ret (inr (bo_compute_meta o))
  | Some mm =>
      match to_bytes_be 2 (Z.of_N mm) with
      | None => if bo_meta_catches_overflow o then ret (inr (bo_compute_meta o))
                else raise (Py OverflowError)
      | Some mmb =>
      cb <- (if bo_is_advance o then
               match get_coinbase_txn raw with
               | CbOk tx => match coinbase_tx_get_hash tx with
                            | Some h => ret (Some h) | None => ret None end
               | CbValueError => ret None
               | CbAttributeError => if COINBASE_LIST_IS_VALUEERROR then ret None
                                     else raise (Py AttributeError)
               end
             else ret (Some [])) ;;
      match cb with
      | None => ret (inr (bo_compute_meta o))
      | Some cbh =>
          a <- on_error_result
                 (r <- send_command (bo_cmd o) (op_meta :: mmb ++ cbh) ;;
                  rop <- idxM r OFF_OPn ;;
                  if negb (rop =? op_chunk) then ret (inr (bo_unexpected o)) else
                  q <- idxM r OFF_DATAn ;; ret (inl q))
                 (fun sw => ret (inr (lookup_err sw (bo_meta_errs o) (bo_meta_default o)))) ;;
          match a with
          | inr c => ret (inr c)
          | inl req =>
              (* B. chunks *)
              let nexts := if is_brother then bo_next_brother o else bo_next_block o in
              match raw with
              | None => raise (Py ValueError)      (* unreachable: metadata needed the bytes *)
              | Some data =>
                  on_error_result
                    (cr <- send_data_in_chunks (bo_cmd o) op_chunk nexts data false req ;;
                     if fst cr then ret (inl (snd cr)) else ret (inr (bo_unexpected o)))
                    (fun sw => ret (inr (match assoc_N sw (bo_chunk_errors o) with
                                         | Some c => c | None => bo_chunk_default o end)))
              end
          end
      end
      end
  end.

Fixpoint send_brothers (o : blockop) (bros : list (option bytes)) (last : bytes)
  : M (bytes + Z) :=
  match bros with
  | [] => ret (inl last)
  | b :: rest =>
      r <- send_block_header o true b ;;
      match r with
      | inr c => ret (inr c)
      | inl resp => send_brothers o rest resp
      end
  end.

(* the per-block loop; brothers is the (already sorted) list aligned with blocks *)
Fixpoint block_loop (o : blockop) (blocks : list (option bytes))
         (brothers : list (list (option bytes))) : M bo_result :=
  match blocks with
  | [] => raise DongleError                      (* "unexpected state" *)
  | blk :: rest =>
      r <- send_block_header o false blk ;;
      match r with
      | inr c => ret (false, c)
      | inl resp =>
          rop <- idxM resp OFF_OPn ;;
          r2 <- (if bo_is_advance o && (rop =? bo_op_bro_list_meta o) then
                   bl <- of_opt (idx brothers 0) IndexError ;;
                   match to_bytes_be 1 (Z.of_nat (length bl)) with
                   | None => match ADV_BROCOUNT_OVERFLOW_RESULT with
                             | Some c => ret (inr c) | None => raise (Py OverflowError) end
                   | Some cnt =>
                   a <- on_error_result
                          (r <- send_command (bo_cmd o) (bo_op_bro_list_meta o :: cnt) ;;
                           (if (0 <? length bl)%nat then
                              rop2 <- idxM r OFF_OPn ;;
                              if negb (rop2 =? bo_op_bro_meta o) then ret (inr (bo_unexpected o))
                              else ret (inl r)
                            else ret (inl r)))
                          (fun sw => ret (inr (lookup_err sw (bo_brolist_errs o)
                                                          (bo_brolist_default o)))) ;;
                   match a with
                   | inr c => ret (inr c)
                   | inl r => send_brothers o bl r
                   end
                   end
                 else ret (inl resp)) ;;
          match r2 with
          | inr c => ret (false, c)
          | inl resp2 =>
              rop3 <- idxM resp2 OFF_OPn ;;
              if bo_is_advance o && (rop3 =? bo_op_partial o) then ret (true, bo_ok_partial o)
              else if rop3 =? bo_op_success o then ret (true, bo_ok_total o)
              else block_loop o rest (tl brothers)
          end
      end
  end.

Definition do_block_operation (o : blockop) (blocks : list (option bytes))
           (brothers : list (list (option bytes))) : M bo_result :=
  nb <- of_opt (to_bytes_be 4 (Z.of_nat (length blocks))) OverflowError ;;
  a <- on_error_result
         (r <- send_command (bo_cmd o) (bo_op_init o :: nb) ;;
          rop <- idxM r OFF_OPn ;;
          if negb (rop =? bo_op_header_meta o) then ret (inr (bo_unexpected o)) else ret (inl tt))
         (fun sw => ret (inr (lookup_err sw (bo_init_errs o) (bo_init_default o)))) ;;
  match a with
  | inr c => ret (false, c)
  | inl _ => block_loop o blocks brothers
  end.

(* advance_blockchain: brothers sorted by hash first; a brother that is not a block raises
   ValueError out of the sort (nothing has been sent yet) *)
Definition sort_brothers (bl : list (option bytes)) : option (list (option bytes)) :=
  match all_some (map (fun b => match get_block_hash b with
                                | Some h => Some (h, b) | None => None end) bl) with
  | Some kv => Some (sort_by_key kv)
  | None => None
  end.

Definition advance_blockchain (blocks : list (option bytes))
           (brothers : list (list (option bytes))) : M bo_result :=
  match all_some (map sort_brothers brothers) with
  | None => match ADV_SORT_VALUEERROR_RESULT with
            | Some c => ret (false, c) | None => raise (Py ValueError) end
  | Some sorted => do_block_operation ADVANCE_OP blocks sorted
  end.

Definition update_ancestor (blocks : list (option bytes)) : M bo_result :=
  match all_some (map (fun b => remove_mm_fields b true) blocks) with
  | None => ret (false, RESP_UPD_ERROR_REMOVE_MM_FIELDS)
  | Some opt => do_block_operation UPD_OP (map Some opt) []
  end.

End WithKeccak.
