(* admin/signer_authorization.py (SignerVersion, SignerAuthorization), admin/ledger_utils.py
   (encode_eth_message) and the device exchange of hsm2dongle.authorize_signer. *)
From PowHsm Require Export Model.Dongle Model.CommProtocol.

(* JSON value given as iteration: ints are taken as they are, strings go through Python's
   int(); that parser is standard-library code: its result on the string is an oracle *)
Section WithInt.
Variable py_int : str -> option Z.        (* hex_or_decimal_string_to_int; None = ValueError *)

(* SignerVersion(hash, iteration): (canonical hash text, iteration) or None = ValueError *)
Definition signer_version (hash iteration : json) : option (str * Z) :=
  match hash with
  | JStr h =>
      match fromhex h with
      | Some hb =>
          if negb (nlen hb =? 32) then None else
          let it := match iteration with
                    | JInt z => Some z
                    | JStr x => py_int x
                    | _ => None
                    end in
          match it with
          | Some z => if (0 <=? z)%Z && (z <? 65536)%Z then Some (hex hb, z) else None
          | None => None
          end
      | None => None
      end
  | _ => None
  end.

Definition auth_msg (h : str) (n : Z) : str :=
  s "RSK_powHSM_signer_" ++ h ++ s "_iteration_" ++ dec_Z n.

(* encode_eth_message *)
Definition eth_message (m : str) : bytes :=
  [25] ++ s "Ethereum Signed Message:" ++ [10] ++ dec_N (nlen m) ++ m.

Section WithKeccak.
Variable keccak : bytes -> bytes.
Definition auth_digest (h : str) (n : Z) : bytes := keccak (eth_message (auth_msg h n)).
End WithKeccak.

Record sauth := mkSauth { sa_hash : str; sa_iteration : Z; sa_signatures : list str }.

Section WithDer.
Variable der_ok : str -> bool.            (* libsecp256k1 accepts the hex as a DER signature *)

(* SignerAuthorization.from_jsonfile on the parsed document; None = any error *)
Definition load_sauth (doc : json) : option sauth :=
  match doc with
  | JObj m =>
      match jget (s "version") m with
      | Some v =>
          if negb (py_eq_int v 1) then None else
          match jget (s "signer") m, jget (s "signatures") m with
          | Some (JObj sg), Some (JArr sigs) =>
              match jget (s "hash") sg, jget (s "iteration") sg with
              | Some h, Some it =>
                  match signer_version h it with
                  | Some (hh, n) =>
                      match all_some (map (fun j => match j with
                                                    | JStr x => if der_ok x then Some x else None
                                                    | _ => None end) sigs) with
                      | Some l => Some (mkSauth hh n l)
                      | None => None
                      end
                  | None => None
                  end
              | _, _ => None
              end
          | _, _ => None
          end
      | None => None
      end
  | _ => None
  end.

Definition sauth_to_json (a : sauth) : json :=
  JObj [(s "version", JInt 1);
        (s "signer", JObj [(s "hash", JStr (sa_hash a)); (s "iteration", JInt (sa_iteration a))]);
        (s "signatures", JArr (map JStr (sa_signatures a)))].

(* add_signature *)
Definition add_signature (a : sauth) (sg : str) : option sauth :=
  if der_ok sg then Some (mkSauth (sa_hash a) (sa_iteration a) (sa_signatures a ++ [sg])) else None.

End WithDer.
End WithInt.

(* HSM2Dongle.authorize_signer(signer_authorization) *)
Definition authorize_run (a : sauth) : M bool :=
  match fromhex (sa_hash a), all_some (map fromhex (sa_signatures a)) with
  | Some hb, Some sigs => authorize_signer hb (sa_iteration a) sigs
  | _, _ => raise (Py ValueError)
  end.
