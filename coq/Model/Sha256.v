(* thirdparty/sha256.py modelled bit-exactly on 32-bit words in N: _pad, _compress, update
   (with its cache), set_midstate, digest; comm/pow.py coinbase_tx_get_hash. *)
From PowHsm Require Export Py.Base.

Definition F32 : N := 4294967295.
Definition w32 (x : N) : N := N.land x F32.
Definition rotr (x y : N) : N := w32 (N.lor (N.shiftr x y) (N.shiftl x (32 - y))).
Definition maj (x y z : N) : N := N.lxor (N.lxor (N.land x y) (N.land x z)) (N.land y z).
Definition ch (x y z : N) : N := N.lxor (N.land x y) (N.land (N.lxor x F32) z).   (* ~x & z on 32 bits *)

Definition K256 : list N := [
 1116352408; 1899447441; 3049323471; 3921009573; 961987163; 1508970993; 2453635748; 2870763221;
 3624381080; 310598401; 607225278; 1426881987; 1925078388; 2162078206; 2614888103; 3248222580;
 3835390401; 4022224774; 264347078; 604807628; 770255983; 1249150122; 1555081692; 1996064986;
 2554220882; 2821834349; 2952996808; 3210313671; 3336571891; 3584528711; 113926993; 338241895;
 666307205; 773529912; 1294757372; 1396182291; 1695183700; 1986661051; 2177026350; 2456956037;
 2730485921; 2820302411; 3259730800; 3345764771; 3516065817; 3600352804; 4094571909; 275423344;
 430227734; 506948616; 659060556; 883997877; 958139571; 1322822218; 1537002063; 1747873779;
 1955562222; 2024104815; 2227730452; 2361852424; 2428436474; 2756734187; 3204031479; 3329325298].

Definition H256 : list N := [1779033703; 3144134277; 1013904242; 2773480762;
                             1359893119; 2600822924; 528734635; 1541459225].

Definition nthN (l : list N) (i : nat) : N := nth i l 0.

(* message schedule: w is kept newest-first while extending from 16 to 64 words *)
Fixpoint extend (n : nat) (wrev : list N) : list N :=
  match n with
  | O => wrev
  | S n' =>
      let w15 := nthN wrev 14 in let w2 := nthN wrev 1 in
      let w16 := nthN wrev 15 in let w7 := nthN wrev 6 in
      let s0 := N.lxor (N.lxor (rotr w15 7) (rotr w15 18)) (N.shiftr w15 3) in
      let s1 := N.lxor (N.lxor (rotr w2 17) (rotr w2 19)) (N.shiftr w2 10) in
      extend n' (w32 (w16 + s0 + w7 + s1) :: wrev)
  end.

Fixpoint words_be (b : bytes) (n : nat) : list N :=
  match n with
  | O => []
  | S n' => from_bytes_be (firstn 4 b) :: words_be (skipn 4 b) n'
  end.

Definition round (st : list N) (kw : N * N) : list N :=
  match st with
  | [a; b; c; d; e; f; g; h] =>
      let s0 := N.lxor (N.lxor (rotr a 2) (rotr a 13)) (rotr a 22) in
      let t2 := s0 + maj a b c in
      let s1 := N.lxor (N.lxor (rotr e 6) (rotr e 11)) (rotr e 25) in
      let t1 := h + s1 + ch e f g + fst kw + snd kw in
      [w32 (t1 + t2); a; b; c; w32 (d + t1); e; f; g]
  | _ => st
  end.

(* _compress(c) on a 64-byte block *)
Definition compress (h : list N) (blk : bytes) : list N :=
  let w := rev (extend 48 (rev (words_be blk 16))) in
  let st := fold_left round (combine K256 w) h in
  map (fun xy => w32 (fst xy + snd xy)) (combine h st).

Record sha_state := mkSha { sh_counter : N; sh_cache : bytes; sh_h : list N }.

Definition sha_init : sha_state := mkSha 0 [] H256.

Fixpoint compress_blocks (n : nat) (h : list N) (m : bytes) : list N :=
  match n with
  | O => h
  | S n' => compress_blocks n' (compress h (firstn 64 m)) (skipn 64 m)
  end.

(* update(m): `if not m: return` *)
Definition sha_update (st : sha_state) (m : bytes) : sha_state :=
  match m with
  | [] => st
  | _ =>
      let full := sh_cache st ++ m in
      let nb := (length full / 64)%nat in
      let h' := compress_blocks nb (sh_h st) full in
      mkSha (sh_counter st + nlen m) (skipn (nb * 64) full) h'
  end.

(* _pad(msglen): None = struct.error (msglen << 3 does not fit 64 bits) *)
Definition sha_pad (msglen : N) : option bytes :=
  let mdi := N.land msglen 63 in
  let padlen := if mdi <? 56 then 55 - mdi else 119 - mdi in
  if 18446744073709551615 <? msglen * 8 then None
  else Some (128 :: repeat 0 (N.to_nat padlen) ++ rev (le_bytes 8 (msglen * 8))).

Definition word_be (x : N) : bytes := rev (le_bytes 4 x).

Definition sha_digest (st : sha_state) : option bytes :=
  match sha_pad (sh_counter st) with
  | Some p => Some (concat (map word_be (sh_h (sha_update st p))))
  | None => None
  end.

(* plain SHA-256 (hashlib.sha256): the counter never overflows for list inputs we can build *)
Definition sha256 (m : bytes) : bytes :=
  match sha_digest (sha_update sha_init m) with Some d => d | None => [] end.

(* set_midstate(state): 52 bytes; bytes 8..16 counter, 16..48 the eight words; cache untouched *)
Definition sha_set_midstate (st : sha_state) (state : bytes) : option sha_state :=
  if negb (nlen state =? 52) then None
  else Some (mkSha (from_bytes_be (slice state 8 16)) (sh_cache st) (words_be (skipn 16 state) 8)).

(* comm/pow.py coinbase_tx_get_hash: None = ValueError *)
Definition coinbase_tx_get_hash (tx : bytes) : option bytes :=
  let mid := repeat 0 8 ++ firstn 40 tx ++ repeat 0 4 in
  match sha_set_midstate sha_init mid with
  | None => None
  | Some st => match sha_digest (sha_update st (skipn 40 tx)) with
               | Some r1 => Some (rev (sha256 r1))
               | None => None
               end
  end.
