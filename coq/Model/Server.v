(* comm/server.py: _RequestHandler.handle (48-87) and _TCPServerRequestHandler.handle (99-128).
   line.decode and json.loads are standard-library code: their outcome on a concrete line is
   an input of the model (the harness classifies each line by calling the real functions). *)
From PowHsm Require Export Model.LedgerProtocol.

Inductive parse_outcome :=
| Undecodable              (* UnicodeDecodeError *)
| JsonError                (* json.decoder.JSONDecodeError *)
| ParserRaised             (* json.loads raised something else (ValueError, RecursionError) *)
| Parsed (j : json).

Section WithEnv.
Variable keccak : bytes -> bytes.
Variable kind : dongle_kind.
Variable mode : pmode.

Definition format_error_reply : json := JObj [(KEY_ERRORCODE, JInt (c_format (codes_of mode)))].
Definition unknown_error_reply : json := JObj [(KEY_ERRORCODE, JInt (c_unknown (codes_of mode)))].

(* returns the JSON written back (exactly one line) and whether a shutdown was requested *)
Definition server_handle (po : parse_outcome) : world -> (json * bool) * world :=
  fun w =>
    match po with
    | Undecodable => ((format_error_reply, false), w)
    | JsonError => ((format_error_reply, false), w)
    | ParserRaised => if SERVER_PARSER_RAISED_IS_FORMAT_ERROR
                      then ((format_error_reply, false), w) else ((JObj [], true), w)
    | Parsed j =>
        match handle_request keccak kind mode j w with
        | (Ok reply, w') => ((reply, false), w')
        | (Exn (Py NotImplementedErr), w') => ((JObj [], false), w')
        | (Exn ProtocolError, w') => ((unknown_error_reply, true), w')
        | (Exn _, w') => ((JObj [], true), w')
        end
    end.

(* a manager lifetime: requests are served in order until one asks for a shutdown *)
Fixpoint serve (reqs : list parse_outcome) (w : world) : list (json * bool) * world :=
  match reqs with
  | [] => ([], w)
  | po :: rest =>
      let '((reply, stop), w') := server_handle po w in
      if stop then ([(reply, stop)], w')
      else let '(more, w'') := serve rest w' in ((reply, stop) :: more, w'')
  end.

End WithEnv.
