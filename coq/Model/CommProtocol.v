(* comm/protocol.py and comm/protocol_v1.py: request gate and per-command validators;
   comm/utils.py hex/type helpers. *)
From PowHsm Require Export Py.Json Gen.Tables Model.Bip32.

Inductive pmode := V5 | V1.

Record codes := mkCodes {
  c_invalid_auth : Z; c_invalid_message : Z; c_invalid_keyid : Z;
  c_chaining : Z; c_pow : Z; c_tip : Z; c_input_blocks : Z; c_brothers : Z;
  c_hb_ud : Z;
  c_format : Z; c_invalid_request : Z; c_unknown_cmd : Z; c_wrong_version : Z;
  c_device : Z; c_unknown : Z;
  c_version : Z
}.

Definition codes_of (m : pmode) : codes :=
  match m with
  | V5 => mkCodes V5_ERROR_CODE_INVALID_AUTH V5_ERROR_CODE_INVALID_MESSAGE V5_ERROR_CODE_INVALID_KEYID
                  V5_ERROR_CODE_CHAINING_MISMATCH V5_ERROR_CODE_POW_INVALID V5_ERROR_CODE_TIP_MISMATCH
                  V5_ERROR_CODE_INVALID_INPUT_BLOCKS V5_ERROR_CODE_INVALID_BROTHERS
                  V5_ERROR_CODE_INVALID_HEARTBEAT_UD_VALUE
                  V5_ERROR_CODE_FORMAT_ERROR V5_ERROR_CODE_INVALID_REQUEST
                  V5_ERROR_CODE_COMMAND_UNKNOWN V5_ERROR_CODE_WRONG_VERSION
                  V5_ERROR_CODE_DEVICE V5_ERROR_CODE_UNKNOWN V5_VERSION
  | V1 => mkCodes V1_ERROR_CODE_INVALID_AUTH V1_ERROR_CODE_INVALID_MESSAGE V1_ERROR_CODE_INVALID_KEYID
                  V1_ERROR_CODE_CHAINING_MISMATCH V1_ERROR_CODE_POW_INVALID V1_ERROR_CODE_TIP_MISMATCH
                  V1_ERROR_CODE_INVALID_INPUT_BLOCKS V1_ERROR_CODE_INVALID_BROTHERS
                  V1_ERROR_CODE_INVALID_HEARTBEAT_UD_VALUE
                  V1_ERROR_CODE_FORMAT_ERROR V1_ERROR_CODE_INVALID_REQUEST
                  V1_ERROR_CODE_COMMAND_UNKNOWN V1_ERROR_CODE_WRONG_VERSION
                  V1_ERROR_CODE_DEVICE V1_ERROR_CODE_UNKNOWN V1_VERSION
  end.

Definition known_commands (m : pmode) : list str :=
  match m with V5 => KNOWN_COMMANDS_V5 | V1 => KNOWN_COMMANDS_V1 end.

Definition obj := list (str * json).

(* ---------- comm/utils.py ---------- *)

Definition is_hex_string_of_length (x : str) (n : N) : bool :=
  match fromhex x with Some b => nlen b =? n | None => false end.

Definition is_nonempty_hex_string (x : str) : bool :=
  match fromhex x with Some b => 0 <? nlen b | None => false end.

Definition has_nonempty_hex_field (mp : obj) (name : str) : bool :=
  match jget name mp with Some (JStr x) => is_nonempty_hex_string x | _ => false end.

Definition has_hex_field_of_length (mp : obj) (name : str) (n : N) : bool :=
  match jget name mp with Some (JStr x) => is_hex_string_of_length x n | _ => false end.

Definition has_int_field (mp : obj) (name : str) : bool :=
  match jget name mp with Some (JInt _) => true | _ => false end.

(* the "input" member: an int, and (when the source checks it) within 0..2^32-1 *)
Definition has_input_field (mp : obj) : bool :=
  match jget (s "input") mp with
  | Some (JInt z) => if SIGN_INPUT_RANGE_CHECKED then (0 <=? z)%Z && (z <=? 4294967295)%Z else true
  | _ => false
  end.

Definition has_str_field (mp : obj) (name : str) : bool :=
  match jget name mp with Some (JStr _) => true | _ => false end.

(* ---------- validators: 0 (ok) or a negative code ---------- *)

Definition validate_key_id (c : codes) (req : obj) : Z :=
  match jget (s "keyId") req with
  | Some (JStr x) => match bip32_path x with Some _ => 0%Z | None => c_invalid_keyid c end
  | _ => c_invalid_keyid c
  end.

Definition all_nonempty_hex_strs (l : list json) : bool :=
  forallb (fun j => match j with JStr x => is_nonempty_hex_string x | _ => false end) l.

Definition validate_auth (c : codes) (req : obj) (mandatory : bool) : Z :=
  match jget (s "auth") req with
  | None => if mandatory then c_invalid_auth c else 0%Z
  | Some (JObj auth) =>
      if negb (has_nonempty_hex_field auth (s "receipt")) then c_invalid_auth c else
      match jget (s "receipt_merkle_proof") auth with
      | Some (JArr l) =>
          match l with
          | [] => c_invalid_auth c
          | _ => if all_nonempty_hex_strs l then 0%Z else c_invalid_auth c
          end
      | _ => c_invalid_auth c
      end
  | Some _ => c_invalid_auth c
  end.

Inductive msg_kind := WAny | WHash | WTx.

Definition MAX_U64 : Z := 18446744073709551615%Z.

Definition validate_message (c : codes) (req : obj) (what : msg_kind) : Z :=
  match jget (s "message") req with
  | Some (JObj m) =>
      let hash_ok := match what with WTx => false | _ => true end in
      let tx_ok := match what with WHash => false | _ => true end in
      if hash_ok && Nat.eqb (length m) 1 && has_hex_field_of_length m (s "hash") 32 then 0%Z
      else if tx_ok && Nat.eqb (length m) 3 && has_nonempty_hex_field m (s "tx")
              && has_input_field m && has_str_field m (s "sighashComputationMode")
              && match jget (s "sighashComputationMode") m with
                 | Some j => py_eq_str j (s "legacy") | None => false end
      then 0%Z
      else if tx_ok && Nat.eqb (length m) 5 && has_nonempty_hex_field m (s "tx")
              && has_input_field m && has_str_field m (s "sighashComputationMode")
              && match jget (s "sighashComputationMode") m with
                 | Some j => py_eq_str j (s "segwit") | None => false end
              && has_nonempty_hex_field m (s "witnessScript")
              && match jget (s "outpointValue") m with
                 | Some (JInt v) => (0 <? v)%Z && (v <=? MAX_U64)%Z
                 | _ => false end
      then 0%Z
      else c_invalid_message c
  | _ => c_invalid_message c
  end.

Definition validate_sign_v5 (c : codes) (req : obj) : Z :=
  let k := validate_key_id c req in
  if (k <? 0)%Z then k else
  let a := validate_auth c req false in
  if (a <? 0)%Z then a else
  validate_message c req WAny.

Definition validate_sign_v1 (c : codes) (req : obj) : Z :=
  let k := validate_key_id c req in
  if (k <? 0)%Z then k else
  match jget (s "message") req with
  | Some (JStr x) => if is_hex_string_of_length x 32 then 0%Z else c_invalid_message c
  | _ => c_invalid_message c
  end.

Definition all_strs (l : list json) : bool := forallb is_jstr l.

Definition validate_advance_blockchain (c : codes) (req : obj) : Z :=
  match jget (s "blocks") req with
  | Some (JArr blocks) =>
      match blocks with
      | [] => c_input_blocks c
      | _ =>
        if negb (all_strs blocks) then c_input_blocks c else
        match jget (s "brothers") req with
        | Some (JArr bros) =>
            if negb (Nat.eqb (length bros) (length blocks)) then c_brothers c else
            if negb (forallb is_jarr bros) then c_brothers c else
            if forallb (fun b => match b with JArr l => all_nonempty_hex_strs l | _ => false end) bros
            then 0%Z else c_brothers c
        | _ => c_brothers c
        end
      end
  | _ => c_input_blocks c
  end.

Definition validate_update_ancestor_block (c : codes) (req : obj) : Z :=
  match jget (s "blocks") req with
  | Some (JArr blocks) =>
      if nlen blocks <? MINIMUM_UPDATE_ANCESTOR_BLOCKS then c_input_blocks c else
      if all_strs blocks then 0%Z else c_input_blocks c
  | _ => c_input_blocks c
  end.

Definition validate_heartbeat (c : codes) (req : obj) (size : N) : Z :=
  match jget (s "udValue") req with
  | Some (JStr x) => if is_hex_string_of_length x size then 0%Z else c_hb_ud c
  | _ => c_hb_ud c
  end.

(* dispatch by the *method name* the generated table attaches to each command *)
Definition validator_name (m : pmode) (cmd : str) : option str :=
  assoc_str cmd (match m with V5 => VALIDATE_V5 | V1 => VALIDATE_V1 end).

Definition run_validator (m : pmode) (vname : str) (req : obj) : option Z :=
  let c := codes_of m in
  if str_eqb vname (s "<lambda>") then Some 0%Z
  else if str_eqb vname (s "_validate_sign") then
         Some (match m with V5 => validate_sign_v5 c req | V1 => validate_sign_v1 c req end)
  else if str_eqb vname (s "_validate_get_pubkey") then Some (validate_key_id c req)
  else if str_eqb vname (s "_validate_advance_blockchain") then Some (validate_advance_blockchain c req)
  else if str_eqb vname (s "_validate_update_ancestor_block") then
         Some (validate_update_ancestor_block c req)
  else if str_eqb vname (s "_validate_signer_heartbeat") then
         Some (validate_heartbeat c req SIGNER_HBT_UD_VALUE_SIZE)
  else if str_eqb vname (s "_validate_ui_heartbeat") then
         Some (validate_heartbeat c req UI_HBT_UD_VALUE_SIZE)
  else None.

(* ---------- the generic gate (__internal_handle_request, 106-130) ---------- *)

Inductive gate :=
| GReject (code : Z)                 (* answered with {"errorcode": code}, nothing else happens *)
| GCrash (e : pyexc)                 (* the gate itself raises *)
| GAccept (cmd : str) (req : obj).   (* validated; the operation runs *)

Definition str_in (x : str) (l : list str) : bool := existsb (str_eqb x) l.

Definition gate_request (m : pmode) (request : json) : gate :=
  let c := codes_of m in
  match request with
  | JObj req =>
      match jget KEY_COMMAND req with
      | None => GReject (c_invalid_request c)
      | Some command =>
          if negb (py_eq_str command CMDNAME_VERSION_COMMAND) && negb (jhas KEY_VERSION req)
          then GReject (c_invalid_request c) else
          if match jget KEY_VERSION req with
             | Some v => negb (py_eq_int v (c_version c)) | None => false end
          then GReject (c_wrong_version c) else
          if negb (hashable command) then
            match (match m with V5 => GATE_UNHASHABLE_COMMAND_V5 | V1 => GATE_UNHASHABLE_COMMAND_V1 end) with
            | Some code => GReject code
            | None => GCrash TypeError
            end
          else
          match command with
          | JStr cmd =>
              if negb (str_in cmd (known_commands m)) then GReject (c_unknown_cmd c) else
              match validator_name m cmd with
              | Some vn =>
                  match run_validator m vn req with
                  | Some v => if (v <? 0)%Z then GReject v else GAccept cmd req
                  | None => GCrash KeyError      (* validator unknown to the model *)
                  end
              | None => GCrash KeyError
              end
          | _ => GReject (c_unknown_cmd c)
          end
      end
  | _ => GReject (c_format c)
  end.
