(* The `rlp` package's raw codec as used by ledger/block_utils.py (pure-Python backend of
   rlp 5.0.0, codec.py): strict decode, encode.  Modelled, not verified (third party). *)
From PowHsm Require Export Py.Base.

Inductive item := RStr (b : bytes) | RLst (l : list item).

(* big-endian minimal representation of a positive length *)
Fixpoint be_min_aux (fuel : nat) (n : N) (acc : bytes) : bytes :=
  match fuel with
  | O => acc
  | S f => if n =? 0 then acc else be_min_aux f (n / 256) (n mod 256 :: acc)
  end.
Definition be_min (n : N) : bytes := be_min_aux (S (N.to_nat (N.size n))) n [].

Definition length_prefix (len offset : N) : bytes :=
  if len <? 56 then [offset + len]
  else let ls := be_min len in (offset + 55 + nlen ls) :: ls.

Fixpoint encode (i : item) : bytes :=
  match i with
  | RStr b => match b with
              | [x] => if x <? 128 then [x] else length_prefix 1 128 ++ b
              | _ => length_prefix (nlen b) 128 ++ b
              end
  | RLst l => let payload := concat (map encode l) in
              length_prefix (nlen payload) 192 ++ payload
  end.

(* ---- strict decoding ----
   consume_length_prefix: (is_list, payload length, rest after the prefix); None = DecodingError *)
Definition read_prefix (b : bytes) : option (bool * N * bytes) :=
  match b with
  | [] => None
  | b0 :: r =>
      if b0 <? 128 then Some (false, 1, b)            (* single byte: payload is the byte itself *)
      else if b0 <? 184 then
        let l := b0 - 128 in
        if (l =? 1) && match r with x :: _ => x <? 128 | [] => true (* IndexError *) end
        then None else Some (false, l, r)
      else
        let is_list := 192 <=? b0 in
        if is_list && (b0 <? 248) then Some (true, b0 - 192, r) else
        let ll := N.to_nat (if is_list then b0 - 247 else b0 - 183) in
        match r with
        | 0 :: _ => None                               (* length starts with zero bytes *)
        | _ =>
            let lp := firstn ll r in
            let l := from_bytes_be lp in
            if l <? 56 then None else
            if Nat.ltb (length r) ll then None        (* truncated prefix: can never fit *)
            else Some (is_list, l, skipn ll r)
        end
  end.

(* decode one item from the front of [b]; a payload must lie entirely inside [b].
   fuel: every recursive call consumes at least one byte of prefix. *)
Fixpoint decode_item (fuel : nat) (b : bytes) : option (item * bytes) :=
  match fuel with
  | O => None
  | S f =>
      match read_prefix b with
      | None => None
      | Some (is_list, l, r) =>
          if nlen r <? l then None else
          let payload := firstn (N.to_nat l) r in
          let rest := skipn (N.to_nat l) r in
          if is_list then
            match
              (fix items (k : nat) (p : bytes) : option (list item) :=
                 match p with
                 | [] => Some []
                 | _ => match k with
                        | O => None
                        | S k' =>
                            match decode_item f p with
                            | Some (it, p') =>
                                match items k' p' with
                                | Some l' => Some (it :: l')
                                | None => None
                                end
                            | None => None
                            end
                        end
                 end) (length payload) payload
            with
            | Some l' => Some (RLst l', rest)
            | None => None
            end
          else Some (RStr payload, rest)
      end
  end.

(* rlp.decode(b) with strict=True: None = DecodingError *)
Definition decode (b : bytes) : option item :=
  match decode_item (S (length b)) b with
  | Some (it, []) => Some it
  | _ => None
  end.
