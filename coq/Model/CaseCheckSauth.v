(* Correspondence checker for signer authorizations. *)
From PowHsm Require Import Model.SignerAuth.
From PowHsm Require Export Model.CaseCheck.

Fixpoint lk {B} (k : str) (l : list (str * B)) : option B :=
  match l with [] => None | (k', v) :: r => if str_eqb k k' then Some v else lk k r end.

Record acase := mkAcase {
  ac_doc : json;
  ac_ints : list (str * option Z);          (* Python int() on the strings that may be iterations *)
  ac_der : list (str * bool);               (* DER acceptance per signature string *)
  ac_script : list resp;                    (* device answers for the authorize exchange *)
  (* observed *)
  ac_loaded : option (str * Z * list str * str);    (* hash, iteration, signatures, msg text *)
  ac_eth : option bytes;                            (* get_authorization_msg() *)
  ac_resave : option json;
  ac_authorize : option (bool * list bytes)         (* authorized?, APDUs sent; None = not run *)
}.

Definition o_int (c : acase) (x : str) : option Z := match lk x (ac_ints c) with Some r => r | None => None end.
Definition o_der (c : acase) (x : str) : bool := match lk x (ac_der c) with Some b => b | None => false end.

Definition check_acase (c : acase) : bool :=
  match load_sauth (o_int c) (o_der c) (ac_doc c), ac_loaded c with
  | None, None => true
  | Some a, Some (h, n, sigs, msg) =>
      str_eqb (sa_hash a) h && (sa_iteration a =? n)%Z && list_eqb str_eqb (sa_signatures a) sigs
      && str_eqb (auth_msg (sa_hash a) (sa_iteration a)) msg
      && match ac_eth c with
         | Some e => bytes_eqb (eth_message (auth_msg (sa_hash a) (sa_iteration a))) e
         | None => true end
      && match ac_resave c with Some j => json_eqb (sauth_to_json a) j | None => true end
      && match ac_authorize c with
         | None => true
         | Some (ok, apdus) =>
             let '(r, w) := authorize_run a (world0 (ac_script c) []) in
             match r with
             | Ok b => Bool.eqb b ok && ok
             | Exn _ => negb ok
             end && list_eqb bytes_eqb (Model.Device.apdus w) apdus
         end
  | _, _ => false
  end.
