(* Function-level correspondence checkers (pure helpers compared directly with the Python). *)
From PowHsm Require Export Model.CaseCheck.

Definition opt_bytes_eqb (a b : option bytes) : bool :=
  match a, b with
  | Some x, Some y => bytes_eqb x y
  | None, None => true
  | _, _ => false
  end.

(* comm/bitcoin.get_unsigned_tx: (raw, Some unsigned | None when it raised) *)
Definition check_unsign (c : bytes * option bytes) : bool :=
  opt_bytes_eqb (unsign_tx (fst c)) (snd c).

(* bytes.fromhex on arbitrary text *)
Definition check_fromhex (c : str * option bytes) : bool := opt_bytes_eqb (fromhex (fst c)) (snd c).

(* BIP32Path(spec).to_binary() or None *)
Definition check_bip32 (c : str * option bytes) : bool :=
  opt_bytes_eqb (match bip32_path (fst c) with Some p => Some (path_to_binary p) | None => None end)
                (snd c).

(* HSM2DongleSignature(bytes) -> (r, s) or None *)
Definition check_der (c : bytes * option (bytes * bytes)) : bool :=
  match der_parse (fst c), snd c with
  | Some (r, s_), Some (r', s') => bytes_eqb r r' && bytes_eqb s_ s'
  | None, None => true
  | _, _ => false
  end.

(* rlp.decode then rlp.encode: (raw, Some re-encoded | None) *)
Definition check_rlp (c : bytes * option bytes) : bool :=
  opt_bytes_eqb (match decode (fst c) with Some i => Some (encode i) | None => None end) (snd c).

(* block_utils: (raw, mm payload size, stripped block for ancestor update, coinbase hash) *)
Definition check_block_utils (c : bytes * option N * option bytes * option bytes) : bool :=
  let '(raw, mm, stripped, cbh) := c in
  (match rlp_mm_payload_size (Some raw), mm with
   | Some a, Some b => a =? b | None, None => true | _, _ => false end)
  && opt_bytes_eqb (remove_mm_fields (Some raw) true) stripped
  && opt_bytes_eqb (match get_coinbase_txn (Some raw) with
                    | CbOk tx => coinbase_tx_get_hash tx
                    | _ => None end) cbh.

(* hashlib.sha256 / thirdparty.sha256 *)
Definition check_sha256 (c : bytes * bytes) : bool := bytes_eqb (sha256 (fst c)) (snd c).

(* BasePin.is_valid(pin, any_pin) *)
Definition check_pin_valid (c : bytes * bool * bool) : bool :=
  let '(p, anyp, r) := c in Bool.eqb (pin_is_valid p anyp) r.

(* HSM2FirmwareVersion.supports *)
Definition check_supports (c : (N * N * N) * (N * N * N) * bool) : bool :=
  let '(mw, fw, r) := c in Bool.eqb (supports mw fw) r.
