(* ledger/protocol.py: initialize_device (56-119), ensure_connection (124-144),
   _handle_bootloader (151-222), _wait_and_reconnect, _check_version; ledger/version.py. *)
From PowHsm Require Export Model.Dongle Model.Pin.

(* HSM2FirmwareVersion.supports *)
Definition supports (mw fw : N * N * N) : bool :=
  let '(M1, m1, p1) := mw in
  let '(M2, m2, p2) := fw in
  (M1 =? M2) && (m2 <=? m1) && ((m2 <? m1) || (p2 <=? p1)).

Definition check_version (fw mw : N * N * N) : M unit :=
  if supports mw fw then ret tt else raise ProtocolError.

Definition is_dongle_base (e : exn) : bool := exn_isa e EXC_HSM2DongleBaseError.
Definition is_exception (e : exn) : bool := exn_isa e EXC_Exception.

Definition wait_and_reconnect : M unit := disconnect ;;; connect.

(* try: <m> finally: raise e  -- replaces whatever <m> did *)
Definition finally_raise {A} (m : M unit) (e : exn) : M A :=
  fun w => let '(_, w') := m w in (Exn e, w').

(* the PIN-change block of _handle_bootloader (190-209) *)
Definition pin_change_block (k : dongle_kind) : M unit :=
  finally_raise
    (try_catch
       (pin_start_change ;;;
        np <- pin_get_new_pin ;;
        ok <- match np with
              | Some p => new_pin k p
              | None => raise (Py TypeError)        (* len(None) inside _send_pin / bytes + None *)
              end ;;
        (if ok then ret tt else raise (Py OtherExc)) ;;;
        pin_commit_change)
       (fun e => if is_exception e then Some pin_abort_change else None))
    ProtocolInterrupt.

Definition handle_bootloader (k : dongle_kind) : M unit :=
  v <- get_version ;;
  check_version v UI_VERSION ;;;
  ok <- echo k ;;
  (if ok then ret tt else raise ProtocolError) ;;;
  try_catch
    (r <- get_retries k ;;
     if r <? MIN_AVAILABLE_RETRIES then raise ProtocolInterrupt else ret tt)
    (fun e => if exn_matches e (concat CATCH_handle_bootloader_0)
              then Some (raise ProtocolInterrupt) else None) ;;;
  p <- pin_get_pin ;;
  ok <- unlock k p ;;
  (if ok then ret tt else raise ProtocolError) ;;;
  nc <- pin_needs_change_m ;;
  (if nc then pin_change_block k else ret tt) ;;;
  try_catch (exit_menu true)
            (fun e => if exn_matches e (concat CATCH_handle_bootloader_2) then Some (ret tt) else None) ;;;
  wait_and_reconnect.

Definition initialize_device (k : dongle_kind) : M unit :=
  try_catch connect
    (fun e => if exn_matches e (concat CATCH_initialize_device_0)
              then Some (raise ProtocolError) else None) ;;;
  try_catch
    (onb <- is_onboarded ;;
     if onb then ret tt else raise ProtocolError)
    (fun e => if exn_matches e (concat CATCH_initialize_device_1)
              then Some (raise ProtocolInterrupt) else None) ;;;
  mode <- get_current_mode ;;
  mode' <- (if mode =? MODE_BOOTLOADER
            then handle_bootloader k ;;; get_current_mode
            else ret mode) ;;
  (if mode' =? MODE_SIGNER then ret tt else raise ProtocolInterrupt) ;;;
  v <- get_version ;;
  check_version v APP_VERSION ;;;
  get_signer_parameters ;;;
  ret tt.

(* ensure_connection: reconnect and redo the whole bring-up when a link error was flagged *)
Definition ensure_connection (k : dongle_kind) : M unit :=
  fun w =>
    if negb (comm_issue w) then (Ok tt, w) else
    (disconnect ;;;
     try_catch
       (initialize_device k ;;; modify (fun w => set_comm_issue w false))
       (fun e => if exn_matches e (concat CATCH_ensure_connection_0)
                 then Some (raise DongleComm) else None)) w.
