(* Correspondence checker for envelope parsing and the gathering conversions. *)
From PowHsm Require Import Model.Gather.
From PowHsm Require Export Model.CaseCheck.

Record gcase := mkGcase {
  gc_env : bytes; gc_custom : bytes;
  (* observed: None = SgxEnvelope raised *)
  gc_parsed : option (bytes * bytes * bytes * bytes * bytes * bytes * list bytes)
     (* quote, signature r||s, attestation key x||y, qe report body, qe signature, auth data, certs *)
}.

Definition check_gcase (c : gcase) : bool :=
  match parse_envelope (gc_env c) (gc_custom c), gc_parsed c with
  | None, None => true
  | Some e, Some (q, sg, k, qb, qs, au, cs) =>
      bytes_eqb (en_quote e) q && bytes_eqb (en_sig e) sg && bytes_eqb (en_attkey e) k
      && bytes_eqb (en_qe_body e) qb && bytes_eqb (en_qe_sig e) qs && bytes_eqb (en_auth e) au
      && list_eqb bytes_eqb (en_certs e) cs
  | _, _ => false
  end.

(* (r||s, DER) pairs from ecdsa.util.sigencode_der *)
Definition check_sigder (c : bytes * bytes) : bool := bytes_eqb (sigencode_der (fst c)) (snd c).

(* DongleAdmin.get_device_key: (response, Some (signed message, signature) | None) *)
Definition check_devkey (c : bytes * option (bytes * bytes)) : bool :=
  match device_key_info (fst c), snd c with
  | Some ki, Some (m, sg) => bytes_eqb (ki_message ki) m && bytes_eqb (ki_signature ki) sg
  | None, None => true
  | _, _ => false
  end.
