(* Executable correspondence checkers: each takes a case recorded from the implementation
   (inputs + what the implementation did) and answers whether the model does the same. *)
From PowHsm Require Export Model.Server.

Fixpoint mismatches_from {A} (chk : A -> bool) (i : nat) (l : list A) : list nat :=
  match l with
  | [] => []
  | c :: r => if chk c then mismatches_from chk (S i) r else i :: mismatches_from chk (S i) r
  end.
Definition mismatches {A} (chk : A -> bool) (l : list A) : list nat := mismatches_from chk 0 l.

Definition event_eqb (a b : event) : bool :=
  match a, b with
  | Apdu x _, Apdu y _ => bytes_eqb x y      (* answers are the case's input *)
  | Connect x, Connect y => Bool.eqb x y
  | Close, Close => true
  | PinFileWrite x a, PinFileWrite y b => bytes_eqb x y && Bool.eqb a b
  | _, _ => false
  end.

Fixpoint assoc_bytes (k : bytes) (l : list (bytes * bytes)) : bytes :=
  match l with
  | [] => []
  | (k', v) :: r => if bytes_eqb k k' then v else assoc_bytes k r
  end.

(* ---- server-level case: one manager lifetime of request lines against one device script ---- *)
Record scase := mkScase {
  sc_mode : pmode;
  sc_kind : dongle_kind;
  sc_issue : bool;                      (* _comm_issue before the first request *)
  sc_connects : list bool;
  sc_pin : option pin_obj;
  sc_rand : list bytes;
  sc_fs : list bool;
  sc_keccak : list (bytes * bytes);     (* Keccak-256 oracle as a finite table *)
  sc_reqs : list parse_outcome;
  sc_script : list resp;
  (* observed on the implementation *)
  sc_replies : list (json * bool);
  sc_trace : list event;                (* oldest first *)
  sc_issue_after : bool
}.

Definition run_scase (c : scase) : list (json * bool) * world :=
  serve (fun b => assoc_bytes b (sc_keccak c)) (sc_kind c) (sc_mode c) (sc_reqs c)
        (mkWorld (sc_script c) (sc_connects c) true [] (sc_issue c) (sc_pin c) (sc_rand c) (sc_fs c)).

Definition reply_eqb (a b : json * bool) : bool :=
  json_eqb (fst a) (fst b) && Bool.eqb (snd a) (snd b).

Definition check_scase (c : scase) : bool :=
  let '(replies, w) := run_scase c in
  list_eqb reply_eqb replies (sc_replies c)
  && list_eqb event_eqb (rev (trace w)) (sc_trace c)
  && Bool.eqb (comm_issue w) (sc_issue_after c).
