(* Correspondence checker for the Intel-HEX application hash (admin/ledger_utils.compute_app_hash). *)
From PowHsm Require Import Py.Base Model.IntelHex.
From PowHsm Require Export Model.CaseCheck.

(* (file text, Some sha256-of-areas | None when the parser raised) *)
Definition check_app_hash (c : str * option bytes) : bool :=
  match compute_app_hash_file (fst c), snd c with
  | inr h, Some h' => bytes_eqb h h'
  | inl _, None => true
  | _, _ => false
  end.

(* (file text, Some [(start, data)] | None) : the areas themselves *)
Definition check_areas (c : str * option (list (N * bytes))) : bool :=
  match parse_file (fst c), snd c with
  | inr l, Some l' =>
      list_eqb (fun a b : N * bytes => (fst a =? fst b) && bytes_eqb (snd a) (snd b))
               (map (fun a => (astart a, adata a)) l) l'
  | inl _, None => true
  | _, _ => false
  end.
