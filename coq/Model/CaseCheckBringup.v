(* Correspondence checker for the manager bring-up (ledger/protocol.py initialize_device) and the
   PIN object (ledger/pin.py). *)
From PowHsm Require Export Model.CaseCheck.

(* outcome classes of initialize_device as the caller (TCPServer.run) distinguishes them *)
Inductive boutcome := BServes | BProtocolError | BProtocolInterrupt | BOtherException.

Definition boutcome_eqb (a b : boutcome) : bool :=
  match a, b with
  | BServes, BServes | BProtocolError, BProtocolError | BProtocolInterrupt, BProtocolInterrupt
  | BOtherException, BOtherException => true
  | _, _ => false
  end.

Record bcase := mkBcase {
  bc_kind : dongle_kind;
  bc_connects : list bool;
  bc_pin : option pin_obj;
  bc_rand : list bytes;
  bc_fs : list bool;
  bc_script : list resp;
  (* observed *)
  bc_outcome : boutcome;
  bc_trace : list event;
  bc_pin_after : option (bytes * bool)        (* (_pin, _needs_change) *)
}.

Definition outcome_of (r : result unit) : boutcome :=
  match r with
  | Ok _ => BServes
  | Exn ProtocolError => BProtocolError
  | Exn ProtocolInterrupt => BProtocolInterrupt
  | Exn _ => BOtherException
  end.

Definition pin_view (p : option pin_obj) : option (bytes * bool) :=
  match p with Some o => Some (pin_cur o, pin_needs_change o) | None => None end.

Definition check_bcase (c : bcase) : bool :=
  let w0 := mkWorld (bc_script c) (bc_connects c) false [] false (bc_pin c) (bc_rand c) (bc_fs c) in
  let '(r, w) := initialize_device (bc_kind c) w0 in
  boutcome_eqb (outcome_of r) (bc_outcome c)
  && list_eqb event_eqb (rev (trace w)) (bc_trace c)
  && match pin_view (pin w), bc_pin_after c with
     | Some (a, b), Some (a', b') => bytes_eqb a a' && Bool.eqb b b'
     | None, None => true
     | _, _ => false
     end.
