(* ledger/hsm2dongle.py: _send_data_in_chunks (1415-1484), sign_authorized (626-833),
   sign_unauthorized (838-890). *)
From PowHsm Require Export Model.Dongle Model.BtcTx.

(* while not finished: ...  Each iteration performs one exchange, so fuel S (length script)
   is never exhausted (a silent device raises a timeout first). *)
Fixpoint chunks_loop (fuel : nat) (cmd op : N) (nexts : list N) (full : bool)
         (rem : bytes) (req : N) : M (bool * bytes) :=
  match fuel with
  | O => raise DongleTimeout
  | S f =>
      let n := N.to_nat (N.min req (nlen rem)) in
      let to_send := firstn n rem in
      let rem' := skipn n rem in
      r <- send_command cmd (op :: to_send) ;;
      rop <- idxM r OFF_OPn ;;
      if negb (mem_N rop (op :: nexts)) then ret (false, r) else
      let finished := negb (rop =? op) in
      if full && finished && (0 <? nlen rem') then ret (false, r) else
      if finished then ret (true, r) else
      nreq <- idxM r OFF_DATAn ;;
      chunks_loop f cmd op nexts full rem' nreq
  end.

Definition send_data_in_chunks (cmd op : N) (nexts : list N) (data : bytes) (full : bool)
           (initial : N) : M (bool * bytes) :=
  fun w => chunks_loop (S (length (script w))) cmd op nexts full data initial w.

(* `if e.error_code in [...]: return (False, R)` tables from Gen *)
Fixpoint lookup_err (sw : N) (tbl : list (list N * Z)) (dflt : Z) : Z :=
  match tbl with
  | [] => dflt
  | (l, r) :: rest => if mem_N sw l then r else lookup_err sw rest dflt
  end.

Definition on_error_result {A} (m : M A) (h : N -> M A) : M A :=
  try_catch m (fun e => match e with ErrorResult sw => Some (h sw) | _ => None end).

Definition sign_result := ((bytes * bytes) + Z)%type.   (* (True, signature) | (False, code) *)

Definition sighash_netvalue (mode : str) : option N := assoc_str mode SIGHASH_MODES.

(* the step-2 payload: LE32 total | mode | LE16 extradata length | tx | extradata *)
Definition extradata (segwit : bool) (ws : bytes) (ov : Z) : option bytes :=
  if segwit then
    match to_bytes_le 8 ov with
    | Some ovb => Some (varint (nlen ws) ++ ws ++ ovb)
    | None => None
    end
  else Some [].

Definition btc_payload (tx : bytes) (netvalue : N) (ed : bytes) : option bytes :=
  match to_bytes_le 1 (Z.of_N netvalue), to_bytes_le 2 (Z.of_N (nlen ed)),
        to_bytes_le 4 (Z.of_N (4 + 1 + 2 + nlen tx)) with
  | Some scm, Some edl, Some pl => Some (pl ++ scm ++ edl ++ tx ++ ed)
  | _, _, _ => None
  end.

(* 1 byte node count, then per node 1 byte length + bytes; None = ValueError *)
Definition merkle_proof_bytes (nodes : list bytes) : option bytes :=
  if 255 <? nlen nodes then None else
  if forallb (fun nd => nlen nd <=? 255) nodes
  then Some (nlen nodes :: concat (map (fun nd => nlen nd :: nd) nodes))
  else None.

Definition parse_sig (b : bytes) : sign_result :=
  match der_parse b with Some rs => inl rs | None => inr RESP_SIGN_ERROR_UNEXPECTED end.

Definition sign_authorized (path_bin : bytes) (receipt : bytes) (proof : list bytes)
           (tx : bytes) (input : Z) (mode : str) (ws : bytes) (ov : Z) : M sign_result :=
  inb <- of_opt (to_bytes_le 4 input) OverflowError ;;
  (* step 1: path + input index *)
  s1 <- on_error_result
          (r <- send_command CMD_SIGN (SIGN_OP_PATH :: path_bin ++ inb) ;;
           op <- idxM r OFF_OPn ;;
           if negb (op =? SIGN_OP_BTC_TX) then ret (inr RESP_SIGN_ERROR_UNEXPECTED) else
           q <- idxM r OFF_DATAn ;; ret (inl q))
          (fun sw => ret (inr (lookup_err sw SIGN_AUTH_STEP1_ERRS SIGN_AUTH_STEP1_DEFAULT))) ;;
  match s1 with inr c => ret (inr c) | inl req1 =>
  (* step 2: BTC tx + extra data *)
  nv <- of_opt (sighash_netvalue mode) ValueError ;;
  let segwit := nv =? 1 in
  match (match extradata segwit ws ov with Some ed => btc_payload tx nv ed | None => None end) with
  | None => match SIGN_AUTH_PAYLOAD_OVERFLOW_RESULT with
            | Some c => ret (inr c) | None => raise (Py OverflowError) end
  | Some payload =>
  s2 <- on_error_result
          (cr <- send_data_in_chunks CMD_SIGN SIGN_OP_BTC_TX [SIGN_OP_TX_RECEIPT] payload true req1 ;;
           if negb (fst cr) then ret (inr RESP_SIGN_ERROR_UNEXPECTED) else
           q <- idxM (snd cr) OFF_DATAn ;; ret (inl q))
          (fun sw => ret (inr (lookup_err sw SIGN_AUTH_STEP2_ERRS SIGN_AUTH_STEP2_DEFAULT))) ;;
  match s2 with inr c => ret (inr c) | inl req2 =>
  (* step 3: receipt *)
  s3 <- on_error_result
          (cr <- send_data_in_chunks CMD_SIGN SIGN_OP_TX_RECEIPT [SIGN_OP_MERKLE_PROOF] receipt true req2 ;;
           if negb (fst cr) then ret (inr RESP_SIGN_ERROR_UNEXPECTED) else
           q <- idxM (snd cr) OFF_DATAn ;; ret (inl q))
          (fun sw => ret (inr (lookup_err sw SIGN_AUTH_STEP3_ERRS SIGN_AUTH_STEP3_DEFAULT))) ;;
  match s3 with inr c => ret (inr c) | inl req3 =>
  (* step 4: merkle proof *)
  match merkle_proof_bytes proof with
  | None => ret (inr RESP_SIGN_ERROR_MERKLE_PROOF)
  | Some mp =>
      on_error_result
        (cr <- send_data_in_chunks CMD_SIGN SIGN_OP_MERKLE_PROOF [SIGN_OP_SUCCESS] mp true req3 ;;
         if negb (fst cr) then ret (inr RESP_SIGN_ERROR_UNEXPECTED) else
         ret (parse_sig (slice_from (snd cr) OFF_DATAn)))
        (fun sw => ret (inr (lookup_err sw SIGN_AUTH_STEP4_ERRS SIGN_AUTH_STEP4_DEFAULT)))
  end end end end end.

(* hash: None models a hex string bytes.fromhex rejects (-> ERROR_HASH) *)
Definition sign_unauthorized (path_bin : bytes) (hash : option bytes) : M sign_result :=
  match hash with
  | None => ret (inr RESP_SIGN_ERROR_HASH)
  | Some h =>
      r0 <- on_error_result
              (r <- send_command CMD_SIGN (SIGN_OP_PATH :: path_bin ++ h) ;;
               op <- idxM r OFF_OPn ;;
               if op =? SIGN_OP_BTC_TX then ret (inr RESP_SIGN_ERROR_HASH) else
               if negb (op =? SIGN_OP_SUCCESS) then ret (inr RESP_SIGN_ERROR_UNEXPECTED) else
               ret (inl r))
              (fun sw => ret (inr (lookup_err sw SIGN_UNAUTH_ERRS SIGN_UNAUTH_DEFAULT))) ;;
      match r0 with
      | inr c => ret (inr c)
      | inl r => ret (parse_sig (slice_from r OFF_DATAn))
      end
  end.
