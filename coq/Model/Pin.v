(* ledger/pin.py: BasePin policy, generate_pin, FileBasedPin change protocol. *)
From PowHsm Require Export Model.Device.

(* BasePin.is_valid(pin, any_pin) for a bytes argument *)
Definition pin_is_valid (p : bytes) (any_pin : bool) : bool :=
  forallb (fun c => mem_N c PIN_POSSIBLE_CHARS) p &&
  (any_pin || ((nlen p =? PIN_LENGTH) && existsb (fun c => mem_N c PIN_ALPHA_CHARS) p)).

(* generate_pin: rejection sampling over the RNG's candidate stream *)
Fixpoint gen_pin_from (l : list bytes) : option (bytes * list bytes) :=
  match l with
  | [] => None
  | p :: r => if pin_is_valid p false then Some (p, r) else gen_pin_from r
  end.

Definition generate_pin : M bytes :=
  fun w => match gen_pin_from (rand_pins w) with
           | Some (p, r) => (Ok p, set_rand_pins w r)
           | None => (Exn (Py OtherExc), set_rand_pins w [])   (* candidate stream exhausted *)
           end.

(* self.pin.<method>() on a None pin object: AttributeError *)
Definition with_pin {A} (f : pin_obj -> M A) : M A :=
  fun w => match pin w with Some p => f p w | None => (Exn (Py AttributeError), w) end.

Definition put_pin (p : pin_obj) : M unit := modify (fun w => set_pin w (Some p)).

Definition pin_get_pin : M bytes := with_pin (fun p => ret (pin_cur p)).
Definition pin_needs_change_m : M bool := with_pin (fun p => ret (pin_needs_change p)).
Definition pin_get_new_pin : M (option bytes) :=
  with_pin (fun p => ret (if pin_changing p then pin_new p else None)).

Definition pin_start_change : M unit :=
  with_pin (fun p =>
    if pin_changing p || negb (pin_needs_change p) then ret tt
    else np <- generate_pin ;;
         put_pin (mkPin (pin_cur p) (pin_needs_change p) true (Some np))).

(* commit: open(path,"wb") + write(new_pin); any failure -> PinError, object unchanged *)
Definition pin_commit_change : M unit :=
  with_pin (fun p =>
    if negb (pin_changing p) then ret tt else
    match pin_new p with
    | None => raise PinError                  (* file.write(None): TypeError -> PinError *)
    | Some np =>
        fun w =>
          let ok := match fs_ok w with [] => true | b :: _ => b end in
          let w1 := push (PinFileWrite np ok) (set_fs_ok w (tl (fs_ok w))) in
          if ok then (Ok tt, set_pin w1 (Some (mkPin np false false None)))
          else (Exn PinError, w1)
    end).

Definition pin_abort_change : M unit :=
  with_pin (fun p =>
    if negb (pin_changing p) then ret tt
    else put_pin (mkPin (pin_cur p) (pin_needs_change p) false None)).

(* FileBasedPin.__init__(path, default_pin, force_change): None = PinError *)
Definition pin_load (file : option bytes) (default : option bytes) (force : bool)
  : option pin_obj :=
  let cur := match file with Some f => Some f | None => default end in
  match cur with
  | Some c => if pin_is_valid c false
              then Some (mkPin c (force || match file with Some _ => false | None => true end)
                               false None)
              else None
  | None => None                              (* is_valid(None) is False *)
  end.
