(* admin/certificate_v2.py: the three element kinds' is_valid, with cryptography as oracles and
   the struct offsets of sgx/envelope.py taken from the generated layouts. *)
From PowHsm Require Export Model.Cert Model.Sha256.

(* field (offset, size) of a generated CStruct layout; (0,0) if absent (checked not to happen) *)
Definition field_of (lay : list (str * (N * N))) (name : str) : N * N :=
  match assoc_str name lay with Some os => os | None => (0, 0) end.

Definition sub (b : bytes) (os : N * N) : bytes :=
  firstn (N.to_nat (snd os)) (skipn (N.to_nat (fst os)) b).

(* SgxReportBody(buf).report_data.field : needs the whole struct to be present (unpack_from) *)
Definition report_data_of_body (body : bytes) : option bytes :=
  if nlen body <? SIZEOF_SgxReportBody then None
  else Some (sub body (field_of LAYOUT_SgxReportBody (s "report_data"))).

(* SgxQuote(buf).report_body.report_data.field *)
Definition report_data_of_quote (q : bytes) : option bytes :=
  if nlen q <? SIZEOF_SgxQuote then None
  else report_data_of_body (sub q (field_of LAYOUT_SgxQuote (s "report_body"))).

(* what the x509 library tells about a certificate (oracle output) *)
Record x509_info := mkX509 {
  x_not_before : Z; x_not_after : Z;       (* seconds since the epoch *)
  x_p256_key : option bytes                (* Some (x || y) when the subject key is NIST P-256 *)
}.

Section WithCrypto.
Variable hash : bytes -> bytes.                               (* hashlib.sha256 *)
Variable p256_verify : bytes -> bytes -> bytes -> bool.       (* raw key x||y, digest, DER signature *)
Variable p256_key : str -> option bytes.                      (* hex key -> raw x||y if a valid point *)
Variable x509_parse : str -> option x509_info.                (* canonical base64 DER -> info *)
Variable x509_sig_ok : str -> str -> bool.                    (* subject b64, issuer b64: issuer key signs subject *)
Variable now : Z.
Variable root_elem : celem.                                   (* the root of trust (an x509 element) *)

Definition certifier_elem (cf : certifier) : celem :=
  match cf with ByRoot => root_elem | ByElem e => e end.

(* certifier.get_pubkey() as raw P-256 key; None = raises *)
Definition pubkey_of (e : celem) : option bytes :=
  match ce_kind e with
  | KAttKey => p256_key (ce_extra1 e)
  | KX509 => match x509_parse (ce_message e) with
             | Some i => x_p256_key i
             | None => None
             end
  | _ => None                                  (* quote / v1 elements provide no key *)
  end.

Definition quote_ok (e : celem) (cf : certifier) : bool :=
  match fromhex (ce_message e), fromhex (ce_extra1 e), fromhex (ce_signature e) with
  | Some msg, Some custom, Some sg =>
      match report_data_of_quote msg with
      | None => false
      | Some rd =>
          if negb (bytes_eqb (hash custom) (firstn (length (hash custom)) rd)) then false else
          match pubkey_of (certifier_elem cf) with
          | Some k => p256_verify k (hash msg) sg
          | None => false
          end
      end
  | _, _, _ => false
  end.

Definition attkey_ok (e : celem) (cf : certifier) : bool :=
  match fromhex (ce_message e), p256_key (ce_extra1 e), fromhex (ce_extra2 e),
        fromhex (ce_signature e) with
  | Some msg, Some k64, Some auth, Some sg =>
      match report_data_of_body msg with
      | None => false
      | Some rd =>
          let expected := hash (k64 ++ auth) in
          if negb (bytes_eqb expected (firstn (length expected) rd)) then false else
          match pubkey_of (certifier_elem cf) with
          | Some k => p256_verify k (hash msg) sg
          | None => false
          end
      end
  | _, _, _, _ => false
  end.

Definition x509_ok (e : celem) (cf : certifier) : bool :=
  let c := certifier_elem cf in
  match ce_kind c with
  | KX509 =>
      match x509_parse (ce_message e), x509_parse (ce_message c) with
      | Some si, Some _ =>
          if (now <? x_not_before si)%Z || (x_not_after si <? now)%Z then false
          else x509_sig_ok (ce_message e) (ce_message c)
      | _, _ => false
      end
  | _ => false
  end.

Definition link_v2 (e : celem) (cf : certifier) : bool :=
  match ce_kind e with
  | KQuote => quote_ok e cf
  | KAttKey => attkey_ok e cf
  | KX509 => x509_ok e cf
  | KV1 => false
  end.

End WithCrypto.
