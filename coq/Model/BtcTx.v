(* comm/bitcoin.py (get_unsigned_tx, _unsign_tx, _clear_all_but_last_op_from_scriptsig,
   encode_varint) over the python-bitcoinlib codec as described in DESIGN.md appendix B.
   Fixed-width fields stay raw bytes: pack(unpack(x)) is the identity on them. *)
From PowHsm Require Export Py.Base.

(* ---------- compact-size integers ---------- *)

Definition varint (n : N) : bytes :=
  if n <? 253 then [n]
  else if n <=? 65535 then 253 :: le_bytes 2 n
  else if n <=? 4294967295 then 254 :: le_bytes 4 n
  else 255 :: le_bytes 8 n.

(* reader: Some (value, rest) or None (SerializationTruncationError) *)
Definition read_n (n : nat) (b : bytes) : option (bytes * bytes) :=
  if Nat.leb n (length b) then Some (firstn n b, skipn n b) else None.

Definition read_varint (b : bytes) : option (N * bytes) :=
  match b with
  | [] => None
  | x :: r =>
      if x <? 253 then Some (x, r)
      else let k := if x =? 253 then 2%nat else if x =? 254 then 4%nat else 8%nat in
           match read_n k r with
           | Some (v, r') => Some (from_bytes_le v, r')
           | None => None
           end
  end.

(* BytesSerializer: varint length + that many bytes *)
Definition read_var_bytes (b : bytes) : option (bytes * bytes) :=
  match read_varint b with
  | Some (n, r) => if n <=? nlen r then read_n (N.to_nat n) r else None
  | None => None
  end.

Definition ser_var_bytes (d : bytes) : bytes := varint (nlen d) ++ d.

(* ---------- transaction ---------- *)

Record txin := mkTxin { in_outpoint : bytes (* 36 *); in_script : bytes; in_sequence : bytes (* 4 *) }.
Record txout := mkTxout { out_value : bytes (* 8 *); out_script : bytes }.
Record tx := mkTx {
  tx_version : bytes (* 4 *);
  tx_vin : list txin;
  tx_vout : list txout;
  tx_wit : list (list bytes);      (* one stack per input when read in segwit form, else [] *)
  tx_locktime : bytes (* 4 *)
}.

Definition read_txin (b : bytes) : option (txin * bytes) :=
  match read_n 36 b with
  | Some (op, r1) =>
      match read_var_bytes r1 with
      | Some (sc, r2) =>
          match read_n 4 r2 with
          | Some (sq, r3) => Some (mkTxin op sc sq, r3)
          | None => None
          end
      | None => None
      end
  | None => None
  end.

Definition read_txout (b : bytes) : option (txout * bytes) :=
  match read_n 8 b with
  | Some (v, r1) =>
      match read_var_bytes r1 with
      | Some (sc, r2) => Some (mkTxout v sc, r2)
      | None => None
      end
  | None => None
  end.

(* read [n] items; every item consumes at least one byte, so fuel = S (length b) suffices and
   running out of fuel coincides with running out of bytes (truncation error) *)
Fixpoint read_items {A} (rd : bytes -> option (A * bytes)) (fuel : nat) (n : N) (b : bytes)
  : option (list A * bytes) :=
  if n =? 0 then Some ([], b) else
  match fuel with
  | O => None
  | S f =>
      match rd b with
      | Some (a, r) =>
          match read_items rd f (n - 1) r with
          | Some (l, r') => Some (a :: l, r')
          | None => None
          end
      | None => None
      end
  end.

Definition read_vector {A} (rd : bytes -> option (A * bytes)) (b : bytes) : option (list A * bytes) :=
  match read_varint b with
  | Some (n, r) => read_items rd (S (length r)) n r
  | None => None
  end.

Definition read_witness_stack (b : bytes) : option (list bytes * bytes) :=
  read_vector read_var_bytes b.

(* exactly one stack per input (a Python for-loop over range(len(vin))) *)
Fixpoint read_witnesses (k : nat) (b : bytes) : option (list (list bytes) * bytes) :=
  match k with
  | O => Some ([], b)
  | S k' =>
      match read_witness_stack b with
      | Some (st, r) =>
          match read_witnesses k' r with
          | Some (l, r') => Some (st :: l, r')
          | None => None
          end
      | None => None
      end
  end.

(* CMutableTransaction.deserialize: None = any deserialization error *)
Definition deserialize_tx (b : bytes) : option tx :=
  match read_n 4 b with
  | None => None
  | Some (ver, r0) =>
      match read_n 2 r0 with        (* marker and flag are read unconditionally *)
      | None => None
      | Some (mf, r1) =>
          let segwit := bytes_eqb mf [0; 1] in
          let body := if segwit then r1 else r0 in
          match read_vector read_txin body with
          | None => None
          | Some (vin, r2) =>
              match read_vector read_txout r2 with
              | None => None
              | Some (vout, r3) =>
                  match (if segwit then read_witnesses (length vin) r3 else Some ([], r3)) with
                  | None => None
                  | Some (wit, r4) =>
                      match read_n 4 r4 with
                      | Some (lt, []) => Some (mkTx ver vin vout wit lt)
                      | _ => None      (* truncated, or DeserializationExtraDataError *)
                      end
                  end
              end
          end
      end
  end.

Definition ser_txin (i : txin) : bytes := in_outpoint i ++ ser_var_bytes (in_script i) ++ in_sequence i.
Definition ser_txout (o : txout) : bytes := out_value o ++ ser_var_bytes (out_script o).
Definition ser_stack (st : list bytes) : bytes := varint (nlen st) ++ concat (map ser_var_bytes st).

Definition wit_is_null (w : list (list bytes)) : bool :=
  forallb (fun st => match st with [] => true | _ => false end) w.

Definition serialize_tx (t : tx) : bytes :=
  let segwit := negb (wit_is_null (tx_wit t)) in
  tx_version t ++ (if segwit then [0; 1] else []) ++
  varint (nlen (tx_vin t)) ++ concat (map ser_txin (tx_vin t)) ++
  varint (nlen (tx_vout t)) ++ concat (map ser_txout (tx_vout t)) ++
  (if segwit then concat (map ser_stack (tx_wit t)) else []) ++
  tx_locktime t.

(* ---------- scripts ---------- *)

Inductive sop :=
| OpZero                 (* iterates as int 0 *)
| OpPush (d : bytes)     (* any data push, iterates as the bytes *)
| OpSmall (n : N)        (* OP_1..OP_16, iterates as int n *)
| OpOther (c : N).       (* iterates as CScriptOp(c) *)

(* CScript.__iter__ ; None = CScriptInvalidError / CScriptTruncatedPushDataError *)
Fixpoint script_ops (fuel : nat) (b : bytes) : option (list sop) :=
  match b with
  | [] => Some []
  | c :: r =>
      match fuel with
      | O => None
      | S f =>
          if 78 <? c then          (* opcode > OP_PUSHDATA4 *)
            match script_ops f r with
            | Some l => Some ((if (81 <=? c) && (c <=? 96) then OpSmall (c - 80) else OpOther c) :: l)
            | None => None
            end
          else
            let hdr : option (N * bytes) :=
              if c <? 76 then Some (c, r)
              else if c =? 76 then
                match r with x :: r' => Some (x, r') | [] => None end
              else if c =? 77 then
                match read_n 2 r with Some (v, r') => Some (from_bytes_le v, r') | None => None end
              else
                match read_n 4 r with Some (v, r') => Some (from_bytes_le v, r') | None => None end
            in
            match hdr with
            | None => None
            | Some (n, r') =>
                if nlen r' <? n then None else
                let d := firstn (N.to_nat n) r' in
                match script_ops f (skipn (N.to_nat n) r') with
                | Some l => Some ((if c =? 0 then OpZero else OpPush d) :: l)
                | None => None
                end
            end
      end
  end.

Definition encode_push (d : bytes) : bytes :=
  let n := nlen d in
  if n <? 76 then n :: d
  else if n <=? 255 then 76 :: n :: d
  else if n <=? 65535 then 77 :: le_bytes 2 n ++ d
  else 78 :: le_bytes 4 n ++ d.

(* CScript([...]) coercion of one iterated value *)
Definition encode_op (o : sop) : bytes :=
  match o with
  | OpZero => [0]
  | OpPush d => encode_push d
  | OpSmall n => [80 + n]
  | OpOther c => [c]
  end.

(* _clear_all_but_last_op_from_scriptsig: None = the iteration raised or ops[-1] IndexError *)
Definition clear_script (sc : bytes) : option bytes :=
  match script_ops (S (length sc)) sc with
  | None => None
  | Some ops =>
      match rev ops with
      | [] => None
      | lastop :: _ => Some (concat (map (fun _ => [0]) (removelast ops)) ++ encode_op lastop)
      end
  end.

Fixpoint unsign_inputs (l : list txin) : option (list txin) :=
  match l with
  | [] => Some []
  | i :: r =>
      match clear_script (in_script i), unsign_inputs r with
      | Some sc, Some r' => Some (mkTxin (in_outpoint i) sc (in_sequence i) :: r')
      | _, _ => None
      end
  end.

(* get_unsigned_tx on the decoded bytes; None = any Exception (answered -102) *)
Definition unsign_tx (raw : bytes) : option bytes :=
  match deserialize_tx raw with
  | None => None
  | Some t =>
      match unsign_inputs (tx_vin t) with
      | None => None
      | Some vin' => Some (serialize_tx (mkTx (tx_version t) vin' (tx_vout t) (tx_wit t) (tx_locktime t)))
      end
  end.
