(* ledgerblue.hexParser (IntelHexArea, insertAreaSorted, IntelHexParser) transcribed
   statement by statement, plus a parametric writer used to state the
   "hash does not depend on the record sizes" property.
   Executable definitions only; lemmas live in Proofs/IntelHexProofs.v. *)
From PowHsm Require Import Py.Base Model.Sha256.

Definition res (A : Type) : Type := (pyexc + A)%type.
Definition ok {A} (a : A) : res A := inr a.
Definition err {A} (e : pyexc) : res A := inl e.
Definition bind {A B} (r : res A) (f : A -> res B) : res B :=
  match r with inl e => inl e | inr a => f a end.
Notation "x <- r ;; k" := (bind r (fun x => k)) (at level 61, r at next level, right associativity).

(* ---------- parser input ---------- *)

(* One decoded line `data = bytearray.fromhex(line[1:])`:
     rcount = data[0], raddr = (data[1] << 8) + data[2], rtype = data[3], rtail = data[4:].
   rtail still CONTAINS THE CHECKSUM BYTE (and anything else that was on the line): the parser
   never looks at the checksum and never compares rcount with the real payload length; it
   takes data[4:4+count] (a slice: silently shorter when the line is short, and it swallows the
   checksum byte when count is one too large) but advances `current` by count. *)
Record record := mkRec { rcount : N; raddr : N; rtype : N; rtail : bytes }.

(* IntelHexArea *)
Record area := mkArea { astart : N; adata : bytes }.

(* insertAreaSorted: first index whose start is strictly larger; equal starts go after. *)
Fixpoint insert_area_sorted (areas : list area) (a : area) : list area :=
  match areas with
  | [] => [a]
  | x :: r => if astart a <? astart x then a :: areas else x :: insert_area_sorted r a
  end.

(* ---------- parser state (locals of __init__ + self.areas + self.bootAddr) ---------- *)

Record pstate := mkP {
  p_zone  : option N;      (* startZone *)
  p_first : option N;      (* startFirst *)
  p_cur   : option N;      (* current *)
  p_data  : bytes;         (* zoneData *)
  p_areas : list area;     (* self.areas *)
  p_boot  : N              (* self.bootAddr *)
}.

Definition p_init : pstate := mkP None None None [] [] 0.

(* self._addArea(IntelHexArea((startZone << 16) + startFirst, zoneData)); None operands = TypeError *)
Definition add_area (st : pstate) : res (list area) :=
  match p_zone st, p_first st with
  | Some z, Some f => ok (insert_area_sorted (p_areas st) (mkArea (N.shiftl z 16 + f) (p_data st)))
  | _, _ => err TypeError
  end.

(* the block shared by record 01, record 04 and the end-of-file tail:
     if len(zoneData) != 0: _addArea(...); zoneData = b""; startZone = startFirst = current = None *)
Definition flush_reset (st : pstate) : res pstate :=
  match p_data st with
  | [] => ok st
  | _ => a <- add_area st ;; ok (mkP None None None [] a (p_boot st))
  end.

Definition tail_idx (r : record) (i : nat) : res N :=
  match nth_error (rtail r) i with Some x => ok x | None => err IndexError end.

Definition step (st : pstate) (r : record) : res pstate :=
  let address := raddr r in
  let count := rcount r in
  if rtype r =? 0 then
    match p_zone st with
    | None => err OtherExc                       (* "Data record but no zone defined" *)
    | Some _ =>
        (* if startFirst == None: startFirst = address; current = startFirst *)
        let st1 := match p_first st with
                   | None => mkP (p_zone st) (Some address) (Some address) (p_data st) (p_areas st) (p_boot st)
                   | Some _ => st
                   end in
        (* if address != current: (flushes even when zoneData is empty) *)
        let differs := match p_cur st1 with Some c => negb (address =? c) | None => true end in
        st2 <- (if differs
                then a <- add_area st1 ;;
                     ok (mkP (p_zone st1) (Some address) (Some address) [] a (p_boot st1))
                else ok st1) ;;
        (* zoneData += data[4:4+count]; current += count *)
        match p_cur st2 with
        | None => err TypeError
        | Some c =>
            ok (mkP (p_zone st2) (p_first st2) (Some (c + count))
                    (p_data st2 ++ firstn (N.to_nat count) (rtail r)) (p_areas st2) (p_boot st2))
        end
    end
  else if rtype r =? 1 then flush_reset st       (* parsing CONTINUES after an EOF record *)
  else if rtype r =? 2 then err OtherExc         (* "Unsupported record 02" *)
  else if rtype r =? 3 then err OtherExc         (* "Unsupported record 03" *)
  else if rtype r =? 4 then
    st1 <- flush_reset st ;;                     (* startFirst/current survive when zoneData is empty *)
    d4 <- tail_idx r 0 ;;
    d5 <- tail_idx r 1 ;;
    ok (mkP (Some (N.shiftl d4 8 + d5)) (p_first st1) (p_cur st1) (p_data st1) (p_areas st1) (p_boot st1))
  else if rtype r =? 5 then
    d4 <- tail_idx r 0 ;; d5 <- tail_idx r 1 ;; d6 <- tail_idx r 2 ;; d7 <- tail_idx r 3 ;;
    ok (mkP (p_zone st) (p_first st) (p_cur st) (p_data st) (p_areas st)
            (N.shiftl (N.land d4 255) 24 + N.shiftl (N.land d5 255) 16
             + N.shiftl (N.land d6 255) 8 + N.land d7 255))
  else ok st.                                    (* unknown record types are ignored *)

Fixpoint run (st : pstate) (recs : list record) : res pstate :=
  match recs with
  | [] => flush_reset st                         (* "tail add of the last zone" *)
  | r :: rest => st' <- step st r ;; run st' rest
  end.

(* IntelHexParser(file).getAreas() / .getBootAddr() on already decoded lines *)
Definition parse_records (recs : list record) : res (list area) :=
  st <- run p_init recs ;; ok (p_areas st).
Definition parse_boot (recs : list record) : res N :=
  st <- run p_init recs ;; ok (p_boot st).

(* ---------- line level ---------- *)

(* data.rstrip("\r\n") *)
Definition is_crlf (c : N) : bool := (c =? 13) || (c =? 10).
Fixpoint rstrip_crlf (x : str) : str :=
  match x with
  | [] => []
  | c :: r => match rstrip_crlf r with
              | [] => if is_crlf c then [] else [c]
              | r' => c :: r'
              end
  end.

Definition decode_record (data : bytes) : res record :=
  match data with
  | c :: a1 :: a2 :: t :: tail => ok (mkRec c (N.shiftl a1 8 + a2) t tail)
  | _ => err IndexError
  end.

(* one iteration of `for data in file` up to recordType: None = `continue` (empty line).
   No checksum verification, no length verification. *)
Definition parse_line (line : str) : res (option record) :=
  match rstrip_crlf line with
  | [] => ok None
  | c :: hexpart =>
      if negb (c =? 58) then err OtherExc        (* "Invalid data at line %d" *)
      else match fromhex hexpart with
           | None => err ValueError
           | Some data => r <- decode_record data ;; ok (Some r)
           end
  end.

Fixpoint run_lines (st : pstate) (lines : list str) : res pstate :=
  match lines with
  | [] => flush_reset st
  | l :: rest =>
      o <- parse_line l ;;
      match o with
      | None => run_lines st rest
      | Some r => st' <- step st r ;; run_lines st' rest
      end
  end.

(* text-mode file iteration with universal newlines: split after \n, \r\n or \r *)
Fixpoint split_lines_aux (x : str) (cur : str) : list str :=
  match x with
  | [] => match cur with [] => [] | _ => [rev cur] end
  | c :: r =>
      if c =? 10 then rev (10 :: cur) :: split_lines_aux r []
      else if c =? 13 then
        match r with
        | 10 :: r' => rev (10 :: cur) :: split_lines_aux r' []
        | _ => rev (10 :: cur) :: split_lines_aux r []
        end
      else split_lines_aux r (c :: cur)
  end.
Definition split_lines (x : str) : list str := split_lines_aux x [].

Definition parse_file (content : str) : res (list area) :=
  st <- run_lines p_init (split_lines content) ;; ok (p_areas st).

(* ---------- the hash under study ---------- *)

(* digest = sha256(); for a in parser.getAreas(): digest.update(a.data) *)
Definition cat_data (l : list area) : bytes := concat (map adata l).

Definition app_data (recs : list record) : res bytes :=
  a <- parse_records recs ;; ok (cat_data a).
Definition compute_app_hash (recs : list record) : res bytes :=
  d <- app_data recs ;; ok (sha256 d).
Definition compute_app_hash_file (content : str) : res bytes :=
  a <- parse_file content ;; ok (sha256 (cat_data a)).

(* ---------- a writer, parametric in the record sizes ---------- *)

Definition sum_bytes (b : bytes) : N := fold_right N.add 0 b.
(* IntelHexPrinter.checksum *)
Definition checksum (b : bytes) : N := (256 - sum_bytes b mod 256) mod 256.

Definition record_header (count addr type : N) : bytes := [count; addr / 256; addr mod 256; type].

(* a well formed record: count = len(payload), tail = payload + checksum *)
Definition mk_record (type addr : N) (payload : bytes) : record :=
  mkRec (nlen payload) addr type
        (payload ++ [checksum (record_header (nlen payload) addr type ++ payload)]).

Definition rec_data (off : N) (d : bytes) : record := mk_record 0 off d.
Definition rec_eof : record := mk_record 1 0 [].
Definition rec_zone (z : N) : record := mk_record 4 0 [z / 256; z mod 256].

(* size of the i-th data record: cycle through [chunking] *)
Definition chunk_size (chunking : list nat) (i : nat) : nat :=
  nth (i mod length chunking) chunking 1%nat.

(* cut [d] (living at address [start]) into consecutive chunks, the k-th of size
   chunk_size chunking (i+k); [fuel] = length d is enough when all sizes are >= 1 *)
Fixpoint split_area (fuel : nat) (chunking : list nat) (i : nat) (start : N) (d : bytes) : list area :=
  match fuel with
  | O => []
  | S f =>
      match d with
      | [] => []
      | _ => let n := chunk_size chunking i in
             mkArea start (firstn n d)
             :: split_area f chunking (S i) (start + nlen (firstn n d)) (skipn n d)
      end
  end.

(* all data records of all areas, in writing order; the position in [chunking] carries over *)
Fixpoint chunks_of (chunking : list nat) (i : nat) (areas : list area) : list area :=
  match areas with
  | [] => []
  | a :: r => let cs := split_area (length (adata a)) chunking i (astart a) (adata a) in
              cs ++ chunks_of chunking (i + length cs) r
  end.

(* one data record per chunk, preceded by a type-04 record whenever the upper 16 address bits
   differ from the last one written (None: nothing written yet) *)
Fixpoint emit_chunks (zone : option N) (chunks : list area) : list record :=
  match chunks with
  | [] => []
  | c :: r =>
      let z := astart c / 65536 in
      let same := match zone with Some z0 => z0 =? z | None => false end in
      (if same then [] else [rec_zone z])
      ++ rec_data (astart c mod 65536) (adata c) :: emit_chunks (Some z) r
  end.

Definition emit (areas : list area) (chunking : list nat) : list record :=
  emit_chunks None (chunks_of chunking 0 areas) ++ [rec_eof].

(* text rendering ":CCAAAATT<data>KK" (lower-case hex; the parser accepts both cases) *)
Definition render_record (r : record) : str :=
  58 :: hex (record_header (rcount r) (raddr r) (rtype r) ++ rtail r) ++ [13; 10].
Definition emit_file (areas : list area) (chunking : list nat) : str :=
  concat (map render_record (emit areas chunking)).

(* reference: sort by start address with the parser's own insertion *)
Definition sort_by_start (l : list area) : list area :=
  fold_right (fun a acc => insert_area_sorted acc a) [] l.
