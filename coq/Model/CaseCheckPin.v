(* Correspondence checker for PIN histories (real FileBasedPin + real bring-up in forked
   processes with injected faults and crashes) against Model/PinHistory.v. *)
From PowHsm Require Import Model.PinHistory.
From PowHsm Require Export Model.CaseCheck.

Definition opt_bytes_eqb2 (a b : option bytes) : bool :=
  match a, b with Some x, Some y => bytes_eqb x y | None, None => true | _, _ => false end.

Definition gstate_eqb (a b : gstate) : bool :=
  opt_bytes_eqb2 (g_file a) (g_file b) && bytes_eqb (g_dev a) (g_dev b)
  && opt_bytes_eqb2 (g_default a) (g_default b).

Definition rr_eqb (a b : run_result) : bool :=
  match a, b with
  | RPinError, RPinError | RUnlockFailed, RUnlockFailed | RServed, RServed
  | RStopped, RStopped | RCrashed, RCrashed => true
  | _, _ => false
  end.

Record pcase := mkPcase {
  pc_init : gstate;
  pc_runs : list run;
  pc_observed : list (gstate * run_result)     (* state after each run, and how the run ended *)
}.

Fixpoint check_runs (s : gstate) (rs : list run) (obs : list (gstate * run_result)) : bool :=
  match rs, obs with
  | [], [] => true
  | r :: rs', (s', res) :: obs' =>
      let '(m, mres) := run_once s r in
      gstate_eqb m s' && rr_eqb mres res && check_runs m rs' obs'
  | _, _ => false
  end.

Definition check_pcase (c : pcase) : bool := check_runs (pc_init c) (pc_runs c) (pc_observed c).
