(* Exhaustive status-word sweep (C04, thorough tier): for one recorded honest exchange and one
   step of it, the implementation's outcome for EVERY status word 0..65535 injected at that step is
   given run-length encoded; the model is evaluated on all 65536 words and compared. *)
From PowHsm Require Export Model.CaseCheck.

Definition with_script (c : scase) (sc : list resp) : scase :=
  mkScase (sc_mode c) (sc_kind c) (sc_issue c) (sc_connects c) (sc_pin c) (sc_rand c) (sc_fs c)
          (sc_keccak c) (sc_reqs c) sc (sc_replies c) (sc_trace c) (sc_issue_after c).

(* an outcome class observed on the implementation: replies, trace (oldest first), flag afterwards *)
Definition oclass := (list (json * bool) * list event * bool)%type.

Record sweep := mkSweep {
  sw_case : scase;                    (* the honest case: its script is the honest transcript *)
  sw_step : nat;                      (* index of the answer replaced by the status word *)
  sw_runs : list (N * N * nat);       (* lo, hi (inclusive), index into sw_classes *)
  sw_classes : list oclass
}.

Fixpoint class_of (w : N) (runs : list (N * N * nat)) : option nat :=
  match runs with
  | [] => None
  | (lo, hi, k) :: r => if (lo <=? w) && (w <=? hi) then Some k else class_of w r
  end.

Definition check_word (s : sweep) (w : N) : bool :=
  match class_of w (sw_runs s) with
  | Some k =>
      match nth_error (sw_classes s) k with
      | Some (reps, tr, iss) =>
          let '(r, wd) := run_scase (with_script (sw_case s)
                                       (firstn (sw_step s) (sc_script (sw_case s)) ++ [Status w])) in
          list_eqb reply_eqb r reps && list_eqb event_eqb (rev (trace wd)) tr
          && Bool.eqb (comm_issue wd) iss
      | None => false
      end
  | None => false
  end.

(* all words below n *)
Definition forall_below (f : N -> bool) (n : N) : bool :=
  N.recursion true (fun k acc => acc && f k) n.

Definition first_bad (f : N -> bool) (n : N) : option N :=
  N.recursion None (fun k acc => match acc with Some b => Some b | None => if f k then None else Some k end) n.

Definition check_sweep (s : sweep) : bool := forall_below (check_word s) 65536.
Definition sweep_first_bad (s : sweep) : option N := first_bad (check_word s) 65536.
