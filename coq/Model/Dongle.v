(* HSM2Dongle / HSM2DongleSGX methods other than sign and block operations
   (ledger/hsm2dongle.py:497-614, 892-954, 1059-1132; sgx/hsm2dongle.py; hsm2dongle_cmds/*;
   ledger/signature.py; ledger/parameters.py). *)
From PowHsm Require Export Model.Device.

Inductive dongle_kind := KLedger | KSgx | KTcp.

Definition idxM {A} (l : list A) (i : nat) : M A := of_opt (idx l i) IndexError.
Definition OFF_OPn := N.to_nat OFF_OP.
Definition OFF_DATAn := N.to_nat OFF_DATA.

(* ---------- ledger/signature.py: HSM2DongleSignature ---------- *)
(* None = ValueError *)
Definition der_parse (b : bytes) : option (bytes * bytes) :=
  match b with
  | t :: l :: rest =>
      if negb (mem_N t [48; 49]) || (nlen rest <? l) then None else
      match rest with
      | t2 :: rl :: rest2 =>
          if negb (t2 =? 2) || (nlen rest2 <? rl) then None else
          let rlen := N.to_nat rl in
          let rbytes := firstn rlen rest2 in
          match skipn rlen rest2 with
          | t3 :: sl :: rest3 =>
              if negb (t3 =? 2) || (nlen rest3 <? sl) then None else
              Some (rbytes, firstn (N.to_nat sl) rest3)
          | _ => None
          end
      | _ => None
      end
  | _ => None
  end.

(* ---------- mode / echo / onboarded / version / retries ---------- *)

Definition get_current_mode : M N :=
  try_catch
    (r <- send_command CMD_GET_MODE [] ;;
     m <- idxM r 1 ;;
     if mem_N m MODE_VALUES then ret m else raise (Py ValueError))   (* self.MODE(x) *)
    (fun e => if exn_matches e GET_MODE_CATCHES then Some (ret MODE_UNKNOWN) else None).

Definition echo_msg : bytes := [65; 66; 67].

Definition echo (k : dongle_kind) : M bool :=
  let c := match k with KSgx => SGXCMD_SGX_ECHO | _ => CMD_ECHO end in
  r <- send_command c echo_msg ;;
  ret (bytes_eqb r (CLA :: c :: echo_msg)).

Definition is_onboarded : M bool :=
  r <- send_command CMD_IS_ONBOARD [] ;;
  b <- idxM r 1 ;;
  ret (b =? 1).

Definition get_version : M (N * N * N) :=
  r <- send_command CMD_IS_ONBOARD [] ;;
  a <- idxM r 2 ;; b <- idxM r 3 ;; c <- idxM r 4 ;;
  ret (a, b, c).

Definition get_retries (k : dongle_kind) : M N :=
  r <- send_command (match k with KSgx => SGXCMD_SGX_RETRIES | _ => CMD_RETRIES end) [] ;;
  idxM r 2.

(* ---------- PIN commands ---------- *)

(* for i in range(len(p)): SEND_PIN [i, p[i]] *)
Fixpoint send_pin_bytes (i : N) (p : bytes) : M unit :=
  match p with
  | [] => ret tt
  | b :: r => send_command CMD_SEND_PIN [i; b] ;;; send_pin_bytes (i + 1) r
  end.

Definition send_pin (pin : bytes) (prepend_length : bool) : M unit :=
  send_pin_bytes 0 (if prepend_length then nlen pin :: pin else pin).

Definition unlock (k : dongle_kind) (pin : bytes) : M bool :=
  match k with
  | KSgx => r <- send_command SGXCMD_SGX_UNLOCK (0 :: pin) ;;
            b <- idxM r 2 ;; ret (negb (b =? 0))
  | _ => send_pin pin false ;;;
         r <- send_command CMD_UNLOCK [0; 0] ;;
         b <- idxM r 2 ;; ret (negb (b =? 0))
  end.

Definition new_pin (k : dongle_kind) (pin : bytes) : M bool :=
  match k with
  | KSgx => r <- send_command SGXCMD_SGX_CHANGE_PASSWORD (0 :: pin) ;;
            b <- idxM r 2 ;; ret (b =? 1)
  | _ => try_catch
           (send_pin pin true ;;; send_command CMD_CHANGE_PIN [] ;;; ret true)
           (fun e => match e with
                     | ErrorResult sw => if sw =? ERR_UI_INVALID_PIN then Some (ret false) else None
                     | _ => None
                     end)
  end.

(* ---------- onboarding ---------- *)

Fixpoint send_seed_bytes (i : N) (sd : bytes) : M unit :=
  match sd with
  | [] => ret tt
  | b :: r => send_command CMD_SEED [i; b] ;;; send_seed_bytes (i + 1) r
  end.

Definition onboard (k : dongle_kind) (seed pin : bytes) : M bool :=
  if negb (nlen seed =? ONB_SEED_LENGTH) then raise DongleError else
  match k with
  | KSgx => r <- send_command SGXCMD_SGX_ONBOARD (0 :: seed ++ pin) ;;
            b <- idxM r 2 ;;
            if b =? 1 then ret true else raise DongleError
  | _ => send_seed_bytes 0 seed ;;;
         send_pin pin true ;;;
         r <- send_command CMD_WIPE [] ;;
         b <- idxM r 1 ;;
         if b =? 2 then ret true else raise DongleError
  end.

(* ---------- menu / app exit ---------- *)

Definition exit_menu (autoexec : bool) : M unit :=
  send_command (if autoexec then CMD_EXIT_MENU else CMD_EXIT_MENU_NO_AUTOEXEC) [0; 0] ;;; ret tt.

Definition exit_app : M unit := send_command CMD_EXIT_MENU [] ;;; ret tt.

(* ---------- public key ---------- *)

Definition get_public_key (path_bin : bytes) : M str :=
  r <- send_command CMD_GET_PUBLIC_KEY path_bin ;; ret (hex r).

(* ---------- parameters (ledger/parameters.py) ---------- *)

Record fw_params := mkParams { p_checkpoint : str; p_mrd : N; p_network : N }.

(* None = ValueError *)
Definition params_from_dongle (b : bytes) : option fw_params :=
  if negb (nlen b =? 69) then None else
  match idx b 68 with
  | Some net => if mem_N net NETWORK_VALUES
                then Some (mkParams (hex (slice b 0 32)) (from_bytes_be (slice b 32 68)) net)
                else None
  | None => None
  end.

Definition get_signer_parameters : M fw_params :=
  r <- send_command CMD_GET_PARAMETERS [] ;;
  match params_from_dongle (slice_from r OFF_DATAn) with
  | Some p => ret p
  | None => raise DongleError          (* except ValueError -> HSM2DongleError *)
  end.

(* ---------- blockchain state ---------- *)

Record bc_state := mkState {
  st_hashes : list (str * str);
  st_difficulty : N;
  st_flags : bool * bool * bool
}.

Fixpoint get_hashes (hv : list (str * N)) : M (list (str * str)) :=
  match hv with
  | [] => ret []
  | (key, code) :: rest =>
      r <- send_command CMD_GET_STATE [GST_OP_HASH; code] ;;
      op <- idxM r OFF_OPn ;;
      if negb (op =? GST_OP_HASH) then raise DongleError else
      c <- idxM r OFF_DATAn ;;
      if negb (c =? code) || negb (nlen (slice_from r (OFF_DATAn + 1)) =? HASH_SIZE)
      then raise DongleError else
      more <- get_hashes rest ;;
      ret ((key, hex (slice_from r (OFF_DATAn + 1))) :: more)
  end.

Definition get_blockchain_state : M bc_state :=
  hs <- get_hashes GST_HASH_VALUES ;;
  r <- send_command CMD_GET_STATE [GST_OP_DIFF] ;;
  op <- idxM r OFF_OPn ;;
  if negb (op =? GST_OP_DIFF) then raise DongleError else
  let diff := from_bytes_be (slice_from r OFF_DATAn) in
  r2 <- send_command CMD_GET_STATE [GST_OP_FLAGS] ;;
  op2 <- idxM r2 OFF_OPn ;;
  if negb (op2 =? GST_OP_FLAGS) || negb (nlen (slice_from r2 OFF_DATAn) =? 3)
  then raise DongleError else
  f0 <- idxM r2 (OFF_DATAn + N.to_nat GST_FLAG_IN_PROGRESS) ;;
  f1 <- idxM r2 (OFF_DATAn + N.to_nat GST_FLAG_ALREADY_VALIDATED) ;;
  f2 <- idxM r2 (OFF_DATAn + N.to_nat GST_FLAG_FOUND_BEST_BLOCK) ;;
  ret (mkState hs diff (negb (f0 =? 0), negb (f1 =? 0), negb (f2 =? 0))).

Definition reset_advance_blockchain : M bool :=
  r <- send_command CMD_RESET_AB [RAV_OP_INIT] ;;
  op <- idxM r OFF_OPn ;;
  if op =? RAV_OP_DONE then ret true else raise DongleError.

(* ---------- heartbeats (hsm2dongle_cmds/{signer,ui}_heartbeat.py) ---------- *)

Record heartbeat := mkHb { hb_pubkey : str; hb_message : str; hb_tweak : str; hb_r : str; hb_s : str }.

(* (True, {...}) = inl ; (False, error_code) = inr *)
Definition run_heartbeat (command op_ud op_get op_msg op_hash op_pk : N) (ud : bytes)
  : M (heartbeat + N) :=
  try_catch
    (send_command command (op_ud :: ud) ;;;
     sg <- send_command command [op_get] ;;
     ms <- send_command command [op_msg] ;;
     hs <- send_command command [op_hash] ;;
     pk <- send_command command [op_pk] ;;
     match der_parse (slice_from sg OFF_DATAn) with
     | Some (r, s_) =>
         ret (inl (mkHb (hex (slice_from pk OFF_DATAn)) (hex (slice_from ms OFF_DATAn))
                        (hex (slice_from hs OFF_DATAn)) (hex r) (hex s_)))
     | None => raise (Py ValueError)
     end)
    (fun e => match e with ErrorResult sw => Some (ret (inr sw)) | _ => None end).

Definition get_signer_heartbeat (ud : bytes) : M (heartbeat + N) :=
  run_heartbeat SHB_COMMAND SHB_OP_UD_VALUE SHB_OP_GET SHB_OP_GET_MESSAGE SHB_OP_APP_HASH
                SHB_OP_PUBKEY ud.
Definition get_ui_heartbeat (ud : bytes) : M (heartbeat + N) :=
  run_heartbeat UHB_COMMAND UHB_OP_UD_VALUE UHB_OP_GET UHB_OP_GET_MESSAGE UHB_OP_APP_HASH
                UHB_OP_PUBKEY ud.

(* ---------- UI attestation (hsm2dongle.py:1059-1097) ---------- *)

Fixpoint ui_att_pages (fuel : nat) (page : N) (acc : bytes) : M bytes :=
  match fuel with
  | O => raise (Py TypeError)   (* page == MAX: the error message's own `%` raises TypeError *)
  | S f =>
      r <- send_command CMD_UI_ATT [UIATT_OP_OP_GET_MSG; page] ;;
      more <- idxM r OFF_DATAn ;;
      let acc' := acc ++ slice_from r (OFF_DATAn + 1) in
      if more =? 0 then ret acc' else ui_att_pages f (page + 1) acc'
  end.

Record attestation := mkAtt { att_app_hash : str; att_message : str; att_envelope : str;
                              att_signature : str }.

Definition get_ui_attestation (ud : bytes) : M attestation :=
  h <- send_command CMD_UI_ATT [UIATT_OP_OP_APP_HASH] ;;
  send_command CMD_UI_ATT (UIATT_OP_OP_UD_VALUE :: ud) ;;;
  msg <- ui_att_pages (N.to_nat MAX_PAGES_UI_ATT_MESSAGE) 0 [] ;;
  a <- send_command CMD_UI_ATT [UIATT_OP_OP_GET] ;;
  ret (mkAtt (hex (slice_from h OFF_DATAn)) (hex msg) [] (hex (slice_from a OFF_DATAn))).

(* ---------- powHSM attestation (hsm2dongle_cmds/powhsm_attestation.py) ---------- *)
(* The paging loops run until the device says "no more": the script bounds them, so they are
   written by structural recursion on a fuel equal to the script length + 1. *)

Fixpoint patt_pages (fuel : nat) (op : N) (is_message : bool) (page : N) (acc : bytes)
  : M (bytes * bool (* legacy seen *)) :=
  match fuel with
  | O => raise DongleTimeout
  | S f =>
      r <- send_command PATT_COMMAND [op; page] ;;
      m <- idxM r OFF_DATAn ;;
      let legacy := is_message &&
                    bytes_eqb (slice r OFF_DATAn (OFF_DATAn + length PATT_LEGACY_HEADER))
                              PATT_LEGACY_HEADER in
      if legacy then ret (acc ++ slice_from r OFF_DATAn, true)
      else
        let acc' := acc ++ slice_from r (OFF_DATAn + 1) in
        if m =? 1 then patt_pages f op is_message (page + 1) acc' else ret (acc', false)
  end.

Definition get_powhsm_attestation (ud : bytes) : M attestation :=
  fun w =>
    let fuel := S (length (script w)) in
    (sg <- send_command PATT_COMMAND (PATT_OP_OP_GET :: ud) ;;
     mm <- patt_pages fuel PATT_OP_OP_GET_MESSAGE true 0 [] ;;
     let '(msg, legacy) := mm in
     env <- (if legacy then ret msg
             else ee <- patt_pages fuel PATT_OP_OP_GET_ENVELOPE false 0 [] ;; ret (fst ee)) ;;
     h <- send_command PATT_COMMAND [PATT_OP_OP_APP_HASH] ;;
     ret (mkAtt (hex (slice_from h OFF_DATAn)) (hex msg) (hex env)
                (hex (slice_from sg OFF_DATAn)))) w.

(* ---------- signer authorization (hsm2dongle.py:1108-1132) ---------- *)

Fixpoint send_signatures (sigs : list bytes) (last : option N) : M bool :=
  match sigs with
  | [] => match last with
          | Some r => if r =? SAUTH_OP_OP_SIGN_RES_SUCCESS then ret true else raise DongleError
          | None => raise DongleError
          end
  | sg :: rest =>
      r <- send_command CMD_SIGNER_AUTH (SAUTH_OP_OP_SIGN :: sg) ;;
      res <- idxM r OFF_DATAn ;;
      if res =? SAUTH_OP_OP_SIGN_RES_SUCCESS then ret true else send_signatures rest (Some res)
  end.

Definition authorize_signer (hash : bytes) (iteration : Z) (sigs : list bytes) : M bool :=
  it <- of_opt (to_bytes_be (N.to_nat SIGNER_AUTH_ITERATION_SIZE) iteration) OverflowError ;;
  send_command CMD_SIGNER_AUTH (SAUTH_OP_OP_SIGVER :: hash ++ it) ;;;
  send_signatures sigs None.
