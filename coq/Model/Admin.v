(* admin/onboard.py (52-141), admin/unlock.py (39-105), admin/changepin.py (38-85),
   admin/pubkeys.py (46-124), admin/misc.py (ask_for_pin, get_hsm, dispose_hsm).
   Operator input (stdin lines, getpass entries) and os.urandom are explicit arguments. *)
From PowHsm Require Export Model.Dongle Model.Pin Model.Bip32.

Record admin_opts := mkOpts {
  o_pin : option bytes;        (* -p / --pin, already .encode()d *)
  o_new_pin : option bytes;    (* -n / --newpin *)
  o_any_pin : bool;            (* -a / --anypin *)
  o_no_unlock : bool;          (* -u / --nounlock *)
  o_no_exec : bool;            (* -e / --noexec *)
  o_has_output : bool          (* -o given *)
}.

(* ask_for_pin(any_pin): keep reading getpass entries until one is valid; None = input exhausted *)
Fixpoint ask_for_pin (typed : list bytes) (any_pin : bool) : option (bytes * list bytes) :=
  match typed with
  | [] => None
  | p :: r => if pin_is_valid p any_pin then Some (p, r) else ask_for_pin r any_pin
  end.

(* answer.rstrip().lower() on one stdin line (ASCII) *)
Definition lower_ascii (c : N) : N := if (65 <=? c) && (c <=? 90) then c + 32 else c.
Fixpoint lstrip_ws (x : str) : str :=
  match x with c :: r => if is_pyspace c then lstrip_ws r else x | [] => [] end.
Definition norm_answer (x : str) : str := map lower_ascii (rev (lstrip_ws (rev x))).

(* the confirmation loop: Some true = "yes", Some false = "n"/"no", None = input exhausted *)
Fixpoint confirm (lines : list str) : option (bool * list str) :=
  match lines with
  | [] => None
  | l :: r =>
      let a := norm_answer l in
      if str_eqb a (s "n") || str_eqb a (s "no") then Some (false, r)
      else if str_eqb a (s "yes") then Some (true, r)
      else confirm r
  end.

Definition of_optA {A} (o : option A) : M A := match o with Some a => ret a | None => raise (Py OtherExc) end.

(* get_hsm: connect (CommError propagates as it is); dispose_hsm: disconnect *)

(* do_unlock(options, exit, no_exec, label) ; typed = getpass entries still available *)
Definition do_unlock (k : dongle_kind) (o : admin_opts) (do_exit no_exec : bool) (typed : list bytes)
  : M (list bytes) :=
  (match o_pin o with
   | Some p => if pin_is_valid p (o_any_pin o) then ret tt else raise AdminError
   | None => ret tt end) ;;;
  connect ;;;
  mode <- get_current_mode ;;
  (if mem_N mode [MODE_BOOTLOADER; MODE_SIGNER] then
     onb <- is_onboarded ;; if onb then ret tt else raise AdminError
   else ret tt) ;;;
  (if mode =? MODE_UNKNOWN then raise AdminError else ret tt) ;;;
  (if (mode =? MODE_SIGNER) || (mode =? MODE_UI_HEARTBEAT) then raise AdminError else ret tt) ;;;
  ok <- echo k ;;
  (if ok then ret tt else raise AdminError) ;;;
  pt <- match o_pin o with
        | Some p => ret (p, typed)
        | None => of_optA (ask_for_pin typed true)
        end ;;
  ok2 <- unlock k (fst pt) ;;
  (if ok2 then ret tt else raise AdminError) ;;;
  (match k with
   | KLedger => if do_exit
                then try_catch (exit_menu (negb (o_no_exec o || no_exec)))
                               (fun e => Some (ret tt))       (* except Exception: pass *)
                else ret tt
   | _ => ret tt end) ;;;
  disconnect ;;;
  ret (snd pt).

(* do_onboard up to and including the device-side onboarding and dispose_hsm *)
Definition do_onboard (k : dongle_kind) (o : admin_opts) (stdin : list str) (typed : list bytes)
           (seed : bytes) : M unit :=
  (match k with KLedger => if o_has_output o then ret tt else raise AdminError | _ => ret tt end) ;;;
  (match o_pin o with
   | Some p => if pin_is_valid p false then ret tt else raise AdminError
   | None => ret tt end) ;;;
  connect ;;;
  mode <- get_current_mode ;;
  (if mode =? MODE_BOOTLOADER then ret tt else raise AdminError) ;;;
  ok <- echo k ;;
  (if ok then ret tt else raise AdminError) ;;;
  onb <- is_onboarded ;;
  (if onb then raise AdminError else ret tt) ;;;
  c <- of_optA (confirm stdin) ;;
  (if fst c then ret tt else raise AdminError) ;;;
  pt <- match o_pin o with
        | Some p => ret (p, typed)
        | None => of_optA (ask_for_pin typed (o_any_pin o))
        end ;;
  onboard k seed (fst pt) ;;;
  disconnect.

(* do_onboard again, handing back what the operator has not yet been asked for: the stdin
   lines after the confirmation loop and the getpass entries after the PIN prompt *)
Definition do_onboard_keep (k : dongle_kind) (o : admin_opts) (stdin : list str) (typed : list bytes)
           (seed : bytes) : M (list str * list bytes) :=
  (match k with KLedger => if o_has_output o then ret tt else raise AdminError | _ => ret tt end) ;;;
  (match o_pin o with
   | Some p => if pin_is_valid p false then ret tt else raise AdminError
   | None => ret tt end) ;;;
  connect ;;;
  mode <- get_current_mode ;;
  (if mode =? MODE_BOOTLOADER then ret tt else raise AdminError) ;;;
  ok <- echo k ;;
  (if ok then ret tt else raise AdminError) ;;;
  onb <- is_onboarded ;;
  (if onb then raise AdminError else ret tt) ;;;
  c <- of_optA (confirm stdin) ;;
  (if fst c then ret tt else raise AdminError) ;;;
  pt <- match o_pin o with
        | Some p => ret (p, typed)
        | None => of_optA (ask_for_pin typed (o_any_pin o))
        end ;;
  onboard k seed (fst pt) ;;;
  disconnect ;;;
  ret (snd c, snd pt).

(* do_onboard after the first dispose_hsm (onboard.py 127-152), attestation setup excluded.
   Ledger: "Press [Enter] to continue" consumes one stdin line (readline() gives "" at EOF and
   nothing is raised), wait_for_reconnection only sleeps, then
   try: do_unlock(options, no_exec=True, label=False)  (exit defaults to True)
   except Exception -> AdminError.  SGX returns right after dispose_hsm. *)
Definition onboard_second_half (k : dongle_kind) (o : admin_opts) (stdin_rest : list str)
           (typed_rest : list bytes) : M unit :=
  match k with
  | KLedger =>
      _ <- ret (tl stdin_rest) ;;                                  (* sys.stdin.readline() *)
      try_catch (do_unlock k o true true typed_rest ;;; ret tt)
                (fun e => Some (raise AdminError))                 (* except Exception -> AdminError *)
  | _ => ret tt
  end.

Definition do_onboard_through_unlock (k : dongle_kind) (o : admin_opts) (stdin : list str)
           (typed : list bytes) (seed : bytes) : M unit :=
  r <- do_onboard_keep k o stdin typed seed ;;
  onboard_second_half k o (fst r) (snd r).

(* do_changepin *)
Definition do_changepin (k : dongle_kind) (o : admin_opts) (typed : list bytes) : M unit :=
  (match o_new_pin o with
   | Some p => if pin_is_valid p (o_any_pin o) then ret tt else raise AdminError
   | None => ret tt end) ;;;
  typed' <- (if o_no_unlock o then ret typed
             else try_catch (do_unlock k o false false typed)
                            (fun e => Some (raise AdminError))) ;;    (* except Exception -> AdminError *)
  connect ;;;
  mode <- get_current_mode ;;
  (match k with
   | KLedger => if mode =? MODE_BOOTLOADER then ret tt else raise AdminError
   | _ => ret tt end) ;;;
  pt <- match o_new_pin o with
        | Some p => ret (p, typed')
        | None => of_optA (ask_for_pin typed' (o_any_pin o))
        end ;;
  ok <- new_pin k (fst pt) ;;
  (if ok then ret tt else raise AdminError) ;;;
  disconnect.

(* do_get_pubkeys: the device part; returns the keys per path name in PUBKEY_PATHS order *)
Fixpoint get_keys (paths : list (str * str * bytes)) : M (list (str * str * str)) :=
  match paths with
  | [] => ret []
  | (nm, pth, bin) :: r =>
      k <- get_public_key bin ;;
      more <- get_keys r ;;
      ret ((nm, pth, k) :: more)
  end.

Definition do_get_pubkeys (k : dongle_kind) (o : admin_opts) (typed : list bytes)
  : M (list (str * str * str)) :=
  (if o_no_unlock o then ret tt
   else try_catch (do_unlock k o true false typed ;;; ret tt)
                  (fun e => Some (raise AdminError))) ;;;
  connect ;;;
  mode <- get_current_mode ;;
  (if mem_N mode [MODE_UNKNOWN; MODE_BOOTLOADER] then raise AdminError else ret tt) ;;;
  ks <- get_keys PUBKEY_PATHS ;;
  disconnect ;;;
  ret ks.
