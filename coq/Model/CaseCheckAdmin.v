(* Correspondence checker for the admin commands onboard / unlock / changepin / pubkeys. *)
From PowHsm Require Import Model.Admin.
From PowHsm Require Export Model.CaseCheck.

Inductive admin_cmd := AUnlock (do_exit no_exec : bool) | AOnboard | AChangepin | APubkeys
                     | AOnboardUnlock.   (* onboard.py through the unlock that follows dispose_hsm *)
Inductive aoutcome := ADone | AAdminError | AOther.

Definition aoutcome_eqb (a b : aoutcome) : bool :=
  match a, b with ADone, ADone | AAdminError, AAdminError | AOther, AOther => true | _, _ => false end.

Record dcase := mkDcase {
  dc_cmd : admin_cmd; dc_kind : dongle_kind; dc_opts : admin_opts;
  dc_stdin : list str; dc_typed : list bytes; dc_seed : bytes;
  dc_connects : list bool; dc_script : list resp;
  (* observed *)
  dc_outcome : aoutcome; dc_trace : list event;
  dc_keys : option (list (str * str * str))     (* pubkeys: (name, path, device answer hex) *)
}.

Definition out_of {A} (r : result A) : aoutcome :=
  match r with Ok _ => ADone | Exn AdminError => AAdminError | Exn _ => AOther end.

Definition keys_eqb (a b : list (str * str * str)) : bool :=
  list_eqb (fun x y => str_eqb (fst (fst x)) (fst (fst y)) && str_eqb (snd (fst x)) (snd (fst y))
                       && str_eqb (snd x) (snd y)) a b.

Definition check_dcase (c : dcase) : bool :=
  let w0 := mkWorld (dc_script c) (dc_connects c) false [] false None [] [] in
  let k := dc_kind c in
  let o := dc_opts c in
  let '(oc, w, ks) :=
    match dc_cmd c with
    | AUnlock e n => let '(r, w) := do_unlock k o e n (dc_typed c) w0 in (out_of r, w, None)
    | AOnboard => let '(r, w) := do_onboard k o (dc_stdin c) (dc_typed c) (dc_seed c) w0 in (out_of r, w, None)
    | AOnboardUnlock => let '(r, w) := do_onboard_through_unlock k o (dc_stdin c) (dc_typed c) (dc_seed c) w0 in
                        (out_of r, w, None)
    | AChangepin => let '(r, w) := do_changepin k o (dc_typed c) w0 in (out_of r, w, None)
    | APubkeys => let '(r, w) := do_get_pubkeys k o (dc_typed c) w0 in
                  (out_of r, w, match r with Ok l => Some l | _ => None end)
    end in
  aoutcome_eqb oc (dc_outcome c)
  && list_eqb event_eqb (rev (trace w)) (dc_trace c)
  && match ks, dc_keys c with
     | Some a, Some b => keys_eqb a b
     | _, None => true
     | None, Some _ => false
     end.
