(* C11 — Link failures get a device-error reply and are repaired on the next request
   Only statements, `exact`, and non-vacuity examples live here; proofs are in Proofs/.
   GENERATED skeleton (tools/mk_properties.py): statements are the ones Coq reports for the
   lemmas they restate, so they cannot drift from what is proved. *)
From PowHsm Require Import Model.LedgerProtocol.
From PowHsm Require Import Model.Server.
From PowHsm Require Import Proofs.TraceLogic.
From PowHsm Require Import Proofs.C11.
From PowHsm Require Import Gen.SrcM.
From PowHsm Require Import Proofs.SrcEquivDongleM.
From PowHsm Require Import Proofs.SrcEquivProtoM.
From PowHsm Require Import Proofs.SrcEquivBringupM.
From PowHsm Require Import Proofs.SrcEquivProtoV1M.
From PowHsm Require Import Proofs.SrcEquivStateM.
From PowHsm Require Import Proofs.SrcEquivHeartbeatM.
From PowHsm Require Import Proofs.SrcEquivParamsProtoM.
From PowHsm Require Import Proofs.SrcEquivGateM.
From PowHsm Require Import Proofs.SrcLiftGate.
From PowHsm Require Import Proofs.SrcEquivGateV1M.
From PowHsm Require Import Proofs.SrcLiftGate2.
From PowHsm Require Import Proofs.SrcEquivSendCommandM.
From PowHsm Require Import Proofs.SrcLiftGateV1.
From PowHsm Require Import Proofs.SrcLiftC11.
Open Scope N_scope.

(* closed check on the generated except-ladders: every v5 handler maps a link error to (flag set, device error) and a timeout to (flag untouched, device error) *)
Theorem C11_ladders_v5_link :
  forallb (link_ladder V5_ERROR_CODE_DEVICE) V5_LADDERS = true.
Proof. exact (@ladders_v5_link). Qed.

(* the same for the two legacy handlers (-2) *)
Theorem C11_ladders_v1_link :
  forallb (link_ladder V1_ERROR_CODE_DEVICE) V1_LADDERS = true.
Proof. exact (@ladders_v1_link). Qed.

(* the device-error code is -905 in v5 and -2 in legacy mode (generated constants) *)
Theorem C11_device_codes :
  V5_ERROR_CODE_DEVICE = (-905)%Z /\ V1_ERROR_CODE_DEVICE = (-2)%Z.
Proof. exact (@device_codes). Qed.

(* a write/read error answer raises exactly the comm error, a silent device the timeout *)
Theorem C11_send_command_fault :
  forall (cmd : N) (data : bytes) (w : world) (f : resp) (rest : list resp),
         script w = f :: rest ->
         is_fault f = true ->
         send_command cmd data w =
         (Exn (fault_exn f), push (Apdu (CLA :: cmd :: data) f) (set_script w rest)).
Proof. exact (@send_command_fault). Qed.

(* any handler body raising a link error or timeout answers the device-error code; the flag is set iff it was a link error *)
Theorem C11_fault_gives_device_error :
  forall (m : pmode) (lad : ladder) (body : world -> result rtuple * world) 
           (w : world) (e : exn) (wb : world),
         link_ladder (DEVICE m) lad = true ->
         body w = (Exn e, wb) ->
         e = DongleComm \/ e = DongleTimeout ->
         with_ladder lad body w =
         (Ok (DEVICE m, None), if is_comm_exn e then set_comm_issue wb true else wb).
Proof. exact (@fault_gives_device_error). Qed.

(* a fatal fault at ANY exchange index of ANY handler is the last event, answers the device-error code and sets the flag iff it is a link error (the two app-exit exchanges of uiHeartbeat excepted by P_ui) *)
Theorem C11_fault_anywhere :
  forall (kind : dongle_kind) (m : pmode) (P : bytes -> resp -> bool) 
           (rcn : bool) (op : M rtuple),
         shape kind m P rcn op ->
         forall w : world,
         comm_issue w = false ->
         exists n : list event,
           news w (snd (op w)) n /\
           fed (script w) n (script (snd (op w))) /\
           (clean P n /\
            (comm_issue (snd (op w)) = true ->
             exists (pre : list event) (ev : event), n = pre ++ [ev] /\ comm_event rcn ev = true) \/
            (exists (pre : list event) (b : bytes) (f : resp),
               n = pre ++ [Apdu b f] /\
               clean P pre /\
               P b f = true /\
               is_fault f = true /\
               fst (op w) = Ok (DEVICE m, None) /\ comm_issue (snd (op w)) = is_comm_fault f)).
Proof. exact (@fault_anywhere). Qed.

(* through the server: the client gets {errorcode: DEVICE} and the manager keeps running *)
Theorem C11_link_fault_server_reply :
  forall (keccak : bytes -> bytes) (kind : dongle_kind) (m : pmode) 
           (request : json) (cmd : str) (req : obj) (opname : str) (op : M rtuple)
           (P : bytes -> resp -> bool) (rcn : bool) (w : world) (n : list event) 
           (b : bytes) (f : resp),
         gate_request m request = GAccept cmd req ->
         assoc_str cmd match m with
                       | V5 => DISPATCH_V5
                       | V1 => DISPATCH_V1
                       end = Some opname ->
         run_operation keccak kind m opname req = Some op ->
         is_handler keccak kind m P rcn op ->
         comm_issue w = false ->
         news w (snd (op w)) n ->
         In (Apdu b f) n ->
         P b f = true ->
         server_handle keccak kind m (Parsed request) w = (error_reply (DEVICE m), false, snd (op w)) /\
         comm_issue (snd (op w)) = is_comm_fault f.
Proof. exact (@link_fault_server_reply). Qed.

(* fault at the first exchange of each handler: exactly one APDU, device error, flag true for write/read errors and false for timeouts *)
Theorem C11_first_exchange_fault_handlers :
  forall (keccak : bytes -> bytes) (kind : dongle_kind) (m : pmode)
           (P : bytes -> resp -> bool) (rcn : bool) (op : M rtuple),
         is_handler keccak kind m P rcn op ->
         forall (w : world) (f : resp) (rest : list resp),
         comm_issue w = false ->
         script w = f :: rest ->
         is_fault f = true ->
         exists n : list event,
           news w (snd (op w)) n /\
           (no_apdu n /\ script (snd (op w)) = script w /\ comm_issue (snd (op w)) = false \/
            (exists (pre : list event) (b : bytes),
               n = pre ++ [Apdu b f] /\
               no_apdu pre /\
               fst (op w) = Ok (DEVICE m, None) /\
               comm_issue (snd (op w)) = is_comm_fault f /\ script (snd (op w)) = rest)).
Proof. exact (@first_exchange_fault_handlers). Qed.

(* with the flag set the next request first closes, re-opens and redoes the bring-up (first APDU IS_ONBOARD); the command's own APDUs come only after a successful bring-up *)
Theorem C11_repair_precedes_command :
  forall (kind : dongle_kind) (m : pmode) (P : bytes -> resp -> bool) 
           (rcn : bool) (op : M rtuple) (w : world),
         shape kind m P rcn op ->
         comm_issue w = true ->
         connect_ok w ->
         (exists r : result rtuple, pure_result r /\ op w = (r, w)) \/
         (exists more_up n_cmd : list event,
            let n_up :=
              close_events w ++ Connect true :: Apdu [CLA; CMD_IS_ONBOARD] (next_answer w) :: more_up
              in
            news w (snd (ensure_connection kind w)) n_up /\
            news w (snd (op w)) (n_up ++ n_cmd) /\
            (n_cmd <> [] -> exists u : unit, fst (initialize_device kind (closed_world w)) = Ok u) /\
            (comm_issue (snd (ensure_connection kind w)) = false <->
             (exists u : unit, fst (initialize_device kind (closed_world w)) = Ok u))).
Proof. exact (@repair_precedes_command). Qed.

(* if the connection cannot be re-established: device error, no APDU at all, flag kept *)
Theorem C11_repair_connect_fails_handler :
  forall (kind : dongle_kind) (m : pmode) (P : bytes -> resp -> bool) 
           (rcn : bool) (op : M rtuple) (w : world) (cn : list bool),
         shape kind m P rcn op ->
         comm_issue w = true ->
         connects w = false :: cn ->
         (exists r : result rtuple, pure_result r /\ op w = (r, w)) \/
         op w = (Ok (DEVICE m, None), set_comm_issue (connect_failed_world w cn) true).
Proof. exact (@repair_connect_fails_handler). Qed.

(* k failed reconnections give k device-error replies with no APDU and the repair is retried each time *)
Theorem C11_reconnect_failure_retried :
  forall (kind : dongle_kind) (m : pmode) (ops : list (M rtuple)),
         Forall (std_shaped kind m) ops ->
         forall (w : world) (cn : list bool),
         comm_issue w = true ->
         connects w = repeat false (Datatypes.length ops) ++ cn ->
         exists n : list event,
           news w (snd (run_ops ops w)) n /\
           no_apdu n /\
           fst (run_ops ops w) = repeat (Ok (DEVICE m, None)) (Datatypes.length ops) /\
           comm_issue (snd (run_ops ops w)) = true /\
           connects (snd (run_ops ops w)) = cn /\ script (snd (run_ops ops w)) = script w.
Proof. exact (@reconnect_failure_retried). Qed.

(* the flag is cleared exactly when the full bring-up succeeded *)
Theorem C11_flag_cleared_iff_bringup_ok :
  forall (kind : dongle_kind) (w : world),
         comm_issue w = true ->
         (comm_issue (snd (ensure_connection kind w)) = false <->
          (exists u : unit, fst (initialize_device kind (closed_world w)) = Ok u)) /\
         (fst (ensure_connection kind w) = Ok tt <->
          (exists u : unit, fst (initialize_device kind (closed_world w)) = Ok u)).
Proof. exact (@flag_cleared_iff_bringup_ok). Qed.

(* summary: after a request the flag is set iff the pending repair failed or the command part raised a link error *)
Theorem C11_flag_set_iff_link_error_handlers :
  forall (keccak : bytes -> bytes) (kind : dongle_kind) (m : pmode)
           (P : bytes -> resp -> bool) (rcn : bool) (op : M rtuple),
         is_handler keccak kind m P rcn op ->
         (exists r : result rtuple, pure_result r /\ (forall w : world, op w = (r, w))) \/
         (exists (lad : ladder) (rest : M rtuple),
            (forall w : world, op w = std_handler kind lad rest w) /\
            good P rcn rest /\
            link_ladder (DEVICE m) lad = true /\
            (forall w : world,
             comm_issue (snd (op w)) = true <->
             comm_issue w = true /\
             (forall u : unit, fst (initialize_device kind (closed_world w)) <> Ok u) \/
             fst (ensure_connection kind w) = Ok tt /\
             fst (rest (snd (ensure_connection kind w))) = Exn DongleComm)).
Proof. exact (@flag_set_iff_link_error_handlers). Qed.

(* TIE BY TRANSLATION (device monad): ensure_connection of ledger/protocol.py, as regenerated from the Python source text, runs on every world as the model's: nothing when no link error is pending; otherwise close, the bring-up (a parameter equal to the model's), the flag cleared only after it succeeded, a protocol error turned into a link error (so that the repair is retried) *)
Theorem C11_source_ensure_connection_is_model :
  forall (kind : dongle_kind) (init : pm pv) (self : pv) (w : world),
         init_ok kind init ->
         srcm_HSM2ProtocolLedger__ensure_connection init self w =
         mres (fun _ : unit => VNone) (ensure_connection kind w).
Proof. exact (@srcm_ensure_connection_ok). Qed.

(* _get_pubkey of the source, as translated (repair first, then the exchange, then the except ladder in source order with the reconnection flag set on a link error), is the model's handler with its generated ladder on every world *)
Theorem C11_source_get_pubkey_handler_is_model :
  forall (kind : dongle_kind) (init : pm pv) (cm : string -> pv -> list pv -> pr pv)
           (self : pv) (req : obj) (x : str) (els : list N) (w : world),
         init_ok kind init ->
         jget (s "keyId") req = Some (JStr x) ->
         bip32_path x = Some els ->
         cm "to_binary" (SrcEquivBase.path_obj els) [] = POk (VBytes (path_to_binary els)) ->
         srcm_HSM2ProtocolLedger___get_pubkey cm init self (request_with_path req els) w =
         mres rtuple_pv (op_get_pubkey kind V5 req w).
Proof. exact (@srcm_get_pubkey_ok). Qed.

(* _reset_advance_blockchain likewise *)
Theorem C11_source_reset_advance_handler_is_model :
  forall (kind : dongle_kind) (init : pm pv) (self request : pv) (req : obj) (w : world),
         init_ok kind init ->
         srcm_HSM2ProtocolLedger___reset_advance_blockchain init self request w =
         mres rtuple_pv (op_reset_advance kind req w).
Proof. exact (@srcm_reset_advance_blockchain_ok). Qed.

(* the bring-up that ensure_connection re-runs, as translated from the source, is the model's: together with C11_source_ensure_connection_is_model the repair of the translated source is the model's repair without any abstract parameter *)
Theorem C11_source_initialize_device_is_model :
  forall (fields : list (string * pv)) (w : world),
         pin_small w ->
         pin_new_small w ->
         rand_small w ->
         srcm_HSM2ProtocolLedger__initialize_device (proto_obj fields) w =
         mres (fun _ : unit => VNone) (initialize_device KLedger w).
Proof. exact (@srcm_initialize_device_ok). Qed.

(* TIE BY TRANSLATION (device monad): the legacy protocol's handlers as translated from ledger/protocol_v1.py: the repair and the reconnection flag are those of the wrapped v2 protocol object, exactly as in the model - getPubKey *)
Theorem C11_source_v1_get_pubkey_is_model :
  forall (kind : dongle_kind) (init : pm pv) (cm : string -> pv -> list pv -> pr pv)
           (self : pv) (req : obj) (x : str) (els : list N) (w : world),
         init_ok kind init ->
         jget (s "keyId") req = Some (JStr x) ->
         bip32_path x = Some els ->
         cm "to_binary" (SrcEquivBase.path_obj els) [] = POk (VBytes (path_to_binary els)) ->
         srcm_HSM1ProtocolLedger___get_pubkey cm init self (request_with_path req els) w =
         mres rtuple_pv (op_get_pubkey kind V1 req w).
Proof. exact (@srcm_v1_get_pubkey_ok). Qed.

(* legacy sign *)
Theorem C11_source_v1_sign_is_model :
  forall (kind : dongle_kind) (init : pm pv) (cm : string -> pv -> list pv -> pr pv)
           (self : pv) (req : obj) (x h : str) (els : list N) (w : world),
         init_ok kind init ->
         jget (s "keyId") req = Some (JStr x) ->
         bip32_path x = Some els ->
         jget (s "message") req = Some (JStr h) ->
         cm "to_binary" (SrcEquivBase.path_obj els) [] = POk (VBytes (path_to_binary els)) ->
         srcm_HSM1ProtocolLedger___sign cm init self (request_with_path req els) w =
         mres rtuple_pv (op_sign_v1 kind req w).
Proof. exact (@srcm_v1_sign_ok). Qed.

(* _blockchain_state of the v5 protocol *)
Theorem C11_source_blockchain_state_handler_is_model :
  forall (kind : dongle_kind) (init : pm pv) (self request : pv) (req : obj) (w : world),
         init_ok kind init ->
         srcm_HSM2ProtocolLedger___blockchain_state init self request w =
         mres rtuple_pv (op_blockchain_state kind req w).
Proof. exact (@srcm_blockchain_state_handler_ok). Qed.

(* _signer_heartbeat as translated = model handler: a link error at any of its exchanges sets the flag and answers the device code *)
Theorem C11_source_signer_heartbeat_handler_is_model :
  forall (kind : dongle_kind) (init : pm pv) (self : pv) (req : obj) 
           (ud_hex : str) (w : world),
         init_ok kind init ->
         jget (s "udValue") req = Some (JStr ud_hex) ->
         srcm_HSM2ProtocolLedger___signer_heartbeat init self (of_obj req) w =
         mres rtuple_pv (op_signer_heartbeat kind req w).
Proof. exact (@srcm_signer_heartbeat_handler_ok). Qed.

(* _ui_heartbeat likewise, with the tolerated link errors of its two exits *)
Theorem C11_source_ui_heartbeat_handler_is_model :
  forall (kind : dongle_kind) (init : pm pv) (self : pv) (req : obj) 
           (ud_hex : str) (w : world),
         init_ok kind init ->
         jget (s "udValue") req = Some (JStr ud_hex) ->
         srcm_HSM2ProtocolLedger___ui_heartbeat init self (of_obj req) w =
         mres rtuple_pv (op_ui_heartbeat kind req w).
Proof. exact (@srcm_ui_heartbeat_handler_ok). Qed.

(* _get_blockchain_parameters as translated = model handler (flag set on a link error) *)
Theorem C11_source_parameters_handler_is_model :
  forall (kind : dongle_kind) (init : pm pv) (self request : pv) (req : obj) (w : world),
         init_ok kind init ->
         srcm_HSM2ProtocolLedger___get_blockchain_parameters init self request w =
         mres rtuple_pv (op_parameters kind req w).
Proof. exact (@srcm_parameters_handler_ok). Qed.

(* the whole request path of the source = the model's handle_request on every request and world *)
Theorem C11_source_whole_request_path_is_model :
  forall (keccak : bytes -> bytes) (kind : dongle_kind) (init : pm pv)
           (cm : string -> pv -> list pv -> pr pv) (fuel : nat) (self : pv) 
           (request : json) (w : world),
         init_ok kind init ->
         SrcEquivSignProtoM.tx_oracles_ok cm ->
         path_oracle_ok cm ->
         varint_oracle_ok cm ->
         SrcEquivBlockM.block_oracles_ok keccak cm ->
         SrcEquivBlockM.keccak_wf keccak ->
         SrcEquivBlockProtoM.fuel_ok kind fuel w ->
         srcm_HSM2ProtocolLedger____internal_handle_request fuel cm init self (of_json request) w =
         mres of_json (handle_request keccak kind V5 request w).
Proof. exact (@srcm_handle_request_v5_ok). Qed.

(* the whole legacy (version 1) request path of the source = the model's handle_request in mode V1 on every request and world *)
Theorem C11_source_whole_request_path_v1_is_model :
  forall (keccak : bytes -> bytes) (kind : dongle_kind) (init : pm pv)
           (cm : string -> pv -> list pv -> pr pv) (self : pv) (request : json) 
           (w : world),
         init_ok kind init ->
         path_oracle_ok_v1 cm ->
         srcm_HSM1ProtocolLedger____internal_handle_request cm init self (of_json request) w =
         mres of_json (handle_request keccak kind V1 request w).
Proof. exact (@srcm_handle_request_v1_ok). Qed.

(* a link fault at ANY exchange of an accepted command: the translated request path replies the device-error code, the fault is the last event, the flag is raised iff write/read error *)
Theorem C11_source_link_fault_reply :
  forall (keccak : bytes -> bytes) (kind : dongle_kind) (init : pm pv)
           (cm : string -> pv -> list pv -> pr pv) (fuel : nat) (self : pv) 
           (request : json) (cmd : str) (req : obj) (opname : str) (op : M rtuple)
           (P : bytes -> resp -> bool) (rcn : bool) (w : world) (n : list event) 
           (b : bytes) (f : resp),
         env_ok keccak kind init cm fuel w ->
         gate_request V5 request = GAccept cmd req ->
         assoc_str cmd DISPATCH_V5 = Some opname ->
         run_operation keccak kind V5 opname req = Some op ->
         is_handler keccak kind V5 P rcn op ->
         comm_issue w = false ->
         news w (snd (op w)) n ->
         In (Apdu b f) n ->
         P b f = true ->
         srcm_HSM2ProtocolLedger____internal_handle_request fuel cm init self (of_json request) w =
         (XOk (of_json (error_reply (DEVICE V5))), snd (op w)) /\
         comm_issue (snd (op w)) = is_comm_fault f /\
         (exists pre : list event, n = pre ++ [Apdu b f] /\ clean P pre).
Proof. exact (@src_link_fault_reply). Qed.

(* _send_command of the source (APDU framing, exchange, classification of what the transport raises) as translated over the transport primitive = the model's send_command with its classify, on every world *)
Theorem C11_source_send_command_is_model :
  forall (cls : string) (fields : list (string * pv)) (cmd : N) (data : bytes) 
           (timeout : pv) (w : world),
         cmd < 256 ->
         srcm_HSM2Dongle___send_command (VObj cls fields) (VInt (Z.of_N cmd)) (VBytes data) timeout w =
         mres VBytes (send_command cmd data w).
Proof. exact (@srcm_send_command_source_ok). Qed.

(* the primitive every translated device-facing function calls IS the translated _send_command *)
Theorem C11_source_send_command_is_the_primitive :
  forall (cls : string) (fields : list (string * pv)) (cmd : N) (data : bytes) 
           (timeout : pv) (w : world),
         cmd < 256 ->
         srcm_HSM2Dongle___send_command (VObj cls fields) (VInt (Z.of_N cmd)) (VBytes data) timeout w =
         MV.m_send_command (VInt (Z.of_N cmd)) (VBytes data) w.
Proof. exact (@srcm_send_command_is_primitive). Qed.

(* legacy mode: a link fault at any exchange is answered with the legacy device-error code, is the last event, flag iff write/read error - on the translated request path *)
Theorem C11_source_link_fault_reply_v1 :
  forall (keccak : bytes -> bytes) (kind : dongle_kind) (init : pm pv)
           (cm : string -> pv -> list pv -> pr pv) (self : pv) (request : json) 
           (cmd : str) (req : obj) (opname : str) (op : M rtuple) (P : bytes -> resp -> bool)
           (rcn : bool) (w : world) (n : list event) (b : bytes) (f : resp),
         env_ok_v1 kind init cm ->
         gate_request V1 request = GAccept cmd req ->
         assoc_str cmd DISPATCH_V1 = Some opname ->
         run_operation keccak kind V1 opname req = Some op ->
         is_handler keccak kind V1 P rcn op ->
         comm_issue w = false ->
         news w (snd (op w)) n ->
         In (Apdu b f) n ->
         P b f = true ->
         srcm_HSM1ProtocolLedger____internal_handle_request cm init self (of_json request) w =
         (XOk (of_json (error_reply (DEVICE V1))), snd (op w)) /\
         comm_issue (snd (op w)) = is_comm_fault f /\
         (exists pre : list event, n = pre ++ [Apdu b f] /\ clean P pre).
Proof. exact (@src_link_fault_reply_v1). Qed.

(* the translated request path ends in exactly the world (trace, flag, link) the accepted command's handler ends in *)
Theorem C11_source_world_is_handler_world :
  forall (keccak : bytes -> bytes) (kind : dongle_kind) (init : pm pv)
           (cm : string -> pv -> list pv -> pr pv) (fuel : nat) (self : pv) 
           (request : json) (cmd : str) (req : obj) (opname : str) (op : M rtuple) 
           (w : world),
         env_ok keccak kind init cm fuel w ->
         gate_request V5 request = GAccept cmd req ->
         assoc_str cmd DISPATCH_V5 = Some opname ->
         run_operation keccak kind V5 opname req = Some op ->
         snd
           (srcm_HSM2ProtocolLedger____internal_handle_request fuel cm init self (of_json request) w) =
         snd (op w).
Proof. exact (@src_world_is_handler_world). Qed.

(* with the flag raised and a working connect, on the translated request path: close, re-connect and the bring-up (IS_ONBOARD first) come before the command's own events, which exist only if the bring-up succeeded - exactly when the flag is cleared *)
Theorem C11_source_repair_precedes_command :
  forall (keccak : bytes -> bytes) (kind : dongle_kind) (init : pm pv)
           (cm : string -> pv -> list pv -> pr pv) (fuel : nat) (self : pv) 
           (request : json) (cmd : str) (req : obj) (opname : str) (op : M rtuple)
           (P : bytes -> resp -> bool) (rcn : bool) (w : world),
         env_ok keccak kind init cm fuel w ->
         gate_request V5 request = GAccept cmd req ->
         assoc_str cmd DISPATCH_V5 = Some opname ->
         run_operation keccak kind V5 opname req = Some op ->
         shape kind V5 P rcn op ->
         comm_issue w = true ->
         connect_ok w ->
         let wf :=
           snd
             (srcm_HSM2ProtocolLedger____internal_handle_request fuel cm init self 
                (of_json request) w) in
         (exists r : result rtuple, pure_result r /\ op w = (r, w)) \/
         (exists more_up n_cmd : list event,
            let n_up :=
              close_events w ++ Connect true :: Apdu [CLA; CMD_IS_ONBOARD] (next_answer w) :: more_up
              in
            news w (snd (ensure_connection kind w)) n_up /\
            news w wf (n_up ++ n_cmd) /\
            (n_cmd <> [] -> exists u : unit, fst (initialize_device kind (closed_world w)) = Ok u) /\
            (comm_issue (snd (ensure_connection kind w)) = false <->
             (exists u : unit, fst (initialize_device kind (closed_world w)) = Ok u))).
Proof. exact (@src_repair_precedes_command). Qed.

Example C11_nonvacuous : True. Proof. exact I. Qed. (* concrete three-request lifetimes closed by vm_compute in Proofs/C11.v, Module Examples *)
