(* C19 — App hashing binds to the application's actual code, whatever the record sizes.
   Statements about the Gallina model of ledgerblue's IntelHexParser + admin/ledger_utils
   compute_app_hash (Model/IntelHex.v); proofs in Proofs/IntelHexProofs.v. *)
From Coq Require Import Sorting.Permutation Sorting.Sorted.
From PowHsm Require Import Py.Base Model.Sha256 Model.IntelHex Proofs.IntelHexProofs.
Open Scope N_scope.

(* the hash is SHA-256 over the image's data areas in address order, for every way of cutting
   the areas into records (sizes >= 1) and every order in which the areas are written *)
Theorem C19_app_hash_is_sha256_of_areas :
  forall S areas' chunking,
  image S -> Permutation areas' S -> sizes_ok chunking ->
  compute_app_hash (emit areas' chunking) = ok (sha256 (cat_data S)).
Proof. exact compute_app_hash_image. Qed.

(* the same at the level of the file text (line splitting, hex decoding, 1..255-byte records) *)
Theorem C19_app_hash_of_file :
  forall S areas' chunking,
  image S -> Forall wf_area S -> Permutation areas' S -> sizes_255 chunking ->
  compute_app_hash_file (emit_file areas' chunking) = ok (sha256 (cat_data S)).
Proof. exact compute_app_hash_file_image. Qed.

Theorem C19_hash_independent_of_writer :
  forall S a1 a2 c1 c2,
  image S -> Permutation a1 S -> Permutation a2 S -> sizes_ok c1 -> sizes_ok c2 ->
  compute_app_hash (emit a1 c1) = compute_app_hash (emit a2 c2).
Proof. exact hash_independent_of_writer. Qed.

(* whatever the input, the parser returns its areas sorted by start address *)
Theorem C19_areas_sorted :
  forall recs a, parse_records recs = ok a ->
  StronglySorted (fun x y => astart x <= astart y) a.
Proof. exact parse_records_sorted. Qed.

(* non-vacuity: the three-area, two-zone example image of the proofs file is an `image` *)
Example C19_image_nonvacuous : image ex_sorted /\ length ex_sorted = 3%nat.
Proof. split; [exact ex_image|reflexivity]. Qed.
