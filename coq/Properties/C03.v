(* C03 — No client request can take the manager down or go unanswered (handler logic; sockets observed)
   Only statements, `exact`, and non-vacuity examples live here; proofs are in Proofs/.
   GENERATED skeleton (tools/mk_properties.py): statements are the ones Coq reports for the
   lemmas they restate, so they cannot drift from what is proved. *)
From PowHsm Require Import Model.CommProtocol.
From PowHsm Require Import Model.LedgerProtocol.
From PowHsm Require Import Model.Server.
From PowHsm Require Import Proofs.C02.
From PowHsm Require Import Proofs.C03.
From PowHsm Require Import Gen.Src.
From PowHsm Require Import Proofs.SrcEquivProto.
From PowHsm Require Import Proofs.SrcLiftC02.
From PowHsm Require Import Proofs.SrcEquivGateM.
From PowHsm Require Import Proofs.SrcLiftGate.
From PowHsm Require Import Proofs.SrcEquivGateV1M.
From PowHsm Require Import Proofs.SrcLiftGateV1.
Open Scope N_scope.

(* for every JSON value the request gate answers or accepts; it never raises (rests on the generated command/validator tables) *)
Theorem C03_gate_never_crashes :
  forall (m : pmode) (r : json) (e : pyexc), gate_request m r <> GCrash e.
Proof. exact (@gate_never_crashes). Qed.

(* undecodable bytes, JSON syntax errors and other parser failures are answered with the format error, no shutdown, world untouched *)
Theorem C03_server_handle_unparsed :
  forall (keccak : bytes -> bytes) (kind : dongle_kind) (mode : pmode) 
           (po : parse_outcome) (w : world),
         (forall j : json, po <> Parsed j) ->
         server_handle keccak kind mode po w =
         (JObj [(KEY_ERRORCODE, JInt (c_format (codes_of mode)))], false, w).
Proof. exact (@server_handle_unparsed). Qed.

(* exact characterisation of when the server asks for a shutdown *)
Theorem C03_server_handle_stop_iff :
  forall (keccak : bytes -> bytes) (kind : dongle_kind) (mode : pmode) 
           (po : parse_outcome) (w : world),
         stop_of keccak kind mode po w = true <->
         po = ParserRaised /\ SERVER_PARSER_RAISED_IS_FORMAT_ERROR = false \/
         (exists (j : json) (e : exn) (w' : world),
            po = Parsed j /\
            handle_request keccak kind mode j w = (Exn e, w') /\ e <> Py NotImplementedErr).
Proof. exact (@server_handle_stop_iff). Qed.

(* the server stops only if the operation of an ACCEPTED request itself raised (something other than NotImplementedError) *)
Theorem C03_stop_only_from_operation :
  forall (keccak : bytes -> bytes) (kind : dongle_kind) (mode : pmode) 
           (po : parse_outcome) (w : world),
         stop_of keccak kind mode po w = true ->
         exists
           (j : json) (cmd : str) (req : obj) (opname : str) (op : M rtuple) 
         (e : exn) (w' : world),
           po = Parsed j /\
           gate_request mode j = GAccept cmd req /\
           assoc_str cmd (dispatch_table mode) = Some opname /\
           run_operation keccak kind mode opname req = Some op /\
           op w = (Exn e, w') /\ e <> Py NotImplementedErr.
Proof. exact (@stop_only_from_operation). Qed.

(* every reply handle_request returns is an object with an integer errorcode *)
Theorem C03_reply_has_errorcode :
  forall (keccak : bytes -> bytes) (kind : dongle_kind) (m : pmode) 
           (request : json) (w : world) (reply : json) (w' : world),
         handle_request keccak kind m request w = (Ok reply, w') ->
         exists (kv : list (str * json)) (c : Z),
           reply = JObj kv /\ jget KEY_ERRORCODE kv = Some (JInt c).
Proof. exact (@reply_has_errorcode). Qed.

(* no operation returns a non-negative code without a payload (the IndexError path of the wrapper is dead) *)
Theorem C03_run_operation_ok :
  forall (keccak : bytes -> bytes) (kind : dongle_kind) (m : pmode) 
           (opname : str) (req : obj) (op : M rtuple),
         run_operation keccak kind m opname req = Some op -> okres rt_ok op.
Proof. exact (@run_operation_ok). Qed.

(* over one manager lifetime: as long as no single request stops it, every request is answered, in order *)
Theorem C03_lifetime :
  forall (keccak : bytes -> bytes) (kind : dongle_kind) (mode : pmode)
           (reqs : list parse_outcome) (w : world),
         never_stops keccak kind mode reqs w ->
         let replies := fst (serve keccak kind mode reqs w) in
         replies = run_all keccak kind mode reqs w /\
         Datatypes.length replies = Datatypes.length reqs /\
         Forall (fun rs : json * bool => snd rs = false) replies.
Proof. exact (@lifetime). Qed.

(* any sequence of unparseable or gate-rejected requests is fully answered, never stops the manager and leaves the world unchanged *)
Theorem C03_harmless_lifetime :
  forall (keccak : bytes -> bytes) (kind : dongle_kind) (mode : pmode)
           (reqs : list parse_outcome) (w : world),
         Forall (harmless mode) reqs ->
         snd (serve keccak kind mode reqs w) = w /\
         Datatypes.length (fst (serve keccak kind mode reqs w)) = Datatypes.length reqs /\
         Forall
           (fun rs : json * bool =>
            snd rs = false /\ (exists c : Z, fst rs = JObj [(KEY_ERRORCODE, JInt c)]))
           (fst (serve keccak kind mode reqs w)).
Proof. exact (@harmless_lifetime). Qed.

(* every accepted command maps to an implemented operation *)
Theorem C03_no_error_result_escapes_note :
  forall (keccak : bytes -> bytes) (kind : dongle_kind) (m : pmode) 
           (r : json) (cmd : str) (req : obj),
         gate_request m r = GAccept cmd req ->
         exists (opname : str) (op : M rtuple),
           assoc_str cmd (dispatch_table m) = Some opname /\
           run_operation keccak kind m opname req = Some op.
Proof. exact (@dispatch_total). Qed.

(* the request gate of the source, as translated on this run, is the total function gate_spec of the model: for every JSON value it yields a reply or hands over to an operation; together with C03_gate_never_crashes no value makes it raise *)
Theorem C03_source_gate_total :
  forall (op : pv -> pv -> pr pv) (self : pv) (request : json),
         src_HSM2Protocol____internal_handle_request op self (of_json request) =
         gate_spec V5 op request.
Proof. exact (@src_gate_v5). Qed.

(* the same for the legacy protocol class *)
Theorem C03_source_gate_total_v1 :
  forall (op : pv -> pv -> pr pv) (self : pv) (request : json),
         src_HSM1Protocol____internal_handle_request op self (of_json request) =
         gate_spec V1 op request.
Proof. exact (@src_gate_v1). Qed.

(* the whole request path of the source = the model's handle_request on every request and world *)
Theorem C03_source_whole_request_path_is_model :
  forall (keccak : bytes -> bytes) (kind : dongle_kind) (init : ValM.pm pv)
           (cm : string -> pv -> list pv -> pr pv) (fuel : nat) (self : pv) 
           (request : json) (w : world),
         SrcEquivProtoM.init_ok kind init ->
         SrcEquivSignProtoM.tx_oracles_ok cm ->
         path_oracle_ok cm ->
         varint_oracle_ok cm ->
         SrcEquivBlockM.block_oracles_ok keccak cm ->
         SrcEquivBlockM.keccak_wf keccak ->
         SrcEquivBlockProtoM.fuel_ok kind fuel w ->
         SrcM.srcm_HSM2ProtocolLedger____internal_handle_request fuel cm init self 
           (of_json request) w =
         SrcEquivDongleM.mres of_json (handle_request keccak kind V5 request w).
Proof. exact (@srcm_handle_request_v5_ok). Qed.

(* the translated request path raises exactly when the accepted command's operation raises: a rejected request raises nothing *)
Theorem C03_source_raises_only_from_operation :
  forall (keccak : bytes -> bytes) (kind : dongle_kind) (init : ValM.pm pv)
           (cm : string -> pv -> list pv -> pr pv) (fuel : nat) (self : pv) 
           (request : json) (w : world) (e : exn) (w' : world),
         env_ok keccak kind init cm fuel w ->
         SrcM.srcm_HSM2ProtocolLedger____internal_handle_request fuel cm init self 
           (of_json request) w = (ValM.XRaise e, w') ->
         exists (cmd : str) (req : obj) (opname : str) (op : M rtuple),
           gate_request V5 request = GAccept cmd req /\
           assoc_str cmd (dispatch_table V5) = Some opname /\
           run_operation keccak kind V5 opname req = Some op /\ op w = (Exn e, w').
Proof. exact (@src_raises_only_from_operation). Qed.

(* the whole legacy (version 1) request path of the source = the model's handle_request in mode V1 on every request and world *)
Theorem C03_source_whole_request_path_v1_is_model :
  forall (keccak : bytes -> bytes) (kind : dongle_kind) (init : ValM.pm pv)
           (cm : string -> pv -> list pv -> pr pv) (self : pv) (request : json) 
           (w : world),
         SrcEquivProtoM.init_ok kind init ->
         path_oracle_ok_v1 cm ->
         SrcM.srcm_HSM1ProtocolLedger____internal_handle_request cm init self (of_json request) w =
         SrcEquivDongleM.mres of_json (handle_request keccak kind V1 request w).
Proof. exact (@srcm_handle_request_v1_ok). Qed.

(* legacy mode: the translated request path raises exactly when the accepted command's operation raises *)
Theorem C03_source_raises_only_from_operation_v1 :
  forall (keccak : bytes -> bytes) (kind : dongle_kind) (init : ValM.pm pv)
           (cm : string -> pv -> list pv -> pr pv) (self : pv) (request : json) 
           (w : world) (e : exn) (w' : world),
         env_ok_v1 kind init cm ->
         SrcM.srcm_HSM1ProtocolLedger____internal_handle_request cm init self (of_json request) w =
         (ValM.XRaise e, w') ->
         exists (cmd : str) (req : obj) (opname : str) (op : M rtuple),
           gate_request V1 request = GAccept cmd req /\
           assoc_str cmd (dispatch_table V1) = Some opname /\
           run_operation keccak kind V1 opname req = Some op /\ op w = (Exn e, w').
Proof. exact (@src_raises_only_from_operation_v1). Qed.

Example C03_nonvacuous : True. Proof. exact I. Qed. (* concrete lifetimes closed by vm_compute in Proofs/C03.v, including one that does stop (status outside the device range) *)
