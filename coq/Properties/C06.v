(* C06 — A Ledger attestation is accepted only if every link up to the root key verifies
   Only statements, `exact`, and non-vacuity examples live here; proofs are in Proofs/.
   GENERATED skeleton (tools/mk_properties.py): statements are the ones Coq reports for the
   lemmas they restate, so they cannot drift from what is proved. *)
From PowHsm Require Import Model.Cert.
From PowHsm Require Import Proofs.CertProofs.
From PowHsm Require Import Gen.Src.
From PowHsm Require Import Proofs.SrcEquivCert.
From PowHsm Require Import Proofs.SrcLiftCert.
Open Scope N_scope.

(* for every signature oracle and every path of any depth: the walk reports Valid exactly when it reaches the last element and every link holds w.r.t. its certifier (the root of trust for the topmost element, the previous element after) *)
Theorem C06_valid_iff_all_links :
  forall (link_ok : celem -> certifier -> bool) (cf : certifier) (path : list celem)
           (e : celem),
         validate_down link_ok cf path = Some (Valid e) <->
         (exists pre : list celem, path = pre ++ [e]) /\ links_hold link_ok cf path.
Proof. exact (@valid_iff_all_links). Qed.

(* otherwise the element named is the first one, walking down from the root, whose link fails *)
Theorem C06_first_failure_reported :
  forall (link_ok : celem -> certifier -> bool) (cf : certifier) (path : list celem)
           (n : json),
         validate_down link_ok cf path = Some (Invalid n) <->
         (exists (pre : list celem) (x : celem) (post : list celem),
            path = pre ++ x :: post /\
            links_hold link_ok cf pre /\ link_ok x (cf_after cf pre) = false /\ n = ce_name x).
Proof. exact (@first_failure_reported). Qed.

(* the two cases are exhaustive *)
Theorem C06_verdict_dichotomy :
  forall (link_ok : celem -> certifier -> bool) (cf : certifier) (x : celem) (r : list celem),
         links_hold link_ok cf (x :: r) /\
         validate_down link_ok cf (x :: r) = Some (Valid (last r x)) \/
         (exists n : json, validate_down link_ok cf (x :: r) = Some (Invalid n)).
Proof. exact (@verdict_dichotomy). Qed.

(* certificate level: a target is valid iff every link on ITS root path holds *)
Theorem C06_target_valid_iff :
  forall (link_ok : celem -> certifier -> bool) (c : cert) (tg : json) (e : celem),
         validate_target link_ok c tg = Some (Valid e) <->
         (exists p : list celem,
            target_path c tg = Some p /\
            tbl_get tg (c_elems c) = Some e /\ links_hold link_ok ByRoot p).
Proof. exact (@target_valid_iff). Qed.

(* certificate level: first failing element from the root *)
Theorem C06_target_invalid_iff :
  forall (link_ok : celem -> certifier -> bool) (c : cert) (tg n : json),
         validate_target link_ok c tg = Some (Invalid n) <->
         (exists (p pre : list celem) (x : celem) (post : list celem),
            target_path c tg = Some p /\
            p = pre ++ x :: post /\
            links_hold link_ok ByRoot pre /\ link_ok x (cf_after ByRoot pre) = false /\ n = ce_name x).
Proof. exact (@target_invalid_iff). Qed.

(* when valid, the element returned (whose signed message is the reported value) is the one stored under the target's own name *)
Theorem C06_valid_value_is_target_message :
  forall (link_ok : celem -> certifier -> bool) (c : cert) (tg : json) (e : celem),
         validate_target link_ok c tg = Some (Valid e) -> tbl_get tg (c_elems c) = Some e.
Proof. exact (@valid_value_is_target_message). Qed.

(* the verdict of a target depends only on the elements of its own path *)
Theorem C06_targets_independent :
  forall (link_ok : celem -> certifier -> bool) (c1 c2 : cert) (tg : json) (p : list celem),
         cert_ok c1 ->
         In tg (c_targets c1) ->
         root_name (c_version c2) = root_name (c_version c1) ->
         target_path c1 tg = Some p ->
         (forall x : celem,
          In x p -> tbl_get (ce_name x) (c_elems c2) = tbl_get (ce_name x) (c_elems c1)) ->
         target_path c2 tg = Some p /\ validate_target link_ok c2 tg = validate_target link_ok c1 tg.
Proof. exact (@targets_independent). Qed.

(* every target of a loaded certificate gets a verdict, for every oracle *)
Theorem C06_validate_total :
  forall (b64_norm : str -> option str) (link_ok : celem -> certifier -> bool) 
           (version : Z) (m : obj) (c : cert) (tg : json),
         parse_cert b64_norm version m = LOk c ->
         In tg (c_targets c) -> exists v : verdict, validate_target link_ok c tg = Some v.
Proof. exact (@validate_total). Qed.

(* TIE BY TRANSLATION: HSMCertificate.validate_and_get_values of admin/certificate_v1.py, as regenerated from the Python source text on this run (two while-loops, list append / pop, result dictionary), returns for every certificate with string names whose targets resolve, every root object and every behaviour of the element methods (oracles) exactly the verdict map of the model - entry (True, value, tweak) or (False, first failing name) per target - given fuel of at least the number of elements plus one *)
Theorem C06_source_walk_is_model :
  forall (link_ok : celem -> certifier -> bool) (value_of tweak_of : celem -> pr pv)
           (root_pv : pv) (call_method : string -> pv -> list pv -> pr pv) 
           (c : cert) (fuel : nat),
         oracle_ok link_ok value_of tweak_of root_pv call_method ->
         c_version c = 1%Z ->
         str_named c ->
         targets_resolve link_ok c ->
         (S (Datatypes.length (c_elems c)) <= fuel)%nat ->
         src_HSMCertificate__validate_and_get_values fuel call_method (cert_pv c) root_pv =
         spec_results link_ok value_of tweak_of c (c_targets c) [].
Proof. exact (@src_validate_v1_ok). Qed.

(* hence: the dictionary the source returns reports a target valid - (True, value, tweak) under its name - exactly when every link on that target's path up to the root of trust verifies *)
Theorem C06_source_target_reported_valid_iff :
  forall (link_ok : celem -> certifier -> bool) (value_of tweak_of : celem -> pr pv)
           (root_pv : pv) (call_method : string -> pv -> list pv -> pr pv) 
           (c : cert) (fuel : nat) (d : list (str * pv)) (tg : json),
         oracle_ok link_ok value_of tweak_of root_pv call_method ->
         c_version c = 1%Z ->
         str_named c ->
         targets_resolve link_ok c ->
         (S (Datatypes.length (c_elems c)) <= fuel)%nat ->
         src_HSMCertificate__validate_and_get_values fuel call_method (cert_pv c) root_pv =
         POk (VDict d) ->
         In tg (c_targets c) ->
         (exists val tw : pv, vassoc (key_str tg) d = Some (VList [VBool true; val; tw])) <->
         (exists (p : list celem) (e : celem),
            target_path c tg = Some p /\
            tbl_get tg (c_elems c) = Some e /\ links_hold link_ok ByRoot p).
Proof. exact (@src_v1_target_reported_valid_iff). Qed.

(* and reports it invalid with name n exactly when n names the first element, walking down from the root, whose link fails *)
Theorem C06_source_target_reported_invalid_iff :
  forall (link_ok : celem -> certifier -> bool) (value_of tweak_of : celem -> pr pv)
           (root_pv : pv) (call_method : string -> pv -> list pv -> pr pv) 
           (c : cert) (fuel : nat) (d : list (str * pv)) (tg n : json),
         oracle_ok link_ok value_of tweak_of root_pv call_method ->
         c_version c = 1%Z ->
         str_named c ->
         targets_resolve link_ok c ->
         (S (Datatypes.length (c_elems c)) <= fuel)%nat ->
         src_HSMCertificate__validate_and_get_values fuel call_method (cert_pv c) root_pv =
         POk (VDict d) ->
         In tg (c_targets c) ->
         is_jstr_b n = true ->
         vassoc (key_str tg) d = Some (VList [VBool false; of_json n]) <->
         (exists (p pre : list celem) (x : celem) (post : list celem),
            target_path c tg = Some p /\
            p = pre ++ x :: post /\
            links_hold link_ok ByRoot pre /\ link_ok x (cf_after ByRoot pre) = false /\ n = ce_name x).
Proof. exact (@src_v1_target_reported_invalid_iff). Qed.

Example C06_nonvacuous : True. Proof. exact I. Qed. (* four-element chains (device -> attestation -> ui/signer) closed by vm_compute in Proofs/CertProofs.v, Module Examples: all valid, first failure named, one target bad while the other stays valid *)
