(* C18 — Admin commands touch seed and PIN only under their preconditions
   Only statements, `exact`, and non-vacuity examples live here; proofs are in Proofs/.
   GENERATED skeleton (tools/mk_properties.py): statements are the ones Coq reports for the
   lemmas they restate, so they cannot drift from what is proved. *)
From PowHsm Require Import Model.Admin.
From PowHsm Require Import Proofs.TraceLogic.
From PowHsm Require Import Proofs.C09.
From PowHsm Require Import Proofs.C10.
From PowHsm Require Import Proofs.C18.
From PowHsm Require Import Gen.Src.
From PowHsm Require Import Proofs.SrcEquivPin.
From PowHsm Require Import Proofs.SrcLiftPin.
From PowHsm Require Import Proofs.C18b.
From PowHsm Require Import Gen.SrcM.
From PowHsm Require Import Proofs.SrcEquivDongleM.
From PowHsm Require Import Proofs.SrcEquivPinM.
From PowHsm Require Import Proofs.SrcEquivSgxM.
Open Scope N_scope.

(* the confirmation loop returns yes iff the first line that normalises to yes / n / no is a yes *)
Theorem C18_confirm_yes_iff :
  forall stdin r : list str,
         confirm stdin = Some (true, r) <->
         (exists (junk : list str) (l : str),
            stdin = junk ++ l :: r /\ norm_answer l = s "yes" /\ Forall undecided junk).
Proof. exact (@confirm_yes_iff). Qed.

(* and no iff it is n or no *)
Theorem C18_confirm_no_iff :
  forall stdin r : list str,
         confirm stdin = Some (false, r) <->
         (exists (junk : list str) (l : str),
            stdin = junk ++ l :: r /\
            (norm_answer l = s "n" \/ norm_answer l = s "no") /\ Forall undecided junk).
Proof. exact (@confirm_no_iff). Qed.

(* the PIN prompt returns the first typed entry that passes the policy in force *)
Theorem C18_ask_for_pin_iff :
  forall (typed : list bytes) (any : bool) (p : bytes) (r : list bytes),
         ask_for_pin typed any = Some (p, r) <->
         (exists bad : list bytes,
            typed = bad ++ p :: r /\
            Forall (fun x : bytes => pin_is_valid x any = false) bad /\ pin_is_valid p any = true).
Proof. exact (@ask_for_pin_iff). Qed.

(* shape of every onboarding run, for every device script, operator input and platform *)
Theorem C18_do_onboard_shape :
  forall (k : dongle_kind) (o : admin_opts) (stdin : list str) (typed : list bytes)
           (seed : bytes),
         spec (do_onboard k o stdin typed seed)
           (fun (_ : world) (r : result unit) (n : list event) (_ : world) =>
            OnboardShape k o stdin typed seed r n).
Proof. exact (@do_onboard_shape). Qed.

(* a SEED / SEND_PIN / WIPE / SGX_ONBOARD APDU is sent only after connect, mode = bootloader, correct echo, not-onboarded answer (in that order), an explicit yes, a valid command-line PIN if one was given, a 32-byte seed, and (Ledger) an output file *)
Theorem C18_onboard_destructive_only_under_preconditions :
  forall (k : dongle_kind) (o : admin_opts) (stdin : list str) (typed : list bytes)
           (seed : bytes) (w : world) (n1 : list event) (u : event) (n2 : list event),
         new_events w (snd (do_onboard k o stdin typed seed w)) = n1 ++ u :: n2 ->
         destructive u = true ->
         InOrder (onboard_pre_events k) n1 /\
         (exists rest : list str, confirm stdin = Some (true, rest)) /\
         (forall p : bytes, o_pin o = Some p -> pin_is_valid p false = true) /\
         Datatypes.length seed = 32%nat /\ (k = KLedger -> o_has_output o = true).
Proof. exact (@onboard_destructive_only_under_preconditions). Qed.

(* the operator's part spelled out *)
Theorem C18_onboard_destructive_needs_yes :
  forall (k : dongle_kind) (o : admin_opts) (stdin : list str) (typed : list bytes)
           (seed : bytes) (w : world) (n1 : list event) (u : event) (n2 : list event),
         new_events w (snd (do_onboard k o stdin typed seed w)) = n1 ++ u :: n2 ->
         destructive u = true ->
         exists (junk : list str) (l : str) (rest : list str),
           stdin = junk ++ l :: rest /\ norm_answer l = s "yes" /\ Forall undecided junk.
Proof. exact (@onboard_destructive_needs_yes). Qed.

(* what is sent is the 32 random bytes, in order, one per SEED APDU, then the length-prefixed PIN, then WIPE (Ledger); one SGX_ONBOARD APDU seed ++ pin (SGX) *)
Theorem C18_onboard_seed_is_the_random_bytes :
  forall (k : dongle_kind) (o : admin_opts) (stdin : list str) (typed : list bytes)
           (seed : bytes) (w : world),
         let n := new_events w (snd (do_onboard k o stdin typed seed w)) in
         Exists (fun e : event => destructive e = true) n ->
         Datatypes.length seed = 32%nat /\
         (exists (pin : bytes) (pre mid cl : list event),
            n = pre ++ mid ++ cl /\
            Nob destructive pre /\
            Nob destructive cl /\
            OnboardSent k seed pin (is_ok (fst (do_onboard k o stdin typed seed w))) mid).
Proof. exact (@onboard_seed_is_the_random_bytes). Qed.

(* APDU j of the seed is [CLA; SEED; j; seed[j]] *)
Theorem C18_onboard_seed_apdu_j :
  forall (seed : bytes) (sa : list resp) (j : nat) (e : event),
         nth_error (idx_events CMD_SEED 0 seed sa) j = Some e ->
         exists (b : N) (a : resp),
           nth_error seed j = Some b /\ e = Apdu [CLA; CMD_SEED; N.of_nat j; b] a.
Proof. exact (@onboard_seed_apdu_j). Qed.

(* the PIN sent by onboarding is alphanumeric, and 8 characters with a letter unless any-PIN was allowed *)
Theorem C18_onboard_pin_policy :
  forall (k : dongle_kind) (o : admin_opts) (stdin : list str) (typed : list bytes)
           (seed : bytes) (w : world),
         let n := new_events w (snd (do_onboard k o stdin typed seed w)) in
         Exists (fun e : event => destructive e = true) n ->
         exists (pin : bytes) (pre mid cl : list event),
           n = pre ++ mid ++ cl /\
           Nob destructive pre /\
           Nob destructive cl /\
           OnboardSent k seed pin (is_ok (fst (do_onboard k o stdin typed seed w))) mid /\
           Forall alnum pin /\
           (o_any_pin o = false -> policy_pin pin) /\
           (forall p : bytes, o_pin o = Some p -> pin = p /\ policy_pin pin) /\
           (o_pin o = None ->
            exists bad rest : list bytes,
              typed = bad ++ pin :: rest /\
              Forall (fun x : bytes => pin_is_valid x (o_any_pin o) = false) bad).
Proof. exact (@onboard_pin_policy). Qed.

(* shape of every PIN change run *)
Theorem C18_do_changepin_shape :
  forall (k : dongle_kind) (o : admin_opts) (typed : list bytes),
         spec (do_changepin k o typed)
           (fun (w : world) (r : result unit) (n : list event) (_ : world) =>
            ChangepinShape k o typed w r n).
Proof. exact (@do_changepin_shape). Qed.

(* the only new-PIN APDUs of a PIN change carry a PIN that passed the policy in force *)
Theorem C18_changepin_pin_policy :
  forall (k : dongle_kind) (o : admin_opts) (typed : list bytes) (w : world),
         let n := new_events w (snd (do_changepin k o typed w)) in
         exists nu nc : list event,
           n = nu ++ nc /\
           (nu = [] \/
            o_no_unlock o = false /\ nu = new_events w (snd (do_unlock k o false false typed w))) /\
           (Nob newpin_ev nc \/
            (exists (pin : bytes) (pre mid post : list event),
               nc = pre ++ mid ++ post /\
               Nob newpin_ev pre /\
               Nob newpin_ev post /\
               NewPinSent k pin mid /\
               pin_is_valid pin (o_any_pin o) = true /\
               Forall alnum pin /\
               (o_any_pin o = false -> policy_pin pin) /\
               (forall p : bytes, o_new_pin o = Some p -> pin = p) /\
               (o_new_pin o = None -> In pin typed))).
Proof. exact (@changepin_pin_policy). Qed.

(* shape of every unlock run *)
Theorem C18_do_unlock_shape :
  forall (k : dongle_kind) (o : admin_opts) (e ne : bool) (typed : list bytes),
         spec (do_unlock k o e ne typed)
           (fun (_ : world) (r : result (list bytes)) (n : list event) (_ : world) =>
            Nob pin_bearing n /\ is_ok r = false \/
            (exists pre rest : list event, n = pre ++ rest /\ UnlockChecked k o pre)).
Proof. exact (@do_unlock_shape). Qed.

(* a PIN-bearing APDU of unlock is preceded by connect, mode = bootloader, onboarded, correct echo *)
Theorem C18_unlock_pin_only_when :
  forall (k : dongle_kind) (o : admin_opts) (e ne : bool) (typed : list bytes) 
           (w : world) (n1 : list event) (u : event) (n2 : list event),
         new_events w (snd (do_unlock k o e ne typed w)) = n1 ++ u :: n2 ->
         pin_bearing u = true ->
         InOrder (unlock_pre_events k) n1 /\
         (forall p : bytes, o_pin o = Some p -> pin_is_valid p (o_any_pin o) = true).
Proof. exact (@unlock_pin_only_when). Qed.

(* no PIN is sent in any other mode *)
Theorem C18_unlock_wrong_mode_no_pin :
  forall (k : dongle_kind) (o : admin_opts) (e ne : bool) (typed : list bytes) 
           (w : world) (n1 : list event) (u : event) (n2 : list event),
         new_events w (snd (do_unlock k o e ne typed w)) = n1 ++ u :: n2 ->
         pin_bearing u = true ->
         exists (l1 : list event) (d : bytes) (l2 : list event),
           n1 = l1 ++ Apdu [CLA; CMD_GET_MODE] (Data d) :: l2 /\ idx d 1 = Some MODE_BOOTLOADER.
Proof. exact (@unlock_wrong_mode_no_pin). Qed.

(* typed entries not consumed by unlock are handed on unchanged *)
Theorem C18_do_unlock_returns_suffix :
  forall (k : dongle_kind) (o : admin_opts) (e ne : bool) (typed : list bytes),
         rspec (do_unlock k o e ne typed)
           (fun t : list bytes => exists l : list bytes, typed = l ++ t).
Proof. exact (@do_unlock_returns_suffix). Qed.

(* Ledger: with an honest device and the preconditions, onboarding completes with exactly the expected exchanges *)
Theorem C18_carried_out_when_preconditions_hold :
  forall (o : admin_opts) (stdin : list str) (typed : list bytes) 
           (seed : list N) (w : world) (pin : bytes) (crest : list str) (dm dob : bytes)
           (sds pds : list bytes) (dw : bytes) (rest : list resp),
         o_has_output o = true ->
         conn_ok w ->
         OnboardPin o typed pin ->
         confirm stdin = Some (true, crest) ->
         Datatypes.length seed = 32%nat ->
         script w =
         Data dm
         :: Data (CLA :: CMD_ECHO :: echo_msg)
            :: Data dob :: map Data sds ++ map Data pds ++ Data dw :: rest ->
         idx dm 1 = Some MODE_BOOTLOADER ->
         (exists x : N, idx dob 1 = Some x /\ x <> 1) ->
         Datatypes.length sds = 32%nat ->
         Datatypes.length pds = S (Datatypes.length pin) ->
         idx dw 1 = Some 2 ->
         exists w' : world,
           do_onboard KLedger o stdin typed seed w = (Ok tt, w') /\
           new_events w w' =
           Connect true
           :: Apdu [CLA; CMD_GET_MODE] (Data dm)
              :: Apdu (CLA :: CMD_ECHO :: echo_msg) (Data (CLA :: CMD_ECHO :: echo_msg))
                 :: Apdu [CLA; CMD_IS_ONBOARD] (Data dob)
                    :: idx_events CMD_SEED 0 seed (map Data sds) ++
                       idx_events CMD_SEND_PIN 0 (nlen pin :: pin) (map Data pds) ++
                       [Apdu [CLA; CMD_WIPE] (Data dw); Close] /\ script w' = rest.
Proof. exact (@carried_out_when_preconditions_hold). Qed.

(* SGX likewise *)
Theorem C18_carried_out_when_preconditions_hold_sgx :
  forall (o : admin_opts) (stdin : list str) (typed : list bytes) 
           (seed : list N) (w : world) (pin : bytes) (crest : list str) (dm dob dn : bytes)
           (rest : list resp),
         conn_ok w ->
         OnboardPin o typed pin ->
         confirm stdin = Some (true, crest) ->
         Datatypes.length seed = 32%nat ->
         script w =
         Data dm :: Data (CLA :: SGXCMD_SGX_ECHO :: echo_msg) :: Data dob :: Data dn :: rest ->
         idx dm 1 = Some MODE_BOOTLOADER ->
         (exists x : N, idx dob 1 = Some x /\ x <> 1) ->
         idx dn 2 = Some 1 ->
         exists w' : world,
           do_onboard KSgx o stdin typed seed w = (Ok tt, w') /\
           new_events w w' =
           [Connect true; Apdu [CLA; CMD_GET_MODE] (Data dm);
            Apdu (CLA :: SGXCMD_SGX_ECHO :: echo_msg) (Data (CLA :: SGXCMD_SGX_ECHO :: echo_msg));
            Apdu [CLA; CMD_IS_ONBOARD] (Data dob);
            Apdu (CLA :: SGXCMD_SGX_ONBOARD :: 0 :: seed ++ pin) (Data dn); Close] /\
           script w' = rest.
Proof. exact (@carried_out_when_preconditions_hold_sgx). Qed.

(* the keys returned are the device's answers to GET_PUBLIC_KEY for the documented paths, in order *)
Theorem C18_pubkeys_are_device_keys :
  forall (k : dongle_kind) (o : admin_opts) (typed : list bytes) (w : world)
           (ks : list (str * str * str)) (w' : world),
         do_get_pubkeys k o typed w = (Ok ks, w') -> PubkeysRun (new_events w w') ks.
Proof. exact (@pubkeys_are_device_keys). Qed.

(* exactly one per path (six) *)
Theorem C18_pubkeys_one_per_path :
  forall (k : dongle_kind) (o : admin_opts) (typed : list bytes) (w : world)
           (ks : list (str * str * str)) (w' : world),
         do_get_pubkeys k o typed w = (Ok ks, w') ->
         Datatypes.length ks = 6%nat /\
         map (fun e : str * str * str => (fst (fst e), snd (fst e))) ks =
         map (fun p : str * str * bytes => (fst (fst p), snd (fst p))) PUBKEY_PATHS /\
         (exists (nu : list event) (ds : list bytes) (tl_ : list event),
            new_events w w' = nu ++ key_events PUBKEY_PATHS ds ++ tl_ /\
            Datatypes.length ds = 6%nat /\
            (forall (j : nat) (nm pth : str) (bin d : bytes),
             nth_error PUBKEY_PATHS j = Some (nm, pth, bin) ->
             nth_error ds j = Some d ->
             nth_error ks j = Some (nm, pth, hex d) /\
             nth_error (key_events PUBKEY_PATHS ds) j =
             Some (Apdu (CLA :: CMD_GET_PUBLIC_KEY :: bin) (Data d)))).
Proof. exact (@pubkeys_one_per_path). Qed.

(* TIE BY TRANSLATION: the PIN policy the admin commands apply (BasePin.is_valid as regenerated from the source text): exactly 8 alphanumeric ASCII bytes with at least one letter *)
Theorem C18_source_pin_policy_iff :
  forall (cls : pv) (p : bytes),
         wf_bytes p ->
         src_BasePin__is_valid cls (VBytes p) (VBool false) = POk (VBool true) <->
         Datatypes.length p = 8%nat /\ Forall alnum p /\ Exists alpha p.
Proof. exact (@src_pin_policy_iff). Qed.

(* with any-pin allowed: any string of alphanumeric ASCII bytes *)
Theorem C18_source_pin_any_policy_iff :
  forall (cls : pv) (p : bytes),
         wf_bytes p ->
         src_BasePin__is_valid cls (VBytes p) (VBool true) = POk (VBool true) <-> Forall alnum p.
Proof. exact (@src_pin_any_policy_iff). Qed.

(* the onboarding model that also returns the unread input is the onboarding model (same outcome, same world) *)
Theorem C18_onboard_keep_agrees :
  forall (k : dongle_kind) (o : admin_opts) (stdin : list str) (typed : list bytes)
           (seed : bytes) (w : world),
         do_onboard k o stdin typed seed w = result_to_unit (do_onboard_keep k o stdin typed seed w).
Proof. exact (@do_onboard_keep_agrees). Qed.

(* Ledger onboarding continued through 'disconnect and re-connect': its events are those of the device-side onboarding followed by those of the unlock step; a failed first half sends nothing more *)
Theorem C18_onboard_through_unlock_split :
  forall (k : dongle_kind) (o : admin_opts) (stdin : list str) (typed : list bytes)
           (seed : bytes) (w : world),
         let (r0, w1) := do_onboard_keep k o stdin typed seed w in
         match r0 with
         | Ok r =>
             do_onboard_through_unlock k o stdin typed seed w =
             onboard_second_half k o (fst r) (snd r) w1 /\
             new_events w (snd (do_onboard_through_unlock k o stdin typed seed w)) =
             new_events w w1 ++ new_events w1 (snd (onboard_second_half k o (fst r) (snd r) w1))
         | Exn e =>
             do_onboard_through_unlock k o stdin typed seed w = (Exn e, w1) /\
             new_events w (snd (do_onboard_through_unlock k o stdin typed seed w)) = new_events w w1
         end.
Proof. exact (@onboard_through_unlock_split). Qed.

(* the unlock step that follows onboarding sends a PIN-bearing APDU only after, in order, connect, mode = bootloader, onboarded, correct echo - whatever device shows up after the re-connection *)
Theorem C18_onboard_second_half_pin_only_when :
  forall (k : dongle_kind) (o : admin_opts) (stdin_rest : list str) 
           (typed_rest : list bytes) (w : world) (n1 : list event) (u : event) 
           (n2 : list event),
         new_events w (snd (onboard_second_half k o stdin_rest typed_rest w)) = n1 ++ u :: n2 ->
         pin_bearing u = true ->
         InOrder (unlock_pre_events k) n1 /\
         (forall p : bytes, o_pin o = Some p -> pin_is_valid p (o_any_pin o) = true).
Proof. exact (@onboard_second_half_pin_only_when). Qed.

(* hence every PIN-bearing APDU sent after the device-side onboarding is preceded, since then, by those answers *)
Theorem C18_onboard_through_unlock_pin_after_onboarding :
  forall (k : dongle_kind) (o : admin_opts) (stdin : list str) (typed : list bytes)
           (seed : bytes) (w : world) (r : list str * list bytes) (w1 : world) 
           (n1 : list event) (u : event) (n2 : list event),
         do_onboard_keep k o stdin typed seed w = (Ok r, w1) ->
         new_events w1 (snd (do_onboard_through_unlock k o stdin typed seed w)) = n1 ++ u :: n2 ->
         pin_bearing u = true ->
         InOrder (unlock_pre_events k) n1 /\
         (forall p : bytes, o_pin o = Some p -> pin_is_valid p (o_any_pin o) = true).
Proof. exact (@onboard_through_unlock_pin_after_onboarding). Qed.

(* TIE BY TRANSLATION (device monad): onboard of ledger/hsm2dongle.py (Ledger), as regenerated from the source text, is the model's on every world: 32 SEED exchanges (i, seed[i]) in order, the length-prefixed PIN, WIPE; a seed that is not 32 bytes sends nothing *)
Theorem C18_source_onboard_is_model :
  forall (self : pv) (seed pin : bytes) (w : world),
         small_bytes pin ->
         wf_bytes seed ->
         srcm_HSM2Dongle__onboard self (VBytes seed) (VBytes pin) w =
         mres VBool (onboard KLedger seed pin w).
Proof. exact (@srcm_onboard_ok). Qed.

(* unlock likewise *)
Theorem C18_source_unlock_is_model :
  forall (self : pv) (pin : bytes) (w : world),
         small_bytes pin ->
         srcm_HSM2Dongle__unlock self (VBytes pin) w = mres VBool (unlock KLedger pin w).
Proof. exact (@srcm_unlock_ok). Qed.

(* new_pin likewise *)
Theorem C18_source_new_pin_is_model :
  forall (self : pv) (pin : bytes) (w : world),
         small_bytes pin ->
         srcm_HSM2Dongle__new_pin self (VBytes pin) w = mres VBool (new_pin KLedger pin w).
Proof. exact (@srcm_new_pin_ok). Qed.

(* HSM2DongleSGX.onboard as translated = the model's SGX branch on every world (one ONBOARD APDU carrying seed then PIN) *)
Theorem C18_source_sgx_onboard_is_model :
  forall (self : pv) (seed pin : bytes) (w : world),
         wf_bytes pin ->
         wf_bytes seed ->
         srcm_HSM2DongleSGX__onboard self (VBytes seed) (VBytes pin) w =
         mres VBool (onboard KSgx seed pin w).
Proof. exact (@srcm_sgx_onboard_ok). Qed.

(* HSM2DongleSGX.unlock likewise *)
Theorem C18_source_sgx_unlock_is_model :
  forall (self : pv) (pin : bytes) (w : world),
         wf_bytes pin ->
         srcm_HSM2DongleSGX__unlock self (VBytes pin) w = mres VBool (unlock KSgx pin w).
Proof. exact (@srcm_sgx_unlock_ok). Qed.

(* HSM2DongleSGX.new_pin likewise *)
Theorem C18_source_sgx_new_pin_is_model :
  forall (self : pv) (pin : bytes) (w : world),
         wf_bytes pin ->
         srcm_HSM2DongleSGX__new_pin self (VBytes pin) w = mres VBool (new_pin KSgx pin w).
Proof. exact (@srcm_sgx_new_pin_ok). Qed.

(* HSM2DongleSGX.echo likewise *)
Theorem C18_source_sgx_echo_is_model :
  forall (self : pv) (w : world), srcm_HSM2DongleSGX__echo self w = mres VBool (echo KSgx w).
Proof. exact (@srcm_sgx_echo_ok). Qed.

Example C18_nonvacuous : length PUBKEY_PATHS = 6%nat. Proof. exact pubkey_paths_are_six. Qed. (* vm_compute examples in Proofs/C18.v: ex_ledger_onboarded (42 destructive APDUs at exact positions), ex_carried_out_applies, ex_operator_says_no, ex_already_onboarded, ex_signer_mode_refused, ex_bad_echo_refused, ex_digits_only_pin_refused, ex_short_seed_refused, ex_sgx_onboarded, ex_unlock_sends_pin, ex_changepin, ex_pubkeys *)
