(* C10 — The PIN kept on disk always opens the device (proved in part; recoverability REFUTED by four fault kinds)
   Only statements, `exact`, and non-vacuity examples live here; proofs are in Proofs/.
   GENERATED skeleton (tools/mk_properties.py): statements are the ones Coq reports for the
   lemmas they restate, so they cannot drift from what is proved. *)
From PowHsm Require Import Model.Pin.
From PowHsm Require Import Model.Bringup.
From PowHsm Require Import Model.PinHistory.
From PowHsm Require Import Proofs.C10.
From PowHsm Require Import Gen.Src.
From PowHsm Require Import Proofs.SrcEquivPin.
From PowHsm Require Import Proofs.SrcLiftPin.
From PowHsm Require Import Gen.SrcM.
From PowHsm Require Import Proofs.SrcEquivDongleM.
From PowHsm Require Import Proofs.SrcEquivPinM.
From PowHsm Require Import Proofs.SrcEquivBringupM.
From PowHsm Require Import Proofs.SrcEquivSgxM.
Open Scope N_scope.

(* device policy: 8 alphanumeric characters, at least one letter (tied to the generated character tables by closed checks) *)
Theorem C10_pin_is_valid_spec :
  forall p : bytes,
         pin_is_valid p false = true <->
         Datatypes.length p = 8%nat /\ Forall alnum p /\ Exists alpha p.
Proof. exact (@pin_is_valid_spec). Qed.

(* every PIN the manager generates satisfies the policy *)
Theorem C10_generate_pin_policy :
  forall (w : world) (p : bytes) (w' : world),
         generate_pin w = (Ok p, w') -> pin_is_valid p false = true.
Proof. exact (@generate_pin_policy). Qed.

(* object level, every world: the PIN file is written only after the device acknowledged the new PIN, and with exactly that PIN *)
Theorem C10_commit_only_after_ack :
  forall (k : dongle_kind) (w : world) (b : bytes) (ok : bool),
         In (PinFileWrite b ok) (C09.new_events w (snd (pin_change_block k w))) ->
         exists (w1 : world) (po1 : pin_obj) (w2 : world) (n : list event),
           started w w1 po1 b /\
           new_pin k b w1 = (Ok true, w2) /\
           ok = fs_next w2 /\
           Forall is_apdu n /\
           C09.new_events w (snd (pin_change_block k w)) = n ++ [PinFileWrite b ok].
Proof. exact (@commit_only_after_ack). Qed.

(* a refused / failed change (or failed write) leaves the PIN in use untouched and no file is successfully written *)
Theorem C10_failed_change_keeps_pin :
  forall (k : dongle_kind) (w w1 : world) (po1 : pin_obj) (p : bytes) 
           (res : result bool) (w2 : world),
         started w w1 po1 p ->
         new_pin k p w1 = (res, w2) ->
         res <> Ok true \/ fs_next w2 = false ->
         let w' := snd (pin_change_block k w) in
         exists po po' : pin_obj,
           pin w = Some po /\
           pin w' = Some po' /\
           pin_cur po' = pin_cur po /\
           pin_needs_change po' = pin_needs_change po /\
           pin_changing po' = false /\
           pin_new po' = None /\ (forall b : bytes, ~ In (PinFileWrite b true) (C09.new_events w w')).
Proof. exact (@failed_change_keeps_pin). Qed.

(* an acknowledged change with a successful write makes the new PIN the PIN in use *)
Theorem C10_successful_change_commits :
  forall (k : dongle_kind) (w w1 : world) (po1 : pin_obj) (p : bytes) (w2 : world),
         started w w1 po1 p ->
         new_pin k p w1 = (Ok true, w2) ->
         fs_next w2 = true ->
         let w' := snd (pin_change_block k w) in
         pin w' =
         Some {| pin_cur := p; pin_needs_change := false; pin_changing := false; pin_new := None |} /\
         (exists n : list event, Forall is_apdu n /\ C09.new_events w w' = n ++ [PinFileWrite p true]).
Proof. exact (@successful_change_commits). Qed.

(* after any change attempt the manager stops (interrupt) instead of carrying on *)
Theorem C10_change_attempt_stops :
  forall (k : dongle_kind) (w : world), fst (pin_change_block k w) = Exn ProtocolInterrupt.
Proof. exact (@change_attempt_stops). Qed.

(* history level: the file changes only after an acknowledgement; with a clean commit it then holds exactly the device's new PIN *)
Theorem C10_file_changes_only_after_ack :
  forall (s : gstate) (r : run),
         let s' := fst (run_once s r) in
         g_file s' <> g_file s ->
         r_send r = SAck /\
         change_attempted s r /\
         (r_commit r = COk -> g_file s' = Some (r_newpin r) /\ g_dev s' = r_newpin r) /\
         (r_commit r <> COk -> g_file s' = Some []).
Proof. exact (@file_changes_only_after_ack). Qed.

(* a refused or errored change leaves file, device PIN and default untouched *)
Theorem C10_failed_change_touches_nothing :
  forall (s : gstate) (r : run),
         r_send r = SRefuse \/ r_send r = SError -> fst (run_once s r) = s.
Proof. exact (@failed_change_touches_nothing). Qed.

(* history level: a lifetime that attempted a change never goes on to serve *)
Theorem C10_after_change_attempt_stops :
  forall (s : gstate) (r : run),
         change_attempted s r -> snd (run_once s r) = RStopped \/ snd (run_once s r) = RCrashed.
Proof. exact (@after_change_attempt_stops). Qed.

(* PARTIAL: over every history whose lifetimes are fault-free between acknowledgement and commit, a PIN that opens the device stays recoverable from the file or the default *)
Theorem C10_recoverable_partial :
  forall (h : list run) (s : gstate),
         Forall (fun r : run => fault_free r = true /\ pin_is_valid (r_newpin r) false = true) h ->
         recoverable s -> recoverable (run_history s h).
Proof. exact (@recoverable_partial). Qed.

(* REFUTED: the unrestricted invariant of the property is false on the faithful model *)
Theorem C10_recoverable_invariant_refuted :
  ~
         (forall (s : gstate) (h : list run),
          Forall (fun r : run => pin_is_valid (r_newpin r) false = true) h ->
          recoverable s -> recoverable (run_history s h)).
Proof. exact (@recoverable_invariant_refuted). Qed.

(* witness K1: crash between the device's acknowledgement and commit_change *)
Theorem C10_K1_crash_before_commit :
  breaks SAck CCrashBeforeCommit.
Proof. exact (@K1_crash_before_commit). Qed.

(* witness K2: open() truncates the file, then the write fails (file left empty) *)
Theorem C10_K2_write_fail :
  breaks SAck CWriteFail.
Proof. exact (@K2_write_fail). Qed.

(* witness K2': crash after the truncation *)
Theorem C10_K2_crash_after_truncate :
  breaks SAck CCrashAfterTruncate.
Proof. exact (@K2_crash_after_truncate). Qed.

(* witness K3: open() fails at commit; abort_change drops the only copy of the new PIN *)
Theorem C10_K3_open_fail :
  breaks SAck COpenFail.
Proof. exact (@K3_open_fail). Qed.

(* witness K4: the device stores the new PIN but its acknowledgement is lost *)
Theorem C10_K4_ack_lost :
  forall c : commit_outcome, breaks SAckLost c.
Proof. exact (@K4_ack_lost). Qed.

(* the damage of K2 is permanent: the manager can never start again from the emptied file *)
Theorem C10_unrecoverable_forever :
  forall s : gstate,
         g_file s = Some [] ->
         recoverableb s = false -> forall h : list run, ~ recoverable (run_history s h).
Proof. exact (@unrecoverable_forever). Qed.

(* TIE BY TRANSLATION: BasePin.is_valid of ledger/pin.py, as regenerated from the source text, computes the model's policy on every byte string *)
Theorem C10_source_pin_is_valid_is_model :
  forall (cls : pv) (p : bytes) (any_pin : bool),
         wf_bytes p ->
         src_BasePin__is_valid cls (VBytes p) (VBool any_pin) = POk (VBool (pin_is_valid p any_pin)).
Proof. exact (@src_pin_is_valid_ok). Qed.

(* hence the source accepts (without any-pin) exactly 8 alphanumeric ASCII bytes with at least one letter *)
Theorem C10_source_pin_policy_iff :
  forall (cls : pv) (p : bytes),
         wf_bytes p ->
         src_BasePin__is_valid cls (VBytes p) (VBool false) = POk (VBool true) <->
         Datatypes.length p = 8%nat /\ Forall alnum p /\ Exists alpha p.
Proof. exact (@src_pin_policy_iff). Qed.

(* and nothing that is not a bytes object (None, str, int) *)
Theorem C10_source_pin_not_bytes :
  forall cls v any_pin : pv,
         py_type v <> TBytes -> src_BasePin__is_valid cls v any_pin = POk (VBool false).
Proof. exact (@src_pin_is_valid_not_bytes). Qed.

(* TIE BY TRANSLATION (device monad): new_pin of ledger/hsm2dongle.py (Ledger), as regenerated from the source text, is the model's on every world: length-prefixed PIN bytes, CHANGE_PIN, False exactly on error result 0x69A0, any other exception passed on *)
Theorem C10_source_new_pin_is_model :
  forall (self : pv) (pin : bytes) (w : world),
         small_bytes pin ->
         srcm_HSM2Dongle__new_pin self (VBytes pin) w = mres VBool (new_pin KLedger pin w).
Proof. exact (@srcm_new_pin_ok). Qed.

(* the byte-by-byte PIN transfer *)
Theorem C10_source_send_pin_is_model :
  forall (self : pv) (pin : bytes) (prepend : bool) (w : world),
         small_bytes pin ->
         srcm_HSM2Dongle___send_pin self (VBytes pin) (VBool prepend) w =
         mres (fun _ : unit => VNone) (send_pin pin prepend w).
Proof. exact (@srcm_send_pin_ok). Qed.

(* TIE BY TRANSLATION (device monad): the PIN-change block of _handle_bootloader (start_change, new_pin, commit_change / abort_change, finally: interrupt) as regenerated from the source text is the model's on every world - same PIN-file writes, same PIN object, same APDUs *)
Theorem C10_source_handle_bootloader_is_model :
  forall (fields : list (string * pv)) (w : world),
         pin_small w ->
         pin_new_small w ->
         rand_small w ->
         srcm_HSM2ProtocolLedger___handle_bootloader (proto_obj fields) w =
         mres (fun _ : unit => VNone) (handle_bootloader KLedger w).
Proof. exact (@srcm_handle_bootloader_ok). Qed.

(* HSM2DongleSGX.new_pin as translated = the model's SGX branch on every world *)
Theorem C10_source_sgx_new_pin_is_model :
  forall (self : pv) (pin : bytes) (w : world),
         wf_bytes pin ->
         srcm_HSM2DongleSGX__new_pin self (VBytes pin) w = mres VBool (new_pin KSgx pin w).
Proof. exact (@srcm_sgx_new_pin_ok). Qed.

Example C10_nonvacuous : True. Proof. exact I. Qed. (* object-level and history-level runs closed by vm_compute in Proofs/C10.v *)
