(* C04 — Device outcomes map onto the result codes documented for each command
   Only statements, `exact`, and non-vacuity examples live here; proofs are in Proofs/.
   GENERATED skeleton (tools/mk_properties.py): statements are the ones Coq reports for the
   lemmas they restate, so they cannot drift from what is proved. *)
From PowHsm Require Import Model.LedgerProtocol.
From PowHsm Require Import Proofs.C04.
From PowHsm Require Import Proofs.C05.
From PowHsm Require Import Proofs.C01.
From PowHsm Require Import Gen.Src.
From PowHsm Require Import Proofs.SrcEquivDongle.
From PowHsm Require Import Gen.SrcM.
From PowHsm Require Import Proofs.SrcEquivDongleM.
From PowHsm Require Import Proofs.SrcEquivProtoM.
From PowHsm Require Import Proofs.SrcEquivSignM.
From PowHsm Require Import Proofs.SrcEquivSignProtoM.
From PowHsm Require Import Proofs.SrcEquivStateM.
From PowHsm Require Import Proofs.SrcEquivBlockM.
From PowHsm Require Import Proofs.SrcEquivBlockProtoM.
From PowHsm Require Import Proofs.SrcEquivHeartbeatM.
From PowHsm Require Import Proofs.SrcEquivParamsProtoM.
From PowHsm Require Import Proofs.SrcEquivGateM.
From PowHsm Require Import Proofs.SrcLiftGate.
From PowHsm Require Import Proofs.SrcEquivGateV1M.
From PowHsm Require Import Proofs.SrcEquivSendCommandM.
From PowHsm Require Import Proofs.SrcLiftC04.
Open Scope N_scope.

(* for every request and every device script, sign answers only codes docs/protocol.md lists for sign plus the generic ones (closed check on the generated tables vs the generated doc lists) *)
Theorem C04_sign_documented :
  forall (kind : dongle_kind) (req : obj),
         documented_for CMDNAME_SIGN_COMMAND (op_sign_v5 kind req).
Proof. exact (@sign_documented). Qed.

(* same for getPubKey *)
Theorem C04_get_pubkey_documented :
  forall (kind : dongle_kind) (req : obj),
         documented_for CMDNAME_GETPUBKEY_COMMAND (op_get_pubkey kind V5 req).
Proof. exact (@get_pubkey_documented). Qed.

(* same for advanceBlockchain *)
Theorem C04_advance_documented :
  forall (keccak : bytes -> bytes) (kind : dongle_kind) (req : obj),
         documented_for CMDNAME_ADVANCE_BLOCKCHAIN_COMMAND (op_advance keccak kind req).
Proof. exact (@advance_documented). Qed.

(* same for updateAncestorBlock *)
Theorem C04_update_ancestor_documented :
  forall (kind : dongle_kind) (req : obj),
         documented_for CMDNAME_UPDATE_ANCESTOR_BLOCK_COMMAND (op_update_ancestor kind req).
Proof. exact (@update_ancestor_documented). Qed.

(* same for blockchainState *)
Theorem C04_blockchain_state_documented :
  forall (kind : dongle_kind) (req : obj),
         documented_for CMDNAME_BLOCKCHAIN_STATE_COMMAND (op_blockchain_state kind req).
Proof. exact (@blockchain_state_documented). Qed.

(* same for resetAdvanceBlockchain *)
Theorem C04_reset_advance_documented :
  forall (kind : dongle_kind) (req : obj),
         documented_for CMDNAME_RESET_ADVANCE_BLOCKCHAIN_COMMAND (op_reset_advance kind req).
Proof. exact (@reset_advance_documented). Qed.

(* same for blockchainParameters *)
Theorem C04_parameters_documented :
  forall (kind : dongle_kind) (req : obj),
         documented_for CMDNAME_GET_BLOCKCHAIN_PARAMETERS (op_parameters kind req).
Proof. exact (@parameters_documented). Qed.

(* same for signerHeartbeat *)
Theorem C04_signer_heartbeat_documented :
  forall (kind : dongle_kind) (req : obj),
         documented_for CMDNAME_SIGNER_HEARTBEAT (op_signer_heartbeat kind req).
Proof. exact (@signer_heartbeat_documented). Qed.

(* same for uiHeartbeat *)
Theorem C04_ui_heartbeat_documented :
  forall (kind : dongle_kind) (req : obj),
         documented_for CMDNAME_UI_HEARTBEAT (op_ui_heartbeat kind req).
Proof. exact (@ui_heartbeat_documented). Qed.

(* through handle_request: every reply's errorcode is generic or documented for the dispatched command *)
Theorem C04_handle_request_documented :
  forall (keccak : bytes -> bytes) (kind : dongle_kind) (request : json) 
           (w : world) (j : json) (w' : world),
         handle_request keccak kind V5 request w = (Ok j, w') ->
         exists (kv : list (str * json)) (c : Z),
           j = JObj kv /\
           jget KEY_ERRORCODE kv = Some (JInt c) /\
           (In c DOC_GENERIC \/
            (exists (req : obj) (cmd : str), names_command request req cmd /\ In c (doc_allowed cmd))).
Proof. exact (@handle_request_documented). Qed.

(* an error status in the device's own range never escapes a command handler (so never stops the manager) when no reconnection is pending *)
Theorem C04_handle_request_no_error_result :
  forall (keccak : bytes -> bytes) (kind : dongle_kind) (m : pmode) 
           (request : json) (w : world) (sw : N) (w' : world),
         comm_issue w = false -> handle_request keccak kind m request w <> (Exn (ErrorResult sw), w').
Proof. exact (@handle_request_no_error_result). Qed.

(* if such a status ever escapes, it escaped the re-run bring-up of a pending reconnection (ensure_connection), not the command's own exchange *)
Theorem C04_handle_request_error_result_only_from_reconnect :
  forall (keccak : bytes -> bytes) (kind : dongle_kind) (m : pmode) 
           (request : json) (w : world) (sw : N) (w' : world),
         handle_request keccak kind m request w = (Exn (ErrorResult sw), w') ->
         reconnect_leaks kind w sw w'.
Proof. exact (@handle_request_error_result_only_from_reconnect). Qed.

(* blockchainState (one of the four handlers repaired by commit 787b62f): unconditional *)
Theorem C04_blockchain_state_no_error_result :
  forall (kind : dongle_kind) (req : obj) (w : world) (sw : N) (w' : world),
         op_blockchain_state kind req w <> (Exn (ErrorResult sw), w').
Proof. exact (@blockchain_state_no_error_result). Qed.

(* uiHeartbeat: unconditional *)
Theorem C04_ui_heartbeat_no_error_result :
  forall (kind : dongle_kind) (req : obj) (w : world) (sw : N) (w' : world),
         op_ui_heartbeat kind req w <> (Exn (ErrorResult sw), w').
Proof. exact (@ui_heartbeat_no_error_result). Qed.

(* sign answers 0 only when the device method returned a signature *)
Theorem C04_sign_v5_ok_only_from_success :
  forall (kind : dongle_kind) (req : obj),
         ok_range
           (fun r : Z * option obj =>
            fst r = 0%Z -> exists rs : bytes * bytes, r = finish_sign V5 (inl rs))
           (op_sign_v5 kind req).
Proof. exact (@sign_v5_ok_only_from_success). Qed.

(* advanceBlockchain answers 0 / 1 only on the branch taken on the device's SUCCESS / PARTIAL opcode *)
Theorem C04_advance_ok_only_from_device_success :
  forall (keccak : bytes -> bytes) (kind : dongle_kind) (req : obj) 
           (w : world) (c : Z) (out : option obj) (w' : world),
         op_advance keccak kind req w = (Ok (c, out), w') ->
         c = V5_ERROR_CODE_OK \/ c = V5_ERROR_CODE_OK_PARTIAL ->
         exists (blocks : list (option bytes)) (bros : list (list (option bytes))) 
         (w1 : world),
           advance_blockchain keccak blocks bros w1 =
           (Ok (true, if (c =? V5_ERROR_CODE_OK)%Z then RESP_ADV_OK_TOTAL else RESP_ADV_OK_PARTIAL),
            w').
Proof. exact (@advance_ok_only_from_device_success). Qed.

(* updateAncestorBlock answers 0 only on the device's SUCCESS opcode (1 never) *)
Theorem C04_update_ancestor_ok_only_from_device_success :
  forall (kind : dongle_kind) (req : obj) (w : world) (c : Z) (out : option obj) (w' : world),
         op_update_ancestor kind req w = (Ok (c, out), w') ->
         c = V5_ERROR_CODE_OK \/ c = V5_ERROR_CODE_OK_PARTIAL ->
         c = V5_ERROR_CODE_OK /\
         (exists (blocks : list (option bytes)) (w1 : world),
            update_ancestor blocks w1 = (Ok (true, RESP_UPD_OK_TOTAL), w')).
Proof. exact (@update_ancestor_ok_only_from_device_success). Qed.

(* ... and that branch is exactly: the last consumed answer carries the SUCCESS / PARTIAL opcode *)
Theorem C04_block_op_result_advance :
  forall (blocks : list (option bytes)) (bros : list (list (option bytes))) (w : world),
         wp (do_block_operation ADVANCE_OP blocks bros) w
           (fun (r : result bo_result) (n : list event) =>
            forall c : Z,
            r = Ok (true, c) ->
            exists (resp : bytes) (rop : N),
              last_answer n resp /\
              idx resp OFF_OPn = Some rop /\
              (c = RESP_ADV_OK_TOTAL /\ rop = ADV_OP_SUCCESS \/
               c = RESP_ADV_OK_PARTIAL /\ rop = ADV_OP_PARTIAL) /\
              (c = RESP_ADV_OK_TOTAL -> rop = ADV_OP_SUCCESS) /\
              (c = RESP_ADV_OK_PARTIAL -> rop = ADV_OP_PARTIAL)).
Proof. exact (@block_op_result_advance). Qed.

(* ... for sign: success means the last answer carried SUCCESS with a DER body *)
Theorem C04_sign_success_trace :
  forall (path receipt : bytes) (proof : list bytes) (tx : bytes) 
           (input : Z) (mode : str) (ws : bytes) (ov : Z) (w : world) (r s_ : bytes) 
           (w' : world),
         sign_authorized path receipt proof tx input mode ws ov w = (Ok (inl (r, s_)), w') ->
         exists
           (inb d1 : bytes) (req1 nv : N) (ed payload : bytes) (g2 : list (bytes * resp)) 
         (r2 : bytes) (req2 : N) (g3 : list (bytes * resp)) (r3 : bytes) 
         (req3 : N) (mp : bytes) (g4 : list (bytes * resp)) (r4 : bytes),
           to_bytes_le 4 input = Some inb /\
           sighash_netvalue mode = Some nv /\
           extradata (nv =? 1) ws ov = Some ed /\
           btc_payload tx nv ed = Some payload /\
           merkle_proof_bytes proof = Some mp /\
           w' =
           after w
             (Apdu (CLA :: CMD_SIGN :: SIGN_OP_PATH :: path ++ inb) (Data d1)
              :: group SIGN_OP_BTC_TX g2 ++
                 group SIGN_OP_TX_RECEIPT g3 ++ group SIGN_OP_MERKLE_PROOF g4) 
             (script w') /\
           idx d1 2 = Some SIGN_OP_BTC_TX /\
           idx d1 3 = Some req1 /\
           part_done SIGN_OP_BTC_TX SIGN_OP_TX_RECEIPT payload req1 g2 r2 /\
           idx r2 3 = Some req2 /\
           part_done SIGN_OP_TX_RECEIPT SIGN_OP_MERKLE_PROOF receipt req2 g3 r3 /\
           idx r3 3 = Some req3 /\
           part_done SIGN_OP_MERKLE_PROOF SIGN_OP_SUCCESS mp req3 g4 r4 /\
           der_parse (skipn 3 r4) = Some (r, s_).
Proof. exact (@sign_authorized_success). Qed.

(* closed check: the statuses whose cause the documentation names (chain mismatch, PoW, tip mismatch, invalid brothers, invalid blocks) translate to that very code *)
Theorem C04_named_causes_block_chunks :
  adv_code_of_status ERR_ADV_CHAIN_MISMATCH = V5_ERROR_CODE_CHAINING_MISMATCH /\
         adv_code_of_status ERR_ADV_MM_HASH_MISMATCH = V5_ERROR_CODE_POW_INVALID /\
         adv_code_of_status ERR_ADV_BTC_DIFF_MISMATCH = V5_ERROR_CODE_POW_INVALID /\
         adv_code_of_status ERR_ADV_BROTHER_ORDER_INVALID = V5_ERROR_CODE_INVALID_BROTHERS /\
         adv_code_of_status ERR_ADV_BROTHERS_TOO_MANY = V5_ERROR_CODE_INVALID_BROTHERS /\
         adv_code_of_status ERR_ADV_RLP_INVALID = V5_ERROR_CODE_INVALID_INPUT_BLOCKS /\
         upd_code_of_status ERR_ADV_CHAIN_MISMATCH = V5_ERROR_CODE_CHAINING_MISMATCH /\
         upd_code_of_status ERR_ADV_ANCESTOR_TIP_MISMATCH = V5_ERROR_CODE_TIP_MISMATCH /\
         upd_code_of_status ERR_ADV_RLP_INVALID = V5_ERROR_CODE_INVALID_INPUT_BLOCKS.
Proof. exact (@named_causes_block_chunks). Qed.

(* closed check: wrong authorization / invalid message / invalid key id statuses translate to -101 / -102 / -103 *)
Theorem C04_named_causes_sign :
  lookup_Z (lookup_err ERR_SIGN_INVALID_PATH SIGN_UNAUTH_ERRS SIGN_UNAUTH_DEFAULT) TR_SIGN_V5
           TR_SIGN_V5_DEFAULT = V5_ERROR_CODE_INVALID_KEYID /\
         lookup_Z (lookup_err ERR_SIGN_DATA_SIZE_NOAUTH SIGN_UNAUTH_ERRS SIGN_UNAUTH_DEFAULT)
           TR_SIGN_V5 TR_SIGN_V5_DEFAULT = V5_ERROR_CODE_INVALID_MESSAGE /\
         lookup_Z (lookup_err ERR_SIGN_TX_HASH_MISMATCH SIGN_AUTH_STEP2_ERRS SIGN_AUTH_STEP2_DEFAULT)
           TR_SIGN_V5 TR_SIGN_V5_DEFAULT = V5_ERROR_CODE_INVALID_MESSAGE /\
         lookup_Z
           (lookup_err ERR_SIGN_RECEIPT_ROOT_MISMATCH SIGN_AUTH_STEP4_ERRS SIGN_AUTH_STEP4_DEFAULT)
           TR_SIGN_V5 TR_SIGN_V5_DEFAULT = V5_ERROR_CODE_INVALID_AUTH /\
         lookup_Z (lookup_err ERR_SIGN_RLP SIGN_AUTH_STEP3_ERRS SIGN_AUTH_STEP3_DEFAULT) TR_SIGN_V5
           TR_SIGN_V5_DEFAULT = V5_ERROR_CODE_INVALID_AUTH.
Proof. exact (@named_causes_sign). Qed.

(* TIE BY TRANSLATION: _Error.is_user_defined_error of ledger/hsm2dongle.py (the status words _send_command turns into an error result), as regenerated from the source text, is the model's user_defined over the tabulated ranges *)
Theorem C04_source_user_defined_range_is_model :
  forall sw : N,
         src__Error__is_user_defined_error (VInt (Z.of_N sw)) = POk (VBool (user_defined sw)).
Proof. exact (@src_is_user_defined_ok). Qed.

(* i.e. exactly 0x69A0..0x6BFF and 0x6D00 *)
Theorem C04_source_user_defined_range :
  forall sw : N,
         src__Error__is_user_defined_error (VInt (Z.of_N sw)) = POk (VBool true) <->
         27040 <= sw <= 27647 \/ sw = 27904.
Proof. exact (@src_is_user_defined_true_iff). Qed.

(* TIE BY TRANSLATION (device monad): the status-word-to-result mapping of sign_unauthorized as written in the source is the model's, on every world *)
Theorem C04_source_sign_unauthorized_is_model :
  forall (cm : string -> pv -> list pv -> pr pv) (self key_id : pv) 
           (path_bin : bytes) (hash : str) (w : world),
         cm "to_binary" key_id [] = POk (VBytes path_bin) ->
         srcm_HSM2Dongle__sign_unauthorized cm self key_id (VStr hash) w =
         mres sign_res (sign_unauthorized path_bin (fromhex hash) w).
Proof. exact (@srcm_sign_unauthorized_ok). Qed.

(* TIE BY TRANSLATION (device monad): ensure_connection of ledger/protocol.py, as regenerated from the Python source text, runs on every world as the model's: nothing when no link error is pending; otherwise close, the bring-up (a parameter equal to the model's), the flag cleared only after it succeeded, a protocol error turned into a link error (so that the repair is retried) *)
Theorem C04_source_ensure_connection_is_model :
  forall (kind : dongle_kind) (init : pm pv) (self : pv) (w : world),
         init_ok kind init ->
         srcm_HSM2ProtocolLedger__ensure_connection init self w =
         mres (fun _ : unit => VNone) (ensure_connection kind w).
Proof. exact (@srcm_ensure_connection_ok). Qed.

(* _get_pubkey of the source, as translated (repair first, then the exchange, then the except ladder in source order with the reconnection flag set on a link error), is the model's handler with its generated ladder on every world *)
Theorem C04_source_get_pubkey_handler_is_model :
  forall (kind : dongle_kind) (init : pm pv) (cm : string -> pv -> list pv -> pr pv)
           (self : pv) (req : obj) (x : str) (els : list N) (w : world),
         init_ok kind init ->
         jget (s "keyId") req = Some (JStr x) ->
         bip32_path x = Some els ->
         cm "to_binary" (SrcEquivBase.path_obj els) [] = POk (VBytes (path_to_binary els)) ->
         srcm_HSM2ProtocolLedger___get_pubkey cm init self (request_with_path req els) w =
         mres rtuple_pv (op_get_pubkey kind V5 req w).
Proof. exact (@srcm_get_pubkey_ok). Qed.

(* _reset_advance_blockchain likewise *)
Theorem C04_source_reset_advance_handler_is_model :
  forall (kind : dongle_kind) (init : pm pv) (self request : pv) (req : obj) (w : world),
         init_ok kind init ->
         srcm_HSM2ProtocolLedger___reset_advance_blockchain init self request w =
         mres rtuple_pv (op_reset_advance kind req w).
Proof. exact (@srcm_reset_advance_blockchain_ok). Qed.

(* TIE BY TRANSLATION (device monad): the per-step status-word-to-result tables of sign_authorized as written in the source are the model's (which reads them from the generated tables), on every world *)
Theorem C04_source_sign_authorized_is_model :
  forall (cm : string -> pv -> list pv -> pr pv) (fuel : nat) (self key_id : pv)
           (path_bin : bytes) (receipt_hex tx_hex ws_hex : str) (proof_hex : list str)
           (receipt tx ws : bytes) (proof : list bytes) (input ov : Z) (segwit : bool) 
           (w : world),
         oracles_ok cm key_id path_bin ->
         fromhex receipt_hex = Some receipt ->
         fromhex tx_hex = Some tx ->
         fromhex ws_hex = Some ws ->
         all_some (map fromhex proof_hex) = Some proof ->
         (S (Datatypes.length (script w)) <= fuel)%nat ->
         srcm_HSM2Dongle__sign_authorized fuel cm self key_id (VStr receipt_hex)
           (VList (map VStr proof_hex)) (VStr tx_hex) (VInt input) (mode_obj segwit) 
           (VStr ws_hex) (VInt ov) w =
         mres sign_res (sign_authorized path_bin receipt proof tx input (mode_str segwit) ws ov w).
Proof. exact (@srcm_sign_authorized_ok). Qed.

(* TIE BY TRANSLATION (device monad): _sign as translated = model handler with its generated ladders and translation table, on every world *)
Theorem C04_source_sign_handler_is_model :
  forall (kind : dongle_kind) (init : pm pv) (cm : string -> pv -> list pv -> pr pv)
           (fuel : nat) (self : pv) (req : obj) (x : str) (els : list N) 
           (w : world),
         init_ok kind init ->
         tx_oracles_ok cm ->
         oracles_ok cm (SrcEquivBase.path_obj els) (path_to_binary els) ->
         jget (s "keyId") req = Some (JStr x) ->
         bip32_path x = Some els ->
         ValLemmasSignProtoM.message_absent_or_object req ->
         (S (Datatypes.length (script (snd (ensure_connection kind w)))) <= fuel)%nat ->
         srcm_HSM2ProtocolLedger___sign fuel cm init self (request_with_path req els) w =
         mres rtuple_pv (op_sign_v5 kind req w).
Proof. exact (@srcm_sign_handler_ok). Qed.

(* _blockchain_state as translated = model handler, on every world *)
Theorem C04_source_blockchain_state_handler_is_model :
  forall (kind : dongle_kind) (init : pm pv) (self request : pv) (req : obj) (w : world),
         init_ok kind init ->
         srcm_HSM2ProtocolLedger___blockchain_state init self request w =
         mres rtuple_pv (op_blockchain_state kind req w).
Proof. exact (@srcm_blockchain_state_handler_ok). Qed.

(* TIE BY TRANSLATION: the result-translation dictionary of the advance handler as written in the source = the tabulated one, for EVERY integer *)
Theorem C04_source_translate_advance_result_is_model :
  forall (self : pv) (c : Z) (w : world),
         srcm_HSM2ProtocolLedger___translate_advance_result self (VInt c) w =
         (XOk (VInt (lookup_Z c TR_ADV TR_ADV_DEFAULT)), w).
Proof. exact (@srcm_translate_advance_result_ok). Qed.

(* update ancestor *)
Theorem C04_source_translate_update_ancestor_result_is_model :
  forall (self : pv) (c : Z) (w : world),
         srcm_HSM2ProtocolLedger___translate_update_ancestor_result self (VInt c) w =
         (XOk (VInt (lookup_Z c TR_UPD TR_UPD_DEFAULT)), w).
Proof. exact (@srcm_translate_update_ancestor_result_ok). Qed.

(* sign *)
Theorem C04_source_translate_sign_error_is_model :
  forall (self : pv) (c : Z) (w : world),
         srcm_HSM2ProtocolLedger___translate_sign_error self (VInt c) w =
         (XOk (VInt (lookup_Z c TR_SIGN_V5 TR_SIGN_V5_DEFAULT)), w).
Proof. exact (@srcm_translate_sign_error_ok). Qed.

(* _advance_blockchain as translated = model handler with its generated ladder and table, on every world *)
Theorem C04_source_advance_handler_is_model :
  forall (keccak : bytes -> bytes) (kind : dongle_kind) (init : pm pv)
           (cm : string -> pv -> list pv -> pr pv) (fuel : nat) (self : pv) 
           (req : obj) (blocks : list str) (brothers : list (list str)) (w : world),
         init_ok kind init ->
         block_oracles_ok keccak cm ->
         keccak_wf keccak ->
         jget (s "blocks") req = Some (jstrs blocks) ->
         jget (s "brothers") req = Some (JArr (map jstrs brothers)) ->
         fuel_ok kind fuel w ->
         srcm_HSM2ProtocolLedger___advance_blockchain fuel cm init self (of_obj req) w =
         mres rtuple_pv (op_advance keccak kind req w).
Proof. exact (@srcm_advance_blockchain_handler_ok). Qed.

(* _update_ancestor_block likewise *)
Theorem C04_source_update_ancestor_handler_is_model :
  forall (keccak : bytes -> bytes) (kind : dongle_kind) (init : pm pv)
           (cm : string -> pv -> list pv -> pr pv) (fuel : nat) (self : pv) 
           (req : obj) (blocks : list str) (w : world),
         init_ok kind init ->
         block_oracles_ok keccak cm ->
         jget (s "blocks") req = Some (jstrs blocks) ->
         fuel_ok kind fuel w ->
         srcm_HSM2ProtocolLedger___update_ancestor_block fuel cm init self (of_obj req) w =
         mres rtuple_pv (op_update_ancestor kind req w).
Proof. exact (@srcm_update_ancestor_handler_ok). Qed.

(* _signer_heartbeat as translated = model handler with its generated ladder, on every world *)
Theorem C04_source_signer_heartbeat_handler_is_model :
  forall (kind : dongle_kind) (init : pm pv) (self : pv) (req : obj) 
           (ud_hex : str) (w : world),
         init_ok kind init ->
         jget (s "udValue") req = Some (JStr ud_hex) ->
         srcm_HSM2ProtocolLedger___signer_heartbeat init self (of_obj req) w =
         mres rtuple_pv (op_signer_heartbeat kind req w).
Proof. exact (@srcm_signer_heartbeat_handler_ok). Qed.

(* _ui_heartbeat (mode dance included) likewise *)
Theorem C04_source_ui_heartbeat_handler_is_model :
  forall (kind : dongle_kind) (init : pm pv) (self : pv) (req : obj) 
           (ud_hex : str) (w : world),
         init_ok kind init ->
         jget (s "udValue") req = Some (JStr ud_hex) ->
         srcm_HSM2ProtocolLedger___ui_heartbeat init self (of_obj req) w =
         mres rtuple_pv (op_ui_heartbeat kind req w).
Proof. exact (@srcm_ui_heartbeat_handler_ok). Qed.

(* _get_blockchain_parameters as translated = model handler with its generated ladder, on every world *)
Theorem C04_source_parameters_handler_is_model :
  forall (kind : dongle_kind) (init : pm pv) (self request : pv) (req : obj) (w : world),
         init_ok kind init ->
         srcm_HSM2ProtocolLedger___get_blockchain_parameters init self request w =
         mres rtuple_pv (op_parameters kind req w).
Proof. exact (@srcm_parameters_handler_ok). Qed.

(* the whole request path of the source = the model's handle_request on every request and world *)
Theorem C04_source_whole_request_path_is_model :
  forall (keccak : bytes -> bytes) (kind : dongle_kind) (init : pm pv)
           (cm : string -> pv -> list pv -> pr pv) (fuel : nat) (self : pv) 
           (request : json) (w : world),
         init_ok kind init ->
         tx_oracles_ok cm ->
         path_oracle_ok cm ->
         varint_oracle_ok cm ->
         block_oracles_ok keccak cm ->
         keccak_wf keccak ->
         fuel_ok kind fuel w ->
         srcm_HSM2ProtocolLedger____internal_handle_request fuel cm init self (of_json request) w =
         mres of_json (handle_request keccak kind V5 request w).
Proof. exact (@srcm_handle_request_v5_ok). Qed.

(* every reply of the translated request path carries a generic code or one documented for the command the request names *)
Theorem C04_source_every_reply_code_documented :
  forall (keccak : bytes -> bytes) (kind : dongle_kind) (init : pm pv)
           (cm : string -> pv -> list pv -> pr pv) (fuel : nat) (self : pv) 
           (request : json) (w : world) (v : pv) (w' : world),
         env_ok keccak kind init cm fuel w ->
         srcm_HSM2ProtocolLedger____internal_handle_request fuel cm init self (of_json request) w =
         (XOk v, w') ->
         exists (kv : list (str * json)) (c : Z),
           v = of_json (JObj kv) /\
           jget KEY_ERRORCODE kv = Some (JInt c) /\
           (In c DOC_GENERIC \/
            (exists (req : obj) (cmd : str), names_command request req cmd /\ In c (doc_allowed cmd))).
Proof. exact (@src_handle_request_documented). Qed.

(* a device error result escapes the translated request path only out of a pending reconnection's bring-up *)
Theorem C04_source_error_result_only_from_reconnect :
  forall (keccak : bytes -> bytes) (kind : dongle_kind) (init : pm pv)
           (cm : string -> pv -> list pv -> pr pv) (fuel : nat) (self : pv) 
           (request : json) (w : world) (sw : N) (w' : world),
         env_ok keccak kind init cm fuel w ->
         srcm_HSM2ProtocolLedger____internal_handle_request fuel cm init self (of_json request) w =
         (XRaise (ErrorResult sw), w') -> reconnect_leaks kind w sw w'.
Proof. exact (@src_error_result_only_from_reconnect). Qed.

(* the whole legacy (version 1) request path of the source = the model's handle_request in mode V1 on every request and world *)
Theorem C04_source_whole_request_path_v1_is_model :
  forall (keccak : bytes -> bytes) (kind : dongle_kind) (init : pm pv)
           (cm : string -> pv -> list pv -> pr pv) (self : pv) (request : json) 
           (w : world),
         init_ok kind init ->
         path_oracle_ok_v1 cm ->
         srcm_HSM1ProtocolLedger____internal_handle_request cm init self (of_json request) w =
         mres of_json (handle_request keccak kind V1 request w).
Proof. exact (@srcm_handle_request_v1_ok). Qed.

(* _send_command of the source (APDU framing, exchange, classification of what the transport raises) as translated over the transport primitive = the model's send_command with its classify, on every world *)
Theorem C04_source_send_command_is_model :
  forall (cls : string) (fields : list (string * pv)) (cmd : N) (data : bytes) 
           (timeout : pv) (w : world),
         cmd < 256 ->
         srcm_HSM2Dongle___send_command (VObj cls fields) (VInt (Z.of_N cmd)) (VBytes data) timeout w =
         mres VBytes (send_command cmd data w).
Proof. exact (@srcm_send_command_source_ok). Qed.

(* the primitive every translated device-facing function calls IS the translated _send_command *)
Theorem C04_source_send_command_is_the_primitive :
  forall (cls : string) (fields : list (string * pv)) (cmd : N) (data : bytes) 
           (timeout : pv) (w : world),
         cmd < 256 ->
         srcm_HSM2Dongle___send_command (VObj cls fields) (VInt (Z.of_N cmd)) (VBytes data) timeout w =
         MV.m_send_command (VInt (Z.of_N cmd)) (VBytes data) w.
Proof. exact (@srcm_send_command_is_primitive). Qed.

(* the translated _advance_blockchain answers 0 / 1 only when the device operation returned (True, OK_TOTAL / OK_PARTIAL), in the world the handler ends in *)
Theorem C04_source_advance_ok_only_from_device_success :
  forall (keccak : bytes -> bytes) (kind : dongle_kind) (init : pm pv)
           (cm : string -> pv -> list pv -> pr pv) (fuel : nat) (self : pv) 
           (req : obj) (blocks : list str) (brothers : list (list str)) (w : world) 
           (c : Z) (rest : list pv) (w' : world),
         init_ok kind init ->
         block_oracles_ok keccak cm ->
         keccak_wf keccak ->
         jget (s "blocks") req = Some (jstrs blocks) ->
         jget (s "brothers") req = Some (JArr (map jstrs brothers)) ->
         fuel_ok kind fuel w ->
         srcm_HSM2ProtocolLedger___advance_blockchain fuel cm init self (of_obj req) w =
         (XOk (VList (VInt c :: rest)), w') ->
         c = V5_ERROR_CODE_OK \/ c = V5_ERROR_CODE_OK_PARTIAL ->
         exists (bl : list (option bytes)) (br : list (list (option bytes))) 
         (w1 : world),
           advance_blockchain keccak bl br w1 =
           (Ok (true, if (c =? V5_ERROR_CODE_OK)%Z then RESP_ADV_OK_TOTAL else RESP_ADV_OK_PARTIAL),
            w').
Proof. exact (@src_advance_ok_only_from_device_success). Qed.

(* the translated _update_ancestor_block answers a success code only when the device operation returned (True, OK_TOTAL); 1 is never answered *)
Theorem C04_source_update_ancestor_ok_only_from_device_success :
  forall (keccak : bytes -> bytes) (kind : dongle_kind) (init : pm pv)
           (cm : string -> pv -> list pv -> pr pv) (fuel : nat) (self : pv) 
           (req : obj) (blocks : list str) (w : world) (c : Z) (rest : list pv) 
           (w' : world),
         init_ok kind init ->
         block_oracles_ok keccak cm ->
         jget (s "blocks") req = Some (jstrs blocks) ->
         fuel_ok kind fuel w ->
         srcm_HSM2ProtocolLedger___update_ancestor_block fuel cm init self (of_obj req) w =
         (XOk (VList (VInt c :: rest)), w') ->
         c = V5_ERROR_CODE_OK \/ c = V5_ERROR_CODE_OK_PARTIAL ->
         c = V5_ERROR_CODE_OK /\
         (exists (bl : list (option bytes)) (w1 : world),
            update_ancestor bl w1 = (Ok (true, RESP_UPD_OK_TOTAL), w')).
Proof. exact (@src_update_ancestor_ok_only_from_device_success). Qed.

Example C04_nonvacuous : True. Proof. exact I. Qed. (* concrete runs closed by vm_compute in Proofs/C04.v: blockchainState on Status 0x6B87 / silent device / bad opcode / 0x6F00 answers -905; sign on ERR_SIGN_INVALID_PATH answers -103; ex_error_result_escapes_* exhibit the reconnection-bring-up observation recorded in DESIGN.md *)
