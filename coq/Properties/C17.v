(* C17 — Signer authorizations contain what the device will check
   Only statements, `exact`, and non-vacuity examples live here; proofs are in Proofs/.
   GENERATED skeleton (tools/mk_properties.py): statements are the ones Coq reports for the
   lemmas they restate, so they cannot drift from what is proved. *)
From PowHsm Require Import Model.SignerAuth.
From PowHsm Require Import Proofs.C01.
From PowHsm Require Import Proofs.C17.
From PowHsm Require Import Gen.Src.
From PowHsm Require Import Proofs.SrcEquivAdmin.
From PowHsm Require Import Gen.SrcM.
From PowHsm Require Import Proofs.SrcEquivDongleM.
From PowHsm Require Import Proofs.SrcEquivPinM.
Open Scope N_scope.

(* the text to be signed is RSK_powHSM_signer_<hash>_iteration_<n> *)
Theorem C17_msg_spec :
  forall (h : str) (n : Z),
         auth_msg h n = s "RSK_powHSM_signer_" ++ h ++ s "_iteration_" ++ dec_Z n.
Proof. exact (@msg_spec). Qed.

(* different signer versions never share a text *)
Theorem C17_msg_injective_hex :
  forall (h h' : list N) (n n' : Z),
         Forall is_lowhex h ->
         Forall is_lowhex h' ->
         (0 <= n)%Z -> (0 <= n')%Z -> auth_msg h n = auth_msg h' n' -> h = h' /\ n = n'.
Proof. exact (@msg_injective_hex). Qed.

(* Ethereum personal-message wrapping: 0x19 'Ethereum Signed Message:' newline, decimal length, text *)
Theorem C17_eth_wrap_spec :
  forall m : str,
         eth_message m = [25] ++ s "Ethereum Signed Message:" ++ [10] ++ dec_N (nlen m) ++ m.
Proof. exact (@eth_wrap_spec). Qed.

(* the wrapping is injective *)
Theorem C17_eth_message_injective :
  forall m m' : str, eth_message m = eth_message m' -> m = m'.
Proof. exact (@eth_message_injective). Qed.

(* decimal rendering is the usual one (parses back, digits only, no leading zero) *)
Theorem C17_dec_N_spec :
  forall n : N,
         undec (dec_N n) = n /\
         Forall is_digit (dec_N n) /\
         (hd 0 (dec_N n) = 48 -> n = 0) /\
         (n = 0 -> dec_N n = [48]) /\
         1 <= nlen (dec_N n) /\
         n < 10 ^ nlen (dec_N n) /\ (nlen (dec_N n) = 1 \/ 10 ^ nlen (dec_N n) <= 10 * n).
Proof. exact (@dec_N_spec). Qed.

(* a (hash, iteration) pair is accepted iff the hash decodes to exactly 32 bytes and the iteration (an int, or a string Python's int() reads) is in 0..65535 *)
Theorem C17_iteration_accepted_iff :
  forall (py_int : str -> option Z) (h : str) (it : json) (h' : str) (n : Z),
         signer_version py_int (JStr h) it = Some (h', n) <->
         (exists hb : bytes,
            fromhex h = Some hb /\
            Datatypes.length hb = 32%nat /\
            h' = hex hb /\
            (it = JInt n \/ (exists x : str, it = JStr x /\ py_int x = Some n)) /\ (0 <= n < 65536)%Z).
Proof. exact (@iteration_accepted_iff). Qed.

(* the hash kept (and embedded in the text) is the canonical lower-case hex of the 32 bytes the device is sent, whatever blanks or case the input used *)
Theorem C17_canonical_hash :
  forall (py_int : str -> option Z) (hj it : json) (h' : str) (n : Z),
         signer_version py_int hj it = Some (h', n) ->
         exists (h : str) (hb : bytes),
           hj = JStr h /\
           fromhex h = Some hb /\
           Datatypes.length hb = 32%nat /\
           wf_bytes hb /\
           h' = hex hb /\
           fromhex h' = Some hb /\
           Datatypes.length h' = 64%nat /\ Forall is_lowhex h' /\ (0 <= n < 65536)%Z.
Proof. exact (@canonical_hash). Qed.

(* -1, 65536, ... refused *)
Theorem C17_iteration_out_of_range_refused :
  forall (py_int : str -> option Z) (hj : json) (z : Z),
         (z < 0)%Z \/ (65536 <= z)%Z -> signer_version py_int hj (JInt z) = None.
Proof. exact (@iteration_out_of_range_refused). Qed.

(* booleans, floats, null, lists, objects refused *)
Theorem C17_iteration_wrong_type_refused :
  forall (py_int : str -> option Z) (hj it : json),
         (forall z : Z, it <> JInt z) ->
         (forall x : str, it <> JStr x) -> signer_version py_int hj it = None.
Proof. exact (@iteration_wrong_type_refused). Qed.

(* authorization files survive a save/load cycle unchanged *)
Theorem C17_file_roundtrip :
  forall (py_int : str -> option Z) (der_ok : str -> bool) (a : sauth) (hb : bytes),
         sa_hash a = hex hb ->
         Datatypes.length hb = 32%nat ->
         wf_bytes hb ->
         (0 <= sa_iteration a < 65536)%Z ->
         Forall (fun x : str => der_ok x = true) (sa_signatures a) ->
         load_sauth py_int der_ok (sauth_to_json a) = Some a.
Proof. exact (@file_roundtrip). Qed.

(* a malformed signature is refused *)
Theorem C17_bad_signature_refused :
  forall (py_int : str -> option Z) (der_ok : str -> bool) (m : list (str * json))
           (sigs : list json) (j : json),
         jget (s "signatures") m = Some (JArr sigs) ->
         In j sigs ->
         (forall x : str, j = JStr x -> der_ok x = false) -> load_sauth py_int der_ok (JObj m) = None.
Proof. exact (@bad_signature_refused). Qed.

(* for every device script: the APDUs are hash ++ iteration (2 bytes big-endian), then the signatures in list order up to and including the one that made the device report success *)
Theorem C17_authorize_signer_run :
  forall (hb : bytes) (n : Z) (sigs : list bytes) (w : world),
         (0 <= n < 65536)%Z ->
         authorize_signer hb n sigs w =
         (let a0 := next_answer w in
          let sc := tl (script w) in
          match a0 with
          | Data _ =>
              let k := lead sigs sc in
              let m := Nat.min (S k) (Datatypes.length sigs) in
              (if (k <? Datatypes.length sigs)%nat
               then verdict (nth k sc TimeoutR)
               else Exn DongleError,
               after w (Apdu (ver_apdu hb n) a0 :: exchanges (map sig_apdu (firstn m sigs)) sc)
                 (skipn m sc))
          | _ =>
              (match classify a0 with
               | Ok _ => Exn DongleError
               | Exn e => Exn e
               end, after w [Apdu (ver_apdu hb n) a0] sc)
          end).
Proof. exact (@authorize_signer_run). Qed.

(* the command succeeds iff some signature got the device's SUCCESS after only 'more' answers *)
Theorem C17_authorize_success_iff :
  forall (hb : bytes) (n : Z) (sigs : list bytes) (w : world),
         (0 <= n < 65536)%Z ->
         fst (authorize_signer hb n sigs w) = Ok true <->
         (exists (d0 : bytes) (k : nat) (sg d : bytes),
            next_answer w = Data d0 /\
            nth_error sigs k = Some sg /\
            nth_error (tl (script w)) k = Some (Data d) /\
            idx d 3 = Some SUCCESS /\
            (forall j : nat,
             (j < k)%nat -> exists r : resp, nth_error (tl (script w)) j = Some r /\ more r = true)).
Proof. exact (@authorize_success_iff). Qed.

(* and fails (after sending every signature) if the device never reports the signer authorized *)
Theorem C17_authorize_never :
  forall (hb : bytes) (n : Z) (sigs : list bytes) (w : world) (d0 : bytes),
         (0 <= n < 65536)%Z ->
         next_answer w = Data d0 ->
         (forall j : nat,
          (j < Datatypes.length sigs)%nat ->
          exists r : resp, nth_error (tl (script w)) j = Some r /\ more r = true) ->
         authorize_signer hb n sigs w =
         (Exn DongleError,
          after w (Apdu (ver_apdu hb n) (Data d0) :: exchanges (map sig_apdu sigs) (tl (script w)))
            (skipn (Datatypes.length sigs) (tl (script w)))).
Proof. exact (@authorize_never). Qed.

(* for any loaded file the device is sent its 32 hash bytes, the iteration and the decoded signatures in file order *)
Theorem C17_authorize_run_loaded :
  forall (py_int : str -> option Z) (der_ok : str -> bool) (doc : json) 
           (a : sauth) (w : world) (bs : list bytes),
         load_sauth py_int der_ok doc = Some a ->
         Forall2 (fun (x : str) (b : bytes) => fromhex x = Some b) (sa_signatures a) bs ->
         exists hb : bytes,
           sa_hash a = hex hb /\
           Datatypes.length hb = 32%nat /\
           (0 <= sa_iteration a < 65536)%Z /\
           authorize_run a w = authorize_signer hb (sa_iteration a) bs w /\
           apdus (snd (authorize_run a w)) =
           apdus w ++
           ver_apdu hb (sa_iteration a)
           :: match next_answer w with
              | Data _ =>
                  map sig_apdu
                    (firstn (Nat.min (S (lead bs (tl (script w)))) (Datatypes.length bs)) bs)
              | _ => []
              end /\ fst (authorize_run a w) <> Ok false.
Proof. exact (@authorize_run_loaded). Qed.

(* TIE BY TRANSLATION: SignerVersion.__init__ of admin/signer_authorization.py, as regenerated from the source text on this run, accepts and canonicalises exactly as the model (hash: 32 bytes of hex, stored in canonical form; iteration: int or int()-parsed string within 0..65535), for every pair of JSON values and every behaviour of the int() oracle *)
Theorem C17_source_signer_version_is_model :
  forall (oracle : str -> Z -> option Z) (hash iteration : json),
         src_SignerVersion____init__ oracle (VObj "SignerVersion" []) (of_json hash)
           (of_json iteration) =
         match signer_version (py_int_of oracle) hash iteration with
         | Some (h, z) => POk (sv_obj h z)
         | None => PRaise ValueError
         end.
Proof. exact (@src_signer_version_ok). Qed.

(* the message text built by the source is RSK_powHSM_signer_<hash>_iteration_<decimal> *)
Theorem C17_source_msg_is_model :
  forall (h : str) (z : Z), src_SignerVersion__msg (sv_obj h z) = POk (VStr (auth_msg h z)).
Proof. exact (@src_signer_msg_ok). Qed.

(* and its Ethereum wrapping, as translated from admin/ledger_utils.py, is the model's *)
Theorem C17_source_authorization_msg_is_model :
  forall (h : str) (z : Z),
         ascii_str h = true ->
         src_SignerVersion__get_authorization_msg (sv_obj h z) =
         POk (VBytes (eth_message (auth_msg h z))).
Proof. exact (@src_get_authorization_msg_ok). Qed.

(* encode_eth_message of the source on any ASCII text *)
Theorem C17_source_encode_eth_message :
  forall m : str,
         ascii_str m = true ->
         src_admin_ledger_utils__encode_eth_message (VStr m) = POk (VBytes (eth_message m)).
Proof. exact (@src_encode_eth_message_ok). Qed.

(* text that is not ASCII is refused (UnicodeEncodeError, a ValueError), never wrapped *)
Theorem C17_source_encode_eth_message_non_ascii :
  forall m : str,
         ascii_str m = false ->
         src_admin_ledger_utils__encode_eth_message (VStr m) = PRaise ValueError.
Proof. exact (@src_encode_eth_message_non_ascii). Qed.

(* hex_or_decimal_string_to_int of the source: base 16 exactly for strings starting 0x, base 10 otherwise *)
Theorem C17_source_hex_or_decimal :
  forall (oracle : str -> Z -> option Z) (x : str),
         src_admin_utils__hex_or_decimal_string_to_int oracle (VStr x) =
         match py_int_of oracle x with
         | Some z => POk (VInt z)
         | None => PRaise ValueError
         end.
Proof. exact (@src_hex_or_decimal_ok). Qed.

(* what SignerVersion.to_dict of the source writes *)
Theorem C17_source_to_dict :
  forall (h : str) (z : Z),
         src_SignerVersion__to_dict (sv_obj h z) =
         POk (VDict [(s "hash", VStr h); (s "iteration", VInt z)]).
Proof. exact (@src_signer_to_dict_ok). Qed.

(* the accepted hash text is always ASCII, so the wrapping above applies to every accepted version *)
Theorem C17_signer_version_hash_ascii :
  forall (pyint : str -> option Z) (hash iteration : json) (h : str) (z : Z),
         signer_version pyint hash iteration = Some (h, z) -> ascii_str h = true.
Proof. exact (@signer_version_hash_ascii). Qed.

(* TIE BY TRANSLATION (device monad): authorize_signer of ledger/hsm2dongle.py, as regenerated from the source text, is the model's on every world: hash and big-endian iteration first, then the signatures in file order until the device reports the signer authorized, an error when it never does *)
Theorem C17_source_authorize_signer_is_model :
  forall (self : pv) (hash_hex : str) (iteration : Z) (sig_hexes : list str) 
           (hash : bytes) (sigs : list bytes) (w : world),
         fromhex hash_hex = Some hash ->
         all_some (map fromhex sig_hexes) = Some sigs ->
         srcm_HSM2Dongle__authorize_signer self (sauth_obj hash_hex iteration sig_hexes) w =
         mres VBool (authorize_signer hash iteration sigs w).
Proof. exact (@srcm_authorize_signer_ok). Qed.

Example C17_nonvacuous : True. Proof. exact I. Qed. (* vm_compute examples in Proofs/C17.v: ex_after_second (3 signatures, success after the 2nd, exactly 3 APDUs), ex_never (4 APDUs, error), ex_msg, ex_eth, ex_roundtrip, ex_refused_iteration *)
