(* C02 — Requests are classified exactly as the protocol specification prescribes
   Only statements, `exact`, and non-vacuity examples live here; proofs are in Proofs/.
   GENERATED skeleton (tools/mk_properties.py): statements are the ones Coq reports for the
   lemmas they restate, so they cannot drift from what is proved. *)
From PowHsm Require Import Model.CommProtocol.
From PowHsm Require Import Model.LedgerProtocol.
From PowHsm Require Import Proofs.C02.
From PowHsm Require Import Gen.Src.
From PowHsm Require Import Proofs.SrcEquivBase.
From PowHsm Require Import Proofs.SrcEquivProto.
From PowHsm Require Import Proofs.SrcLiftC02.
From PowHsm Require Import Gen.SrcM.
From PowHsm Require Import Proofs.SrcEquivSignProtoM.
From PowHsm Require Import Proofs.SrcEquivGateM.
From PowHsm Require Import Proofs.SrcLiftGate.
From PowHsm Require Import Proofs.SrcEquivGateV1M.
From PowHsm Require Import Proofs.SrcLiftGate2.
From PowHsm Require Import Proofs.SrcLiftGateV1.
Open Scope N_scope.

(* a request the gate rejects is answered {errorcode: code} and the world (script, trace, flag) is untouched: no exchange with the device at all *)
Theorem C02_rejected_no_exchange :
  forall (keccak : bytes -> bytes) (kind : dongle_kind) (m : pmode) 
           (request : json) (code : Z) (w : world),
         gate_request m request = GReject code ->
         handle_request keccak kind m request w = (Ok (JObj [(KEY_ERRORCODE, JInt code)]), w).
Proof. exact (@rejected_no_exchange). Qed.

(* second-stage rejections of sign (auth missing/malformed, message of the wrong kind, undecodable transaction) also leave the world untouched *)
Theorem C02_sign_second_stage_no_exchange :
  forall (kind : dongle_kind) (req : obj) (w : world),
         sign_is_hash req = true /\ validate_message (codes_of V5) req WHash <> 0%Z \/
         sign_is_hash req = false /\ validate_auth (codes_of V5) req true <> 0%Z \/
         sign_is_hash req = false /\
         validate_auth (codes_of V5) req true = 0%Z /\ validate_message (codes_of V5) req WTx <> 0%Z \/
         sign_is_hash req = false /\
         validate_auth (codes_of V5) req true = 0%Z /\
         validate_message (codes_of V5) req WTx = 0%Z /\
         (exists (msg : list (str * json)) (x : str) (txraw : bytes),
            jget (s "message") req = Some (JObj msg) /\
            jget (s "tx") msg = Some (JStr x) /\
            fromhex x = Some txraw /\
            (unsign_tx txraw = None \/
             (exists utx : bytes, unsign_tx txraw = Some utx /\ deserialize_tx utx = None))) ->
         exists code : Z,
           In code [c_invalid_auth (codes_of V5); c_invalid_message (codes_of V5)] /\
           op_sign_v5 kind req w = (Ok (code, None), w).
Proof. exact (@op_sign_v5_reject_no_exchange). Qed.

(* the gate is a function of the request value alone, through an explicit verdict *)
Theorem C02_gate_request_classified :
  forall (m : pmode) (r : json), gate_request m r = gate_of_verdict m (classify_request m r).
Proof. exact (@gate_request_classified). Qed.

(* format error iff the value is not an object *)
Theorem C02_classify_format_iff :
  forall (m : pmode) (r : json), classify_request m r = VFormat <-> is_jobj r = false.
Proof. exact (@classify_format_iff). Qed.

(* invalid request iff no command, or no version on a command other than version *)
Theorem C02_classify_invalid_request_iff :
  forall (m : pmode) (r : json),
         classify_request m r = VInvalidRequest <->
         (exists req : list (str * json),
            r = JObj req /\
            (jget KEY_COMMAND req = None \/
             (exists command : json,
                jget KEY_COMMAND req = Some command /\
                py_eq_str command CMDNAME_VERSION_COMMAND = false /\ jget KEY_VERSION req = None))).
Proof. exact (@classify_invalid_request_iff). Qed.

(* wrong version iff a version member is present and not numerically the protocol version *)
Theorem C02_classify_wrong_version_iff :
  forall (m : pmode) (r : json),
         classify_request m r = VWrongVersion <->
         (exists (req : list (str * json)) (command v : json),
            r = JObj req /\
            jget KEY_COMMAND req = Some command /\
            jget KEY_VERSION req = Some v /\ py_eq_int v (c_version (codes_of m)) = false).
Proof. exact (@classify_wrong_version_iff). Qed.

(* command unknown iff the command is hashable but not a known command string *)
Theorem C02_classify_unknown_iff :
  forall (m : pmode) (r : json),
         classify_request m r = VUnknown <->
         (exists (req : list (str * json)) (command : json),
            r = JObj req /\
            jget KEY_COMMAND req = Some command /\
            version_passed m req command /\
            hashable command = true /\
            (forall cmd : str, command = JStr cmd -> ~ In cmd (known_commands m))).
Proof. exact (@classify_unknown_iff). Qed.

(* every rejection code is generic or belongs to the validator of the known command *)
Theorem C02_gate_total_codes :
  forall (m : pmode) (r : json) (code : Z),
         gate_request m r = GReject code ->
         In code (generic_code_list (codes_of m)) \/
         unhashable_code m = Some code \/
         (exists (cmd : str) (req : obj) (vn : str),
            classify_request m r = VValidate cmd req /\
            validator_name m cmd = Some vn /\
            In code (validator_codes m vn) /\ run_validator m vn req = Some code).
Proof. exact (@gate_total_codes). Qed.

(* closed check: every v5 rejection code is one the documentation lists for that command or a generic one *)
Theorem C02_gate_v5_documented :
  forall (r : json) (code : Z),
         gate_request V5 r = GReject code ->
         In code DOC_GENERIC \/
         (exists (cmd : str) (req : obj) (doc : list Z),
            classify_request V5 r = VValidate cmd req /\
            assoc_str cmd DOC_CODES = Some doc /\ In code doc).
Proof. exact (@gate_v5_documented). Qed.

(* message accepted iff it has one of the three documented shapes (hash of exactly 32 bytes; legacy tx; segwit tx with 0 < outpointValue <= 2^64-1) *)
Theorem C02_validate_message_ok_iff :
  forall (c : codes) (req : obj) (what : msg_kind),
         c_invalid_message c <> 0%Z ->
         validate_message c req what = 0%Z <->
         (exists m : list (str * json),
            jget (s "message") req = Some (JObj m) /\
            (hash_allowed what = true /\ hash_shape m \/
             tx_allowed what = true /\ (legacy_shape m \/ segwit_shape m))).
Proof. exact (@validate_message_ok_iff). Qed.

(* authorization accepted iff receipt is non-empty hex and the proof a non-empty list of non-empty hex strings *)
Theorem C02_validate_auth_ok_iff :
  forall (c : codes) (req : obj) (mandatory : bool),
         c_invalid_auth c <> 0%Z ->
         validate_auth c req mandatory = 0%Z <->
         jget (s "auth") req = None /\ mandatory = false \/
         (exists auth : list (str * json), jget (s "auth") req = Some (JObj auth) /\ auth_shape auth).
Proof. exact (@validate_auth_ok_iff). Qed.

(* key id accepted iff it is a string in the BIP32 path grammar *)
Theorem C02_validate_key_id_ok_iff :
  forall (c : codes) (req : obj),
         c_invalid_keyid c <> 0%Z ->
         validate_key_id c req = 0%Z <->
         (exists (x : str) (p : list N),
            jget (s "keyId") req = Some (JStr x) /\ bip32_path x = Some p).
Proof. exact (@validate_key_id_ok_iff). Qed.

(* advanceBlockchain accepted iff blocks is a non-empty list of strings and brothers a same-length list of lists of non-empty hex strings *)
Theorem C02_validate_advance_blockchain_ok_iff :
  forall (c : codes) (req : obj),
         c_input_blocks c <> 0%Z ->
         c_brothers c <> 0%Z ->
         validate_advance_blockchain c req = 0%Z <-> blocks_ok req /\ brothers_ok req.
Proof. exact (@validate_advance_blockchain_ok_iff). Qed.

(* the blocks check takes precedence over the brothers check *)
Theorem C02_validate_advance_blocks_first :
  forall (c : codes) (req : obj),
         ~ blocks_ok req -> validate_advance_blockchain c req = c_input_blocks c.
Proof. exact (@validate_advance_blocks_first). Qed.

(* updateAncestorBlock accepted iff blocks is a non-empty list of strings *)
Theorem C02_validate_update_ancestor_block_ok_iff :
  forall (c : codes) (req : obj),
         c_input_blocks c <> 0%Z ->
         validate_update_ancestor_block c req = 0%Z <->
         (exists bl : list json,
            jget (s "blocks") req = Some (JArr bl) /\
            MINIMUM_UPDATE_ANCESTOR_BLOCKS <= nlen bl /\ Forall is_str_json bl).
Proof. exact (@validate_update_ancestor_block_ok_iff). Qed.

(* heartbeat accepted iff udValue is hex of exactly the documented size *)
Theorem C02_validate_heartbeat_ok_iff :
  forall (c : codes) (req : obj) (n : N),
         c_hb_ud c <> 0%Z ->
         validate_heartbeat c req n = 0%Z <->
         hex_member req (s "udValue") (fun b : bytes => nlen b = n).
Proof. exact (@validate_heartbeat_ok_iff). Qed.

(* sign validates key id, then authorization, then message *)
Theorem C02_validate_sign_v5_order :
  forall (c : codes) (req : obj),
         (c_invalid_keyid c < 0)%Z ->
         (c_invalid_auth c < 0)%Z ->
         validate_sign_v5 c req =
         (if negb (validate_key_id c req =? 0)%Z
          then c_invalid_keyid c
          else
           if negb (validate_auth c req false =? 0)%Z
           then c_invalid_auth c
           else validate_message c req WAny).
Proof. exact (@validate_sign_v5_order). Qed.

(* legacy mode: every rejection is -2 except wrong version -666 *)
Theorem C02_v1_codes :
  let c := codes_of V1 in
         c_format c = (-2)%Z /\
         c_invalid_request c = (-2)%Z /\
         c_unknown_cmd c = (-2)%Z /\
         c_invalid_keyid c = (-2)%Z /\
         c_invalid_auth c = (-2)%Z /\
         c_invalid_message c = (-2)%Z /\
         c_wrong_version c = (-666)%Z /\ c_version c = 1%Z /\ unhashable_code V1 = Some (-2)%Z.
Proof. exact (@v1_codes). Qed.

(* acceptance means: an object, a known command, version rule passed, validator passed *)
Theorem C02_accept_runs_validated :
  forall (m : pmode) (r : json) (cmd : str) (req : obj),
         gate_request m r = GAccept cmd req ->
         r = JObj req /\
         jget KEY_COMMAND req = Some (JStr cmd) /\
         version_passed m req (JStr cmd) /\
         In cmd (known_commands m) /\
         (exists (vn : str) (v : Z),
            validator_name m cmd = Some vn /\ run_validator m vn req = Some v /\ (0 <= v)%Z).
Proof. exact (@accept_runs_validated). Qed.

(* TIE BY TRANSLATION: __internal_handle_request of comm/protocol.py, as regenerated from the Python source text on this run (Gen/Src.v), equals the model's gate for every JSON value and every operation table; a change of the source that alters the gate's behaviour breaks this proof *)
Theorem C02_source_gate_v5_is_model_gate :
  forall (op : pv -> pv -> pr pv) (self : pv) (request : json),
         src_HSM2Protocol____internal_handle_request op self (of_json request) =
         gate_spec V5 op request.
Proof. exact (@src_gate_v5). Qed.

(* the same for the legacy protocol class (inherited methods re-translated with the v1 constants and its own dispatch table) *)
Theorem C02_source_gate_v1_is_model_gate :
  forall (op : pv -> pv -> pr pv) (self : pv) (request : json),
         src_HSM1Protocol____internal_handle_request op self (of_json request) =
         gate_spec V1 op request.
Proof. exact (@src_gate_v1). Qed.

(* a request the gate rejects reaches no operation of the translated source (the result does not depend on the operation table) and is answered {errorcode: code} *)
Theorem C02_source_rejected_no_operation :
  forall (m : pmode) (op1 op2 : pv -> pv -> pr pv) (self : pv) (request : json) (c : Z),
         gate_request m request = GReject c ->
         match m with
         | V5 => src_HSM2Protocol____internal_handle_request op1 self (of_json request)
         | V1 => src_HSM1Protocol____internal_handle_request op1 self (of_json request)
         end =
         match m with
         | V5 => src_HSM2Protocol____internal_handle_request op2 self (of_json request)
         | V1 => src_HSM1Protocol____internal_handle_request op2 self (of_json request)
         end /\
         match m with
         | V5 => src_HSM2Protocol____internal_handle_request op1 self (of_json request)
         | V1 => src_HSM1Protocol____internal_handle_request op1 self (of_json request)
         end = POk (reply_code c).
Proof. exact (@src_gate_rejected_no_operation). Qed.

(* and that code is one the documentation lists (generic, or documented for the command) *)
Theorem C02_source_gate_v5_rejected_documented :
  forall (op : pv -> pv -> pr pv) (self : pv) (r : json) (code : Z),
         gate_request V5 r = GReject code ->
         src_HSM2Protocol____internal_handle_request op self (of_json r) = POk (reply_code code) /\
         (In code DOC_GENERIC \/
          (exists (cmd : str) (req : obj) (doc : list Z),
             classify_request V5 r = VValidate cmd req /\
             assoc_str cmd DOC_CODES = Some doc /\ In code doc)).
Proof. exact (@src_gate_v5_rejected). Qed.

(* the key-id validator of the source accepts exactly strings that are five-element BIP32 paths *)
Theorem C02_source_validate_key_id_accepts_iff :
  forall (self : pv) (req : obj),
         src_HSM2Protocol___validate_key_id self (of_obj req) = POk (VInt 0) <->
         (exists (x : str) (p : list N),
            jget (s "keyId") req = Some (JStr x) /\ bip32_path x = Some p).
Proof. exact (@src_validate_key_id_accepts_iff). Qed.

(* each validator of the source computes the model's verdict: sign *)
Theorem C02_source_validate_sign_v5 :
  forall (self : pv) (req : obj),
         src_HSM2Protocol___validate_sign self (of_obj req) =
         POk (VInt (validate_sign_v5 (codes_of V5) req)).
Proof. exact (@src_validate_sign_v5). Qed.

(* message (hash / legacy tx / segwit tx shapes with their bounds) *)
Theorem C02_source_validate_message_v5 :
  forall (self : pv) (req : obj) (w : msg_kind),
         src_HSM2Protocol___validate_message self (of_obj req) (what_val w) =
         POk (VInt (validate_message (codes_of V5) req w)).
Proof. exact (@src_validate_message_v5). Qed.

(* auth *)
Theorem C02_source_validate_auth_v5 :
  forall (self : pv) (req : obj) (mandatory : bool),
         src_HSM2Protocol___validate_auth self (of_obj req) (VBool mandatory) =
         POk (VInt (validate_auth (codes_of V5) req mandatory)).
Proof. exact (@src_validate_auth_v5). Qed.

(* advanceBlockchain *)
Theorem C02_source_validate_advance_blockchain_v5 :
  forall (self : pv) (req : obj),
         src_HSM2Protocol___validate_advance_blockchain self (of_obj req) =
         POk (VInt (validate_advance_blockchain (codes_of V5) req)).
Proof. exact (@src_validate_advance_blockchain_v5). Qed.

(* updateAncestorBlock *)
Theorem C02_source_validate_update_ancestor_block_v5 :
  forall (self : pv) (req : obj),
         src_HSM2Protocol___validate_update_ancestor_block self (of_obj req) =
         POk (VInt (validate_update_ancestor_block (codes_of V5) req)).
Proof. exact (@src_validate_update_ancestor_block_v5). Qed.

(* signerHeartbeat *)
Theorem C02_source_validate_signer_heartbeat_v5 :
  forall (self : pv) (req : obj),
         src_HSM2Protocol___validate_signer_heartbeat self (of_obj req) =
         POk (VInt (validate_heartbeat (codes_of V5) req SIGNER_HBT_UD_VALUE_SIZE)).
Proof. exact (@src_validate_signer_heartbeat_v5). Qed.

(* uiHeartbeat *)
Theorem C02_source_validate_ui_heartbeat_v5 :
  forall (self : pv) (req : obj),
         src_HSM2Protocol___validate_ui_heartbeat self (of_obj req) =
         POk (VInt (validate_heartbeat (codes_of V5) req UI_HBT_UD_VALUE_SIZE)).
Proof. exact (@src_validate_ui_heartbeat_v5). Qed.

(* legacy sign *)
Theorem C02_source_validate_sign_v1 :
  forall (self : pv) (req : obj),
         src_HSM1Protocol___validate_sign self (of_obj req) =
         POk (VInt (validate_sign_v1 (codes_of V1) req)).
Proof. exact (@src_validate_sign_v1). Qed.

(* BIP32Path.__init__ of comm/bip32.py as translated: the parsed object or ValueError, as the model's grammar says *)
Theorem C02_source_bip32_path :
  forall x : str,
         src_BIP32Path____init__ (VObj "BIP32Path" []) (VStr x) (VInt 5) =
         match bip32_path x with
         | Some els => POk (path_obj els)
         | None => PRaise ValueError
         end.
Proof. exact (@src_bip32_path_ok). Qed.

(* is_hex_string_of_length of comm/utils.py as translated (no prefix allowed): true exactly for str values that bytes.fromhex reads as n bytes *)
Theorem C02_source_is_hex_string_of_length :
  forall (j : json) (n : N),
         src_comm_utils__is_hex_string_of_length (of_json j) (VInt (Z.of_N n)) (VBool false) =
         POk (VBool match j with
                    | JStr x => is_hex_string_of_length x n
                    | _ => false
                    end).
Proof. exact (@src_is_hex_string_of_length_ok). Qed.

(* TIE BY TRANSLATION (device monad): the second-stage classification of sign requests (auth mandatory for a transaction, message kind, transaction decodable) as written in _sign of the source is the model's, for every request the gate lets through *)
Theorem C02_source_sign_handler_is_model :
  forall (kind : dongle_kind) (init : pm pv) (cm : string -> pv -> list pv -> pr pv)
           (fuel : nat) (self : pv) (req : obj) (x : str) (els : list N) 
           (w : world),
         SrcEquivProtoM.init_ok kind init ->
         tx_oracles_ok cm ->
         SrcEquivSignM.oracles_ok cm (path_obj els) (path_to_binary els) ->
         jget (s "keyId") req = Some (JStr x) ->
         bip32_path x = Some els ->
         ValLemmasSignProtoM.message_absent_or_object req ->
         (S (Datatypes.length (script (snd (ensure_connection kind w)))) <= fuel)%nat ->
         srcm_HSM2ProtocolLedger___sign fuel cm init self (SrcEquivProtoM.request_with_path req els)
           w = SrcEquivDongleM.mres SrcEquivProtoM.rtuple_pv (op_sign_v5 kind req w).
Proof. exact (@srcm_sign_handler_ok). Qed.

(* the whole request path of the source (gate, state-threading validation, dispatch over the translated handlers, reply assembly) = the model's handle_request on every request and world *)
Theorem C02_source_whole_request_path_is_model :
  forall (keccak : bytes -> bytes) (kind : dongle_kind) (init : pm pv)
           (cm : string -> pv -> list pv -> pr pv) (fuel : nat) (self : pv) 
           (request : json) (w : world),
         SrcEquivProtoM.init_ok kind init ->
         tx_oracles_ok cm ->
         path_oracle_ok cm ->
         varint_oracle_ok cm ->
         SrcEquivBlockM.block_oracles_ok keccak cm ->
         SrcEquivBlockM.keccak_wf keccak ->
         SrcEquivBlockProtoM.fuel_ok kind fuel w ->
         srcm_HSM2ProtocolLedger____internal_handle_request fuel cm init self (of_json request) w =
         SrcEquivDongleM.mres of_json (handle_request keccak kind V5 request w).
Proof. exact (@srcm_handle_request_v5_ok). Qed.

(* the whole legacy (version 1) request path of the source = the model's handle_request in mode V1 on every request and world *)
Theorem C02_source_whole_request_path_v1_is_model :
  forall (keccak : bytes -> bytes) (kind : dongle_kind) (init : pm pv)
           (cm : string -> pv -> list pv -> pr pv) (self : pv) (request : json) 
           (w : world),
         SrcEquivProtoM.init_ok kind init ->
         path_oracle_ok_v1 cm ->
         srcm_HSM1ProtocolLedger____internal_handle_request cm init self (of_json request) w =
         SrcEquivDongleM.mres of_json (handle_request keccak kind V1 request w).
Proof. exact (@srcm_handle_request_v1_ok). Qed.

(* a request the gate rejects: the translated request path answers that code and leaves the world untouched (no exchange, no reconnection) *)
Theorem C02_source_rejected_no_exchange :
  forall (keccak : bytes -> bytes) (kind : dongle_kind) (init : pm pv)
           (cm : string -> pv -> list pv -> pr pv) (fuel : nat) (self : pv) 
           (request : json) (code : Z) (w : world),
         env_ok keccak kind init cm fuel w ->
         gate_request V5 request = GReject code ->
         srcm_HSM2ProtocolLedger____internal_handle_request fuel cm init self (of_json request) w =
         (XOk (of_json (JObj [(KEY_ERRORCODE, JInt code)])), w).
Proof. exact (@src_rejected_no_exchange). Qed.

(* legacy mode: a rejected request leaves the world untouched, on the translated request path *)
Theorem C02_source_rejected_no_exchange_v1 :
  (bytes -> bytes) ->
         forall (kind : dongle_kind) (init : pm pv) (cm : string -> pv -> list pv -> pr pv)
           (self : pv) (request : json) (code : Z) (w : world),
         env_ok_v1 kind init cm ->
         gate_request V1 request = GReject code ->
         srcm_HSM1ProtocolLedger____internal_handle_request cm init self (of_json request) w =
         (XOk (of_json (JObj [(KEY_ERRORCODE, JInt code)])), w).
Proof. exact (@src_rejected_no_exchange_v1). Qed.

Example C02_nonvacuous : True. Proof. exact I. Qed. (* 24 concrete classifications closed by vm_compute in Proofs/C02.v *)
