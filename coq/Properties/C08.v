(* C08 — Verify commands vouch only for the operator's keys and a well-formed message
   Only statements, `exact`, and non-vacuity examples live here; proofs are in Proofs/.
   GENERATED skeleton (tools/mk_properties.py): statements are the ones Coq reports for the
   lemmas they restate, so they cannot drift from what is proved. *)
From PowHsm Require Import Model.Verify.
From PowHsm Require Import Proofs.C05.
From PowHsm Require Import Proofs.C08.
From PowHsm Require Import Gen.Src.
From PowHsm Require Import Proofs.SrcEquivCert.
Open Scope N_scope.

(* the powHSM message is accepted exactly when it has the header, exactly the documented length (12 + 115) and an ASCII platform; its fields are the slices at the offsets computed from the generated layout *)
Theorem C08_parse_powhsm_iff :
  forall (m : bytes) (pm : powhsm_msg),
         parse_powhsm m = Some pm <->
         is_powhsm_header m = true /\
         Datatypes.length m = 127%nat /\
         Forall (fun c : N => c < 128) (firstn 3 (skipn 12 m)) /\ pm = powhsm_of m.
Proof. exact (@parse_powhsm_iff). Qed.

(* any other length is rejected *)
Theorem C08_parse_powhsm_length :
  forall m : list N, Datatypes.length m <> 127%nat -> parse_powhsm m = None.
Proof. exact (@parse_powhsm_length). Qed.

(* header matcher = the regular expression ^POWHSM:(5.[0-9]):: *)
Theorem C08_is_powhsm_header_spec :
  forall m : bytes,
         is_powhsm_header m = true <->
         (exists (b c : N) (r : list N),
            m = s "POWHSM:" ++ 53 :: b :: c :: 58 :: 58 :: r /\ b <> 10 /\ 48 <= c <= 57).
Proof. exact (@is_powhsm_header_spec). Qed.

(* UI header matcher = ^HSM:UI:([2345].[0-9]) *)
Theorem C08_is_ui_header_spec :
  forall m : bytes,
         is_ui_header m = true <->
         (exists (a b c : N) (r : list N),
            m = s "HSM:UI:" ++ a :: b :: c :: r /\ 50 <= a <= 53 /\ b <> 10 /\ 48 <= c <= 57).
Proof. exact (@is_ui_header_spec). Qed.

(* the Ledger command finishes without error exactly when: chain valid for the UI and signer targets (with tweaks), UI header, UI-attested key = the operator's BTC key, signer header (legacy or current), exact powHSM length, keys hash = hash of the operator's uncompressed keys in path order *)
Theorem C08_ledger_ok_iff :
  forall (hash : bytes -> bytes) (ks : list opkey) (ui signer : option tres) 
           (ur : ui_report) (sr : signer_report),
         verify_ledger hash ks ui signer = Some (ur, sr) <-> ledger_ok hash ks ui signer ur sr.
Proof. exact (@ledger_ok_iff). Qed.

(* every other situation ends in an error *)
Theorem C08_ledger_else_error :
  forall (hash : bytes -> bytes) (ks : list opkey) (ui signer : option tres),
         verify_ledger hash ks ui signer = None <->
         (forall (ur : ui_report) (sr : signer_report), ~ ledger_ok hash ks ui signer ur sr).
Proof. exact (@ledger_else_error). Qed.

(* every printed value is the slice of the verified message at the documented offset (legacy format prints no powHSM fields) *)
Theorem C08_printed_are_slices :
  forall (hash : bytes -> bytes) (ks : list opkey) (um uih sm sh : bytes) 
           (ur : ui_report) (sr : signer_report),
         verify_ledger hash ks (Some (TValid um (Some uih))) (Some (TValid sm (Some sh))) =
         Some (ur, sr) ->
         ur_ud_value ur = slice um 10 42 /\
         ur_public_key ur = slice um 42 75 /\
         ur_signer_hash ur = slice um 75 107 /\
         ur_signer_iteration ur = from_bytes_be (slice um 107 109) /\
         ur_ui_hash ur = uih /\
         ur_ui_version ur = firstn 3 (skipn 7 um) /\
         sr_signer_hash sr = sh /\
         sr_keys_hash sr = keys_hash_of hash ks /\
         (if is_legacy_signer_header sm
          then
           sr_powhsm sr = None /\
           sr_version sr = firstn 3 (skipn 11 sm) /\ sr_keys_hash sr = skipn 14 sm
          else
           sr_version sr = firstn 3 (skipn 7 sm) /\
           sr_keys_hash sr = firstn 32 (skipn 47 sm) /\
           (exists pm : powhsm_msg,
              sr_powhsm sr = Some pm /\
              pm_platform pm = firstn 3 (skipn 12 sm) /\
              pm_ud_value pm = firstn 32 (skipn 15 sm) /\
              pm_keys_hash pm = firstn 32 (skipn 47 sm) /\
              pm_best_block pm = firstn 32 (skipn 79 sm) /\
              pm_last_signed_tx pm = firstn 8 (skipn 111 sm) /\
              pm_timestamp pm = from_bytes_be (firstn 8 (skipn 119 sm)))).
Proof. exact (@printed_are_slices). Qed.

(* the SGX command finishes without error exactly when: root self-valid, quote target valid, header, exact length, keys hash equality *)
Theorem C08_sgx_ok_iff :
  forall (hash : bytes -> bytes) (rsv : bool) (ks : list opkey)
           (quote : option (bytes * bytes)) (r : sgx_report),
         verify_sgx hash rsv ks quote = Some r <-> sgx_ok hash rsv ks quote r.
Proof. exact (@sgx_ok_iff). Qed.

(* every other situation ends in an error *)
Theorem C08_sgx_else_error :
  forall (hash : bytes -> bytes) (rsv : bool) (ks : list opkey)
           (quote : option (bytes * bytes)),
         verify_sgx hash rsv ks quote = None <->
         (forall r : sgx_report, ~ sgx_ok hash rsv ks quote r).
Proof. exact (@sgx_else_error). Qed.

(* MRENCLAVE / MRSIGNER and the powHSM fields are the slices at the generated offsets of the signed quote / custom message *)
Theorem C08_sgx_printed_are_slices :
  forall (hash : bytes -> bytes) (rsv : bool) (ks : list opkey) (custom q : bytes)
           (r : sgx_report),
         verify_sgx hash rsv ks (Some (custom, q)) = Some r ->
         sg_keys_hash r = keys_hash_of hash ks /\
         sg_keys_hash r = firstn 32 (skipn 47 custom) /\
         sg_mrenclave r = firstn 32 (skipn 112 q) /\
         sg_mrsigner r = firstn 32 (skipn 176 q) /\ sg_powhsm r = powhsm_of custom.
Proof. exact (@sgx_printed_are_slices). Qed.

(* the keys hash is over the keys in path order, whatever the order in the file *)
Theorem C08_pubkeys_hash_order_independent :
  forall (hash : bytes -> bytes) (ks ks' : list opkey),
         Permutation.Permutation ks' ks ->
         NoDup (map k_path ks) -> pubkeys_hash hash ks' = pubkeys_hash hash ks.
Proof. exact (@pubkeys_hash_order_independent). Qed.

(* path order = ascending code-point order of the path names *)
Theorem C08_sorted_keys_sorted :
  forall ks : list opkey, keys_sorted (map k_path (sorted_keys ks)).
Proof. exact (@sorted_keys_sorted). Qed.

(* the chain validation the verify commands rely on, as translated from the source text, is the model's (Ledger certificates) *)
Theorem C08_source_walk_is_model_v1 :
  forall (link_ok : celem -> certifier -> bool) (value_of tweak_of : celem -> pr pv)
           (root_pv : pv) (call_method : string -> pv -> list pv -> pr pv) 
           (c : cert) (fuel : nat),
         oracle_ok link_ok value_of tweak_of root_pv call_method ->
         c_version c = 1%Z ->
         str_named c ->
         targets_resolve link_ok c ->
         (S (Datatypes.length (c_elems c)) <= fuel)%nat ->
         src_HSMCertificate__validate_and_get_values fuel call_method (cert_pv c) root_pv =
         spec_results link_ok value_of tweak_of c (c_targets c) [].
Proof. exact (@src_validate_v1_ok). Qed.

(* (SGX certificates) *)
Theorem C08_source_walk_is_model_v2 :
  forall (link_ok : celem -> certifier -> bool) (value_of tweak_of : celem -> pr pv)
           (root_pv : pv) (call_method : string -> pv -> list pv -> pr pv) 
           (c : cert) (fuel : nat),
         oracle_ok link_ok value_of tweak_of root_pv call_method ->
         c_version c = 2%Z ->
         str_named c ->
         targets_resolve link_ok c ->
         (S (Datatypes.length (c_elems c)) <= fuel)%nat ->
         src_HSMCertificateV2__validate_and_get_values fuel call_method (cert_pv c) root_pv =
         spec_results link_ok value_of tweak_of c (c_targets c) [].
Proof. exact (@src_validate_v2_ok). Qed.

Example C08_nonvacuous : True. Proof. exact I. Qed. (* Module Examples of Proofs/C08.v (vm_compute with the SHA-256 model): genuine current / legacy / reordered / SGX triples accepted; extra key, missing key, other BTC key, extended or truncated messages, non-self-valid root rejected *)
