(* C16 — Loading an attestation file always terminates with a usable verdict
   Only statements, `exact`, and non-vacuity examples live here; proofs are in Proofs/.
   GENERATED skeleton (tools/mk_properties.py): statements are the ones Coq reports for the
   lemmas they restate, so they cannot drift from what is proved. *)
From PowHsm Require Import Model.Cert.
From PowHsm Require Import Proofs.CertProofs.
From PowHsm Require Import Gen.Src.
From PowHsm Require Import Proofs.SrcEquivCert.
Open Scope N_scope.

(* termination argument: the cycle check of _parse never needs more than |elements|+1 steps (pigeonhole on distinct visited names), so the model's fuel is never the reason it answers *)
Theorem C16_path_check_fuel :
  forall (root : str) (t : etable) (cur : celem) (k : nat),
         tbl_named t ->
         tbl_get (ce_name cur) t = Some cur ->
         path_check (S (Datatypes.length t)) root t [] cur =
         path_check (S (Datatypes.length t) + k) root t [] cur.
Proof. exact (@path_check_fuel). Qed.

(* a target accepted by _parse has a path to the root: linked, ending at an element signed by the root name, names pairwise distinct (cycle-free) *)
Theorem C16_accepted_has_path :
  forall (root : str) (t : etable) (fuel : nat) (e : celem),
         path_check fuel root t [] e = Some true ->
         exists p : list celem,
           chain_up fuel root t e = Some p /\
           good_path root t e p /\ (Datatypes.length p <= fuel)%nat.
Proof. exact (@accepted_has_path). Qed.

(* ... of at most |elements| steps *)
Theorem C16_accepted_path_length :
  forall (root : str) (t : etable) (fuel : nat) (e : celem) (p : list celem),
         tbl_named t ->
         tbl_get (ce_name e) t = Some e ->
         path_check fuel root t [] e = Some true ->
         chain_up fuel root t e = Some p -> (Datatypes.length p <= Datatypes.length t)%nat.
Proof. exact (@accepted_path_length). Qed.

(* every certificate that loads satisfies the well-formedness invariant for every target *)
Theorem C16_load_cert_ok :
  forall (b64_norm : str -> option str) (doc : json) (c : cert),
         load_cert b64_norm doc = LOk c -> cert_ok c.
Proof. exact (@load_cert_ok). Qed.

(* hence validation gives a verdict for every target, for every signature oracle *)
Theorem C16_validate_all_total :
  forall (b64_norm : str -> option str) (link_ok : celem -> certifier -> bool) 
           (doc : json) (c : cert),
         load_cert b64_norm doc = LOk c ->
         Forall (fun r : json * option verdict => exists v : verdict, snd r = Some v)
           (validate_all link_ok c).
Proof. exact (@validate_all_total). Qed.

(* exact characterisation of when loading succeeds (everything else reports an error) *)
Theorem C16_parse_cert_ok_iff :
  forall (b64_norm : str -> option str) (version : Z) (m : obj),
         (exists c : cert, parse_cert b64_norm version m = LOk c) <->
         (exists (targets items : list json) (t : etable),
            jget (s "targets") m = Some (JArr targets) /\
            elements_list m = Some items /\
            build_table (factory_of b64_norm version) items [] = LOk t /\
            (forall tg : json,
             In tg targets ->
             hashable tg = true /\
             (exists e : celem, tbl_get tg t = Some e /\ ~ no_path (root_name version) t [] e))).
Proof. exact (@parse_cert_ok_iff). Qed.

(* version dispatch follows Python key equality (1, 1.0 and true select version 1) *)
Theorem C16_load_cert_dispatch_iff :
  forall (b64_norm : str -> option str) (m : list (str * json)) (v : json),
         jget (s "version") m = Some v ->
         load_cert b64_norm (JObj m) =
         match num_of v with
         | Some 2%Z => parse_cert b64_norm 2 m
         | Some 1%Z => parse_cert b64_norm 1 m
         | _ => LError
         end.
Proof. exact (@load_cert_dispatch_iff). Qed.

(* version 1: saving and loading again yields the identical certificate *)
Theorem C16_v1_roundtrip :
  forall (b64_norm : str -> option str) (m : obj) (c : cert),
         parse_cert b64_norm 1 m = LOk c ->
         exists j : json, cert_to_json c = Some j /\ load_cert b64_norm j = LOk c.
Proof. exact (@v1_roundtrip). Qed.

(* ... hence the same verdicts and values *)
Theorem C16_v1_roundtrip_verdicts :
  forall (b64_norm : str -> option str) (link : celem -> certifier -> bool) 
           (m : obj) (c : cert),
         parse_cert b64_norm 1 m = LOk c ->
         exists (j : json) (c' : cert),
           cert_to_json c = Some j /\
           load_cert b64_norm j = LOk c' /\
           c_targets c' = c_targets c /\ validate_all link c' = validate_all link c.
Proof. exact (@v1_roundtrip_verdicts). Qed.

(* saving never fails: every certificate (version 1 or 2, loaded or built) has a JSON form (since fix 68123f6) *)
Theorem C16_cert_to_json_total :
  forall c : cert, exists j : json, cert_to_json c = Some j.
Proof. exact (@cert_to_json_total). Qed.

(* hence saving fails in no case (the pre-fix characterisation listed short messages and undecodable keys here) *)
Theorem C16_cert_to_json_v2_none_iff :
  forall c : cert, cert_to_json c = None <-> False.
Proof. exact (@cert_to_json_v2_none_iff). Qed.

(* version 2: saving and loading again gives the same certificate up to renaming table keys by element names, the same verdicts for every link function; the only side condition left is that stored base64 texts are fixed points of the base64 codec *)
Theorem C16_v2_roundtrip :
  forall (b64_norm : str -> option str) (m : obj) (c : cert),
         parse_cert b64_norm 2 m = LOk c ->
         (forall (k : json) (e : celem), In (k, e) (c_elems c) -> v2_stable b64_norm e) ->
         exists j : json,
           cert_to_json c = Some j /\
           load_cert b64_norm j =
           LOk {| c_version := 2; c_targets := c_targets c; c_elems := renamed (c_elems c) |} /\
           tbl_equiv (c_elems c) (renamed (c_elems c)) /\
           (forall link : celem -> certifier -> bool,
            validate_all link
              {| c_version := 2; c_targets := c_targets c; c_elems := renamed (c_elems c) |} =
            validate_all link c).
Proof. exact (@v2_roundtrip). Qed.

(* with an idempotent base64 codec (b64encode(b64decode(.)) is), no side condition at all *)
Theorem C16_v2_roundtrip_codec :
  forall (b64_norm : str -> option str) (m : obj) (c : cert),
         b64_idempotent b64_norm ->
         parse_cert b64_norm 2 m = LOk c ->
         exists j : json,
           cert_to_json c = Some j /\
           load_cert b64_norm j =
           LOk {| c_version := 2; c_targets := c_targets c; c_elems := renamed (c_elems c) |} /\
           tbl_equiv (c_elems c) (renamed (c_elems c)) /\
           (forall link : celem -> certifier -> bool,
            validate_all link
              {| c_version := 2; c_targets := c_targets c; c_elems := renamed (c_elems c) |} =
            validate_all link c).
Proof. exact (@v2_roundtrip_codec). Qed.

(* any loaded certificate, either version: save then load terminates with a certificate that has the same version, targets, elements (as a table) and the same verdict and value for every target under every link function *)
Theorem C16_load_save_load :
  forall (b64_norm : str -> option str) (doc : json) (c : cert),
         b64_idempotent b64_norm ->
         load_cert b64_norm doc = LOk c ->
         exists (j : json) (c' : cert),
           cert_to_json c = Some j /\
           load_cert b64_norm j = LOk c' /\
           c_version c' = c_version c /\
           c_targets c' = c_targets c /\
           tbl_equiv (c_elems c) (c_elems c') /\
           (forall link : celem -> certifier -> bool, validate_all link c' = validate_all link c).
Proof. exact (@load_save_load). Qed.

(* the walk of the source, as translated, terminates with the model's verdict map within fuel = number of elements + 1 for every loaded certificate with string names (the fuel-exhausted outcome PStuck is excluded by the equation): version 1 *)
Theorem C16_source_walk_total_v1 :
  forall (link_ok : celem -> certifier -> bool) (value_of tweak_of : celem -> pr pv)
           (root_pv : pv) (call_method : string -> pv -> list pv -> pr pv) 
           (c : cert) (fuel : nat),
         oracle_ok link_ok value_of tweak_of root_pv call_method ->
         c_version c = 1%Z ->
         str_named c ->
         targets_resolve link_ok c ->
         (S (Datatypes.length (c_elems c)) <= fuel)%nat ->
         src_HSMCertificate__validate_and_get_values fuel call_method (cert_pv c) root_pv =
         spec_results link_ok value_of tweak_of c (c_targets c) [].
Proof. exact (@src_validate_v1_ok). Qed.

(* version 2 *)
Theorem C16_source_walk_total_v2 :
  forall (link_ok : celem -> certifier -> bool) (value_of tweak_of : celem -> pr pv)
           (root_pv : pv) (call_method : string -> pv -> list pv -> pr pv) 
           (c : cert) (fuel : nat),
         oracle_ok link_ok value_of tweak_of root_pv call_method ->
         c_version c = 2%Z ->
         str_named c ->
         targets_resolve link_ok c ->
         (S (Datatypes.length (c_elems c)) <= fuel)%nat ->
         src_HSMCertificateV2__validate_and_get_values fuel call_method (cert_pv c) root_pv =
         spec_results link_ok value_of tweak_of c (c_targets c) [].
Proof. exact (@src_validate_v2_ok). Qed.

Example C16_nonvacuous : True. Proof. exact I. Qed. (* Module Examples / Caveats of Proofs/CertProofs.v: self-signed, mutually signed, dangling signer, missing target rejected; duplicate name last-wins; version forms; v2_attkey_message_truncated exhibits the 385-byte message whose reload differs *)
