(* C01 — Signing relays to the device exactly what the client asked to have signed
   Only statements, `exact`, and non-vacuity examples live here; proofs are in Proofs/.
   GENERATED skeleton (tools/mk_properties.py): statements are the ones Coq reports for the
   lemmas they restate, so they cannot drift from what is proved. *)
From PowHsm Require Import Model.Sign.
From PowHsm Require Import Model.LedgerProtocol.
From PowHsm Require Import Proofs.TraceLogic.
From PowHsm Require Import Proofs.BtcTxProofs.
From PowHsm Require Import Proofs.C01.
From PowHsm Require Import Proofs.C13.
From PowHsm Require Import Gen.Src.
From PowHsm Require Import Proofs.SrcEquivLedger.
From PowHsm Require Import Gen.SrcM.
From PowHsm Require Import Proofs.SrcEquivDongleM.
From PowHsm Require Import Proofs.SrcEquivSignM.
From PowHsm Require Import Proofs.SrcLiftSign.
From PowHsm Require Import Proofs.SrcEquivSignProtoM.
From PowHsm Require Import Proofs.SrcEquivProtoV1M.
Open Scope N_scope.

(* for every device script: the chunks sent are contiguous slices of the data in order, each of the requested size capped by what remains, so what the device holds is always a prefix of the data *)
Theorem C01_chunks_prefix :
  forall (cmd op : N) (nexts : list N) (full : bool) (fuel : nat) 
           (data : bytes) (req : N) (w : world) (res : result (bool * bytes)) 
           (w' : world),
         (Datatypes.length (script w) < fuel)%nat ->
         chunks_loop fuel cmd op nexts full data req w = (res, w') ->
         exists evs : list (bytes * resp),
           evs <> [] /\
           w' = after w (chunk_events cmd op evs) (script w') /\
           consumed (script w) evs (script w') /\
           chunked op data req evs /\
           concat (map fst evs) = firstn (Datatypes.length (concat (map fst evs))) data /\
           (forall (i : nat) (c : bytes),
            nth_error (map fst evs) i = Some c ->
            c =
            slice data (Datatypes.length (concat (firstn i (map fst evs))))
              (Datatypes.length (concat (firstn i (map fst evs))) + Datatypes.length c)) /\
           (forall (i : nat) (c : bytes) (q : N),
            nth_error (map fst evs) i = Some c ->
            nth_error (requests req evs) i = Some q ->
            nlen c = N.min q (nlen data - nlen (concat (firstn i (map fst evs))))).
Proof. exact (@chunks_prefix). Qed.

(* the chunk loop reports success only if the device moved on to an allowed next operation and (when all data is expected) every byte was sent *)
Theorem C01_chunks_ok_inv :
  forall (cmd op : N) (nexts : list N) (full : bool) (fuel : nat) 
           (data : bytes) (req : N) (w : world) (r : bytes) (w' : world),
         (Datatypes.length (script w) < fuel)%nat ->
         chunks_loop fuel cmd op nexts full data req w = (Ok (true, r), w') ->
         exists (evs0 : list (bytes * resp)) (c : bytes),
           w' = after w (chunk_events cmd op (evs0 ++ [(c, Data r)])) (script w') /\
           script w = map snd evs0 ++ Data r :: script w' /\
           (exists rop : N, idx r 2 = Some rop /\ mem_N rop nexts = true /\ rop <> op) /\
           Forall (fun ca : bytes * resp => exists d : bytes, snd ca = Data d /\ idx d 2 = Some op)
             evs0 /\
           chunked op data req (evs0 ++ [(c, Data r)]) /\
           (full = true -> concat (map fst (evs0 ++ [(c, Data r)])) = data).
Proof. exact (@chunks_ok_inv). Qed.

(* the model's fuel is never the reason the loop stops *)
Theorem C01_chunks_fuel_irrelevant :
  forall (cmd op : N) (nexts : list N) (full : bool) (fuel : nat) 
           (data : bytes) (req : N) (w : world),
         (S (Datatypes.length (script w)) <= fuel)%nat ->
         chunks_loop fuel cmd op nexts full data req w =
         chunks_loop (S (Datatypes.length (script w))) cmd op nexts full data req w.
Proof. exact (@chunks_fuel_irrelevant). Qed.

(* the monadic loop equals its pure specification; only trace and script change *)
Theorem C01_send_data_in_chunks_run :
  forall (cmd op : N) (nexts : list N) (data : bytes) (full : bool) (req : N) (w : world),
         send_data_in_chunks cmd op nexts data full req w =
         (fst (fst (chunks_run op nexts full (script w) data req)),
          after w (chunk_events cmd op (snd (fst (chunks_run op nexts full (script w) data req))))
            (snd (chunks_run op nexts full (script w) data req))).
Proof. exact (@send_data_in_chunks_run). Qed.

(* the BTC payload exists exactly when its length fields fit *)
Theorem C01_btc_payload_some_iff :
  forall (tx : bytes) (nv : N) (ed : bytes),
         (exists p : bytes, btc_payload tx nv ed = Some p) <->
         nv < 256 /\ nlen ed < 65536 /\ 7 + nlen tx < 4294967296.
Proof. exact (@btc_payload_some_iff). Qed.

(* framing of the transaction payload is uniquely decodable: nothing added, dropped, reordered or truncated *)
Theorem C01_btc_payload_parse :
  forall (tx : bytes) (nv : N) (ed p : bytes),
         btc_payload tx nv ed = Some p -> parse_btc_payload p = Some (tx, nv, ed).
Proof. exact (@btc_payload_parse). Qed.

(* segwit extra data (witness script, outpoint value) is uniquely decodable from the payload *)
Theorem C01_segwit_payload_parse :
  forall (tx : bytes) (nv : N) (ws : bytes) (ov : Z) (ed p : bytes),
         extradata true ws ov = Some ed ->
         btc_payload tx nv ed = Some p ->
         parse_btc_payload p = Some (tx, nv, ed) /\ parse_extradata ed = Some (ws, Z.to_N ov).
Proof. exact (@segwit_payload_parse). Qed.

(* the proof framing exists exactly for <=255 nodes of <=255 bytes *)
Theorem C01_merkle_proof_some_iff :
  forall nodes : list bytes,
         (exists b : bytes, merkle_proof_bytes nodes = Some b) <->
         (Datatypes.length nodes <= 255)%nat /\
         Forall (fun nd : list N => (Datatypes.length nd <= 255)%nat) nodes.
Proof. exact (@merkle_proof_some_iff). Qed.

(* merkle-proof framing is uniquely decodable, nodes in order *)
Theorem C01_merkle_proof_parse :
  forall (nodes : list bytes) (b : bytes),
         merkle_proof_bytes nodes = Some b -> parse_proof b = Some nodes.
Proof. exact (@merkle_proof_parse). Qed.

(* unauthorized signing sends exactly one APDU, path ++ hash, and succeeds iff the device answers SUCCESS with a parseable DER signature *)
Theorem C01_sign_unauthorized_trace :
  forall (path h : bytes) (w : world),
         exists res : result sign_result,
           sign_unauthorized path (Some h) w =
           (res,
            after w [Apdu ([CLA; CMD_SIGN; SIGN_OP_PATH] ++ path ++ h) (next_answer w)]
              (tl (script w))) /\
           (forall r s_ : bytes,
            res = Ok (inl (r, s_)) <->
            (exists d : bytes,
               next_answer w = Data d /\
               idx d 2 = Some SIGN_OP_SUCCESS /\ der_parse (skipn 3 d) = Some (r, s_))).
Proof. exact (@sign_unauthorized_trace). Qed.

(* authorized signing: path+input, then payload, receipt and proof groups, each later group only after the previous part was sent completely; success iff the last part was complete and answered SUCCESS with a DER body *)
Theorem C01_sign_authorized_relays :
  forall (path receipt : bytes) (proof : list bytes) (tx : bytes) 
           (input : Z) (mode : str) (ws : bytes) (ov : Z) (w : world) (res : result sign_result)
           (w' : world),
         sign_authorized path receipt proof tx input mode ws ov w = (res, w') ->
         exists news : list event,
           w' = after w news (script w') /\
           sign_trace_shape path receipt proof tx input mode ws ov news res.
Proof. exact (@sign_authorized_relays). Qed.

(* on success the whole trace is determined *)
Theorem C01_sign_authorized_success :
  forall (path receipt : bytes) (proof : list bytes) (tx : bytes) 
           (input : Z) (mode : str) (ws : bytes) (ov : Z) (w : world) (r s_ : bytes) 
           (w' : world),
         sign_authorized path receipt proof tx input mode ws ov w = (Ok (inl (r, s_)), w') ->
         exists
           (inb d1 : bytes) (req1 nv : N) (ed payload : bytes) (g2 : list (bytes * resp)) 
         (r2 : bytes) (req2 : N) (g3 : list (bytes * resp)) (r3 : bytes) 
         (req3 : N) (mp : bytes) (g4 : list (bytes * resp)) (r4 : bytes),
           to_bytes_le 4 input = Some inb /\
           sighash_netvalue mode = Some nv /\
           extradata (nv =? 1) ws ov = Some ed /\
           btc_payload tx nv ed = Some payload /\
           merkle_proof_bytes proof = Some mp /\
           w' =
           after w
             (Apdu (CLA :: CMD_SIGN :: SIGN_OP_PATH :: path ++ inb) (Data d1)
              :: group SIGN_OP_BTC_TX g2 ++
                 group SIGN_OP_TX_RECEIPT g3 ++ group SIGN_OP_MERKLE_PROOF g4) 
             (script w') /\
           idx d1 2 = Some SIGN_OP_BTC_TX /\
           idx d1 3 = Some req1 /\
           part_done SIGN_OP_BTC_TX SIGN_OP_TX_RECEIPT payload req1 g2 r2 /\
           idx r2 3 = Some req2 /\
           part_done SIGN_OP_TX_RECEIPT SIGN_OP_MERKLE_PROOF receipt req2 g3 r3 /\
           idx r3 3 = Some req3 /\
           part_done SIGN_OP_MERKLE_PROOF SIGN_OP_SUCCESS mp req3 g4 r4 /\
           der_parse (skipn 3 r4) = Some (r, s_).
Proof. exact (@sign_authorized_success). Qed.

(* on success, reassembling the chunks per operation and decoding them yields exactly tx, mode, witness script, outpoint value, receipt and proof nodes *)
Theorem C01_sign_authorized_device_holds :
  forall (path receipt : bytes) (proof : list bytes) (tx : bytes) 
           (input : Z) (mode : str) (ws : bytes) (ov : Z) (w : world) (r s_ : bytes) 
           (w' : world),
         sign_authorized path receipt proof tx input mode ws ov w = (Ok (inl (r, s_)), w') ->
         exists (inb : list N) (nv : N) (ed : bytes) (a1 : resp) (g2 g3 g4 : list (bytes * resp)),
           w' =
           after w
             (Apdu ([CLA; CMD_SIGN; SIGN_OP_PATH] ++ path ++ inb) a1
              :: group SIGN_OP_BTC_TX g2 ++
                 group SIGN_OP_TX_RECEIPT g3 ++ group SIGN_OP_MERKLE_PROOF g4) 
             (script w') /\
           to_bytes_le 4 input = Some inb /\
           sighash_netvalue mode = Some nv /\
           parse_btc_payload (concat (map fst g2)) = Some (tx, nv, ed) /\
           (nv = 1 -> parse_extradata ed = Some (ws, Z.to_N ov)) /\
           (nv <> 1 -> ed = []) /\
           concat (map fst g3) = receipt /\ parse_proof (concat (map fst g4)) = Some proof.
Proof. exact (@sign_authorized_device_holds). Qed.

(* the reply's r and s are exactly the integers of the DER signature the device returned (first byte 0x30 or 0x31, trailing junk ignored) *)
Theorem C01_der_roundtrip :
  forall (t : N) (r s_ : bytes) (junk : list N),
         t = 48 \/ t = 49 -> der_parse (der_encode t r s_ ++ junk) = Some (r, s_).
Proof. exact (@der_parse_encode). Qed.

(* TIE BY TRANSLATION: the DER reader that extracts r and s from the device's signature answer (ledger/signature.py as regenerated from the source text) is the model's der_parse *)
Theorem C01_source_der_reader_is_model :
  forall b : bytes,
         src_HSM2DongleSignature____init__ (VObj "HSM2DongleSignature" []) (VBytes b) =
         match der_parse b with
         | Some (r, s_) => POk (sig_obj r s_)
         | None => PRaise ValueError
         end.
Proof. exact (@src_der_parse_ok). Qed.

(* TIE BY TRANSLATION (device monad): _send_data_in_chunks of ledger/hsm2dongle.py, as regenerated from the Python source text on this run (Gen/SrcM.v: the while loop, the slices, every exchange), runs on EVERY world - any device script - exactly as the model's chunk loop: same (ok, last answer) or exception and the same final world, hence the same APDUs in the same order; fuel of at least the script length + 1 is never exhausted *)
Theorem C01_source_chunk_loop_is_model :
  forall (fuel : nat) (self name desc : pv) (cmd op : N) (nexts : list N) 
           (data : bytes) (full : bool) (initial : N) (w : world),
         op < 256 ->
         (S (Datatypes.length (script w)) <= fuel)%nat ->
         srcm_HSM2Dongle___send_data_in_chunks fuel self (vN cmd) (vN op) 
           (VList (map vN nexts)) (VBytes data) (VBool full) (vN initial) name desc w =
         mres chunk_res (send_data_in_chunks cmd op nexts data full initial w).
Proof. exact (@srcm_send_data_in_chunks_ok). Qed.

(* sign_unauthorized of the source, as translated, is the model's on every world: the single APDU 80 02 01 path hash, the error-code table, the DER reader *)
Theorem C01_source_sign_unauthorized_is_model :
  forall (cm : string -> pv -> list pv -> pr pv) (self key_id : pv) 
           (path_bin : bytes) (hash : str) (w : world),
         cm "to_binary" key_id [] = POk (VBytes path_bin) ->
         srcm_HSM2Dongle__sign_unauthorized cm self key_id (VStr hash) w =
         mres sign_res (sign_unauthorized path_bin (fromhex hash) w).
Proof. exact (@srcm_sign_unauthorized_ok). Qed.

(* TIE BY TRANSLATION (device monad): sign_authorized of ledger/hsm2dongle.py - the four-step authorized signing, ~200 lines - as regenerated from the Python source text on this run, runs on EVERY world (any device script, legacy and segwit) exactly as the model: same (True, signature) | (False, code) | exception and the same final world, hence the same APDUs in the same order; key_id.to_binary() and encode_varint (python-bitcoinlib) are oracles *)
Theorem C01_source_sign_authorized_is_model :
  forall (cm : string -> pv -> list pv -> pr pv) (fuel : nat) (self key_id : pv)
           (path_bin : bytes) (receipt_hex tx_hex ws_hex : str) (proof_hex : list str)
           (receipt tx ws : bytes) (proof : list bytes) (input ov : Z) (segwit : bool) 
           (w : world),
         oracles_ok cm key_id path_bin ->
         fromhex receipt_hex = Some receipt ->
         fromhex tx_hex = Some tx ->
         fromhex ws_hex = Some ws ->
         all_some (map fromhex proof_hex) = Some proof ->
         (S (Datatypes.length (script w)) <= fuel)%nat ->
         srcm_HSM2Dongle__sign_authorized fuel cm self key_id (VStr receipt_hex)
           (VList (map VStr proof_hex)) (VStr tx_hex) (VInt input) (mode_obj segwit) 
           (VStr ws_hex) (VInt ov) w =
         mres sign_res (sign_authorized path_bin receipt proof tx input (mode_str segwit) ws ov w).
Proof. exact (@srcm_sign_authorized_ok). Qed.

(* hence for the translated source itself: whenever it reports success, the device was handed exactly the client's path and input index, then the payload that decodes to (transaction, mode, extra data = witness script and outpoint value when segwit), then the receipt, then the merkle proof that decodes to the client's nodes - each part in contiguous chunks, nothing added, dropped or reordered *)
Theorem C01_source_sign_authorized_success_device_holds :
  forall (cm : string -> pv -> list pv -> pr pv) (fuel : nat) (self key_id : pv)
           (path_bin : bytes) (receipt_hex tx_hex ws_hex : str) (proof_hex : list str)
           (receipt tx ws : bytes) (proof : list bytes) (input ov : Z) (segwit : bool) 
           (w w' : world) (sig : pv),
         oracles_ok cm key_id path_bin ->
         fromhex receipt_hex = Some receipt ->
         fromhex tx_hex = Some tx ->
         fromhex ws_hex = Some ws ->
         all_some (map fromhex proof_hex) = Some proof ->
         (S (Datatypes.length (script w)) <= fuel)%nat ->
         srcm_HSM2Dongle__sign_authorized fuel cm self key_id (VStr receipt_hex)
           (VList (map VStr proof_hex)) (VStr tx_hex) (VInt input) (mode_obj segwit) 
           (VStr ws_hex) (VInt ov) w = (XOk (VList [VBool true; sig]), w') ->
         exists (inb : list N) (nv : N) (ed : bytes) (a1 : resp) (g2 g3 g4 : list (bytes * resp)),
           w' =
           after w
             (Apdu ([CLA; CMD_SIGN; SIGN_OP_PATH] ++ path_bin ++ inb) a1
              :: group SIGN_OP_BTC_TX g2 ++
                 group SIGN_OP_TX_RECEIPT g3 ++ group SIGN_OP_MERKLE_PROOF g4) 
             (script w') /\
           to_bytes_le 4 input = Some inb /\
           sighash_netvalue (mode_str segwit) = Some nv /\
           parse_btc_payload (concat (map fst g2)) = Some (tx, nv, ed) /\
           (nv = 1 -> parse_extradata ed = Some (ws, Z.to_N ov)) /\
           (nv <> 1 -> ed = []) /\
           concat (map fst g3) = receipt /\ parse_proof (concat (map fst g4)) = Some proof.
Proof. exact (@src_sign_authorized_success_device_holds). Qed.

(* TIE BY TRANSLATION (device monad): the handler _sign of ledger/protocol.py (hash branch and authorized branch: second-stage validation, clearing of the transaction, repair, exchange, except ladder, result translation), as regenerated from the Python source text, runs on every world as the model's op_sign_v5 for every request whose message member is absent or an object (which the request gate guarantees: ValLemmasSignProtoM.gate_message_absent_or_object; without that side condition the statement is false - Python's `in` on a string message is a substring test - see the Remark sign_handler_counterexample) *)
Theorem C01_source_sign_handler_is_model :
  forall (kind : dongle_kind) (init : pm pv) (cm : string -> pv -> list pv -> pr pv)
           (fuel : nat) (self : pv) (req : obj) (x : str) (els : list N) 
           (w : world),
         SrcEquivProtoM.init_ok kind init ->
         tx_oracles_ok cm ->
         oracles_ok cm (SrcEquivBase.path_obj els) (path_to_binary els) ->
         jget (s "keyId") req = Some (JStr x) ->
         bip32_path x = Some els ->
         ValLemmasSignProtoM.message_absent_or_object req ->
         (S (Datatypes.length (script (snd (ensure_connection kind w)))) <= fuel)%nat ->
         srcm_HSM2ProtocolLedger___sign fuel cm init self (SrcEquivProtoM.request_with_path req els)
           w = mres SrcEquivProtoM.rtuple_pv (op_sign_v5 kind req w).
Proof. exact (@srcm_sign_handler_ok). Qed.

(* the legacy protocol's _sign (ledger/protocol_v1.py) likewise is the model's op_sign_v1 *)
Theorem C01_source_sign_handler_v1_is_model :
  forall (kind : dongle_kind) (init : pm pv) (cm : string -> pv -> list pv -> pr pv)
           (self : pv) (req : obj) (x h : str) (els : list N) (w : world),
         SrcEquivProtoM.init_ok kind init ->
         jget (s "keyId") req = Some (JStr x) ->
         bip32_path x = Some els ->
         jget (s "message") req = Some (JStr h) ->
         cm "to_binary" (SrcEquivBase.path_obj els) [] = POk (VBytes (path_to_binary els)) ->
         srcm_HSM1ProtocolLedger___sign cm init self (SrcEquivProtoM.request_with_path req els) w =
         mres SrcEquivProtoM.rtuple_pv (op_sign_v1 kind req w).
Proof. exact (@srcm_v1_sign_ok). Qed.

Example C01_nonvacuous : True. Proof. exact I. Qed. (* concrete runs closed by vm_compute in Proofs/C01.v: chunks_example (device asks 3, then 2, then moves on), chunks_example_early, the sign_authorized success and early-move-on examples *)
