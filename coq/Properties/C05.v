(* C05 — Advance / ancestor update hand the device the client's blocks intact
   Only statements, `exact`, and non-vacuity examples live here; proofs are in Proofs/.
   GENERATED skeleton (tools/mk_properties.py): statements are the ones Coq reports for the
   lemmas they restate, so they cannot drift from what is proved. *)
From PowHsm Require Import Model.BlockOps.
From PowHsm Require Import Proofs.TraceLogic.
From PowHsm Require Import Proofs.RlpProofs.
From PowHsm Require Import Proofs.Sha256Proofs.
From PowHsm Require Import Proofs.C05.
From PowHsm Require Import Gen.SrcM.
From PowHsm Require Import Proofs.SrcEquivDongleM.
From PowHsm Require Import Proofs.SrcEquivProtoM.
From PowHsm Require Import Proofs.SrcEquivBlockM.
From PowHsm Require Import Proofs.SrcEquivBlockProtoM.
Open Scope N_scope.

(* sorted(key=hash) is a stable sort: permutation, ascending keys, equal keys keep the client's order *)
Theorem C05_brothers_sorted :
  forall (A : Type) (kv : list (bytes * A)),
         Permutation.Permutation (sort_by_key kv) (map snd kv) /\
         (exists skv : list (bytes * A),
            sort_by_key kv = map snd skv /\
            Permutation.Permutation skv kv /\
            keys_sorted (map fst skv) /\ (forall k0 : bytes, with_key k0 skv = with_key k0 kv)).
Proof. exact (@brothers_sorted). Qed.

(* each brother list handed on is a permutation of the client's, ascending by block hash *)
Theorem C05_sort_brothers_sorted :
  forall (keccak : bytes -> bytes) (bl bl' : list (option bytes)),
         sort_brothers keccak bl = Some bl' ->
         Permutation.Permutation bl' bl /\ sorted_by_hash keccak bl'.
Proof. exact (@sort_brothers_sorted). Qed.

(* brothers with equal hashes keep the client's order *)
Theorem C05_sort_brothers_stable :
  forall (keccak : bytes -> bytes) (bl bl' : list (option bytes)) (h : bytes),
         sort_brothers keccak bl = Some bl' ->
         filter
           (fun b : option bytes =>
            match get_block_hash keccak b with
            | Some h' => bytes_eqb h' h
            | None => false
            end) bl' =
         filter
           (fun b : option bytes =>
            match get_block_hash keccak b with
            | Some h' => bytes_eqb h' h
            | None => false
            end) bl.
Proof. exact (@sort_brothers_stable). Qed.

(* one header: first its own metadata (mm payload length, and for advance the coinbase hash of THAT header), then only chunk APDUs carrying a prefix of that header's bytes, contiguous and in order *)
Theorem C05_send_block_header_trace :
  forall (o : blockop) (is_brother : bool) (b payload : bytes) (w : world),
         meta_ok o b payload ->
         wp (send_block_header o is_brother (Some b)) w
           (fun (r : result (bytes + Z)) (n : list event) =>
            exists (a : resp) (evs : list event),
              n =
              Apdu
                (CLA
                 :: bo_cmd o
                    :: (if is_brother then bo_op_bro_meta o else bo_op_header_meta o) :: payload) a
              :: evs /\
              chunk_evs (bo_cmd o) (if is_brother then bo_op_bro_chunk o else bo_op_header_chunk o) b
                evs /\
              (exists k : nat, concat (map apdu_payload evs) = firstn k b) /\
              hdr_done o is_brother r n).
Proof. exact (@send_block_header_trace). Qed.

(* when the metadata cannot be computed nothing is sent for that header *)
Theorem C05_send_block_header_no_meta :
  forall (o : blockop) (is_brother : bool) (raw : option bytes) (w : world),
         (forall b p : bytes, raw = Some b -> ~ meta_ok o b p) ->
         bo_meta_catches_overflow o = true ->
         wp (send_block_header o is_brother raw) w
           (fun (r : result (bytes + Z)) (n : list event) =>
            n = [] /\ r = Ok (inr (bo_compute_meta o))).
Proof. exact (@send_block_header_no_meta). Qed.

(* the operation announces exactly the number of client blocks and then processes them in the client's order, brothers only when asked and exactly that block's list *)
Theorem C05_do_block_operation_trace :
  forall (o : blockop) (blocks : list (option bytes)) (bros : list (list (option bytes)))
           (w : world),
         N.of_nat (Datatypes.length blocks) < 2 ^ 32 ->
         wp (do_block_operation o blocks bros) w
           (fun (r : result bo_result) (n : list event) =>
            exists (a : resp) (n' : list event),
              n =
              Apdu (CLA :: bo_cmd o :: bo_op_init o :: be 4 (N.of_nat (Datatypes.length blocks))) a
              :: n' /\
              from_bytes_be (be 4 (N.of_nat (Datatypes.length blocks))) =
              N.of_nat (Datatypes.length blocks) /\
              blocks_evs o blocks bros n' /\
              (forall c : Z, r = Ok (true, c) -> final_ok o n' c /\ blocks_done o blocks bros n')).
Proof. exact (@do_block_operation_trace). Qed.

(* the trace splits into per-block groups, group i belonging to block i of the client's list *)
Theorem C05_blocks_evs_firstn :
  forall (o : blockop) (blocks : list (option bytes)) (bros : list (list (option bytes)))
           (n : list event),
         blocks_evs o blocks bros n ->
         exists groups : list (list event),
           (Datatypes.length groups <= Datatypes.length blocks)%nat /\
           n = concat groups /\
           (forall (i : nat) (g : list event),
            nth_error groups i = Some g ->
            exists (b : bytes) (n1 n2 : list event),
              nth_error blocks i = Some (Some b) /\
              g = n1 ++ n2 /\ hdr_evs o false b n1 /\ bro_part o (skipn i bros) n1 n2).
Proof. exact (@blocks_evs_firstn). Qed.

(* advance answers total / partial success exactly on the device's SUCCESS / PARTIAL opcode *)
Theorem C05_block_op_result_advance :
  forall (blocks : list (option bytes)) (bros : list (list (option bytes))) (w : world),
         wp (do_block_operation ADVANCE_OP blocks bros) w
           (fun (r : result bo_result) (n : list event) =>
            forall c : Z,
            r = Ok (true, c) ->
            exists (resp : bytes) (rop : N),
              last_answer n resp /\
              idx resp OFF_OPn = Some rop /\
              (c = RESP_ADV_OK_TOTAL /\ rop = ADV_OP_SUCCESS \/
               c = RESP_ADV_OK_PARTIAL /\ rop = ADV_OP_PARTIAL) /\
              (c = RESP_ADV_OK_TOTAL -> rop = ADV_OP_SUCCESS) /\
              (c = RESP_ADV_OK_PARTIAL -> rop = ADV_OP_PARTIAL)).
Proof. exact (@block_op_result_advance). Qed.

(* update-ancestor answers success only on the device's SUCCESS opcode *)
Theorem C05_block_op_result_update :
  forall (blocks : list (option bytes)) (bros : list (list (option bytes))) (w : world),
         wp (do_block_operation UPD_OP blocks bros) w
           (fun (r : result bo_result) (n : list event) =>
            forall c : Z,
            r = Ok (true, c) ->
            c = RESP_UPD_OK_TOTAL /\
            (exists resp : bytes, last_answer n resp /\ idx resp OFF_OPn = Some UPD_OP_SUCCESS)).
Proof. exact (@block_op_result_update). Qed.

(* ancestor update relays each block with its merge-mining fields removed and its hash unchanged *)
Theorem C05_update_ancestor_blocks :
  forall blocks : list (option bytes),
         all_some (map (fun b : option bytes => remove_mm_fields b true) blocks) = None /\
         update_ancestor blocks = ret (false, RESP_UPD_ERROR_REMOVE_MM_FIELDS) \/
         (exists opt : list bytes,
            Forall2 (fun (b : option bytes) (b' : bytes) => remove_mm_fields b true = Some b') blocks
              opt /\
            Datatypes.length opt = Datatypes.length blocks /\
            update_ancestor blocks = do_block_operation UPD_OP (map Some opt) [] /\
            (forall keccak : bytes -> bytes,
             Forall2
               (fun (b : option bytes) (b' : bytes) =>
                forall raw : bytes,
                b = Some raw ->
                wf_bytes raw -> get_block_hash keccak (Some b') = get_block_hash keccak b) blocks opt)).
Proof. exact (@update_ancestor_blocks). Qed.

(* removing the merge-mining fields does not change the block hash (any Keccak) *)
Theorem C05_remove_mm_preserves_hash :
  forall (keccak : bytes -> bytes) (b b' : bytes),
         wf_bytes b ->
         remove_mm_fields (Some b) true = Some b' ->
         get_block_hash keccak (Some b') = get_block_hash keccak (Some b).
Proof. exact (@remove_mm_preserves_hash_bytes). Qed.

(* the metadata computed from the stripped block is the client block's metadata *)
Theorem C05_remove_mm_preserves_mm_payload_size :
  forall b b' : bytes,
         wf_bytes b ->
         remove_mm_fields (Some b) true = Some b' ->
         rlp_mm_payload_size (Some b') = rlp_mm_payload_size (Some b).
Proof. exact (@remove_mm_preserves_mm_payload_size). Qed.

(* advance: nothing is sent when a brother list cannot be hashed; otherwise the run is the block operation on the client's blocks and the sorted brothers *)
Theorem C05_advance_blockchain_trace :
  forall (keccak : bytes -> bytes) (blocks : list (option bytes))
           (brothers : list (list (option bytes))) (w : world),
         wp (advance_blockchain keccak blocks brothers) w
           (fun (r : result bo_result) (n : list event) =>
            n = [] /\ all_some (map (sort_brothers keccak) brothers) = None \/
            (exists sorted : list (list (option bytes)),
               Forall2
                 (fun bl bl' : list (option bytes) =>
                  Permutation.Permutation bl' bl /\ sorted_by_hash keccak bl') brothers sorted /\
               op_post ADVANCE_OP blocks sorted r n)).
Proof. exact (@advance_blockchain_trace). Qed.

(* RLP: decoding inverts encoding *)
Theorem C05_rlp_decode_encode :
  forall i : item, wf_item i -> decode (encode i) = Some i.
Proof. exact (@decode_encode). Qed.

(* RLP: decoding is strict (only canonical encodings are accepted) *)
Theorem C05_rlp_decode_canonical :
  forall (b : bytes) (i : item), wf_bytes b -> decode b = Some i -> encode i = b.
Proof. exact (@decode_canonical). Qed.

(* the merge-mining payload size is the RLP payload length of the header without its merge-mining fields *)
Theorem C05_rlp_mm_payload_size_spec :
  forall (b : bytes) (l : list item),
         decode b = Some (RLst l) ->
         (17 <= Datatypes.length l <= 20)%nat ->
         rlp_mm_payload_size (Some b) =
         Some
           (nlen
              (concat
                 (map encode (drop_last l (if (19 <=? Datatypes.length l)%nat then 3%nat else 1%nat))))).
Proof. exact (@rlp_mm_payload_size_spec). Qed.

(* SHA-256 resumed from a midstate hashes exactly prefix ++ tail *)
Theorem C05_midstate_resume :
  forall (p mid : list N) (t : bytes),
         (Datatypes.length p mod 64)%nat = 0%nat ->
         nlen p < 2 ^ 64 ->
         Datatypes.length mid = 52%nat ->
         slice mid 8 16 = be8 (nlen p) ->
         slice mid 16 48 = concat (map word_be (sh_h (sha_update sha_init p))) ->
         exists st' : sha_state,
           sha_set_midstate sha_init mid = Some st' /\
           sha_update st' t = sha_update sha_init (p ++ t) /\
           sha_digest (sha_update st' t) = sha_digest (sha_update sha_init (p ++ t)).
Proof. exact (@midstate_resume). Qed.

(* the coinbase hash sent is the reversed double SHA-256 of the full coinbase transaction *)
Theorem C05_coinbase_hash_split :
  forall tx p mid40 tail : list N,
         (Datatypes.length p mod 64)%nat = 0%nat ->
         mid40 = be8 (nlen p) ++ concat (map word_be (sh_h (sha_update sha_init p))) ->
         tx = mid40 ++ tail ->
         nlen (p ++ tail) * 8 < 2 ^ 64 ->
         coinbase_tx_get_hash tx = Some (rev (sha256 (sha256 (p ++ tail)))).
Proof. exact (@coinbase_tx_get_hash_split). Qed.

(* the streaming SHA-256 class is a monoid action (update a; update b = update (a ++ b)) *)
Theorem C05_sha_update_app :
  forall (st : sha_state) (a b : bytes),
         sha_update (sha_update st a) b = sha_update st (a ++ b).
Proof. exact (@sha_update_app). Qed.

(* TIE BY TRANSLATION (device monad): advance_blockchain of ledger/hsm2dongle.py with _do_block_operation and _send_block_header (~400 lines of Python: the brothers sorted by hash with a stable sort, the announced count, per block its metadata and chunks, the brother list on request, early success / partial success), as regenerated from the Python source text on this run, runs on EVERY world exactly as the model: same (True|False, code) or exception and the same final world - so C05_advance_blockchain_trace and the theorems it rests on describe the APDUs the translated source sends. The rlp / SHA-256 helpers are oracles tied to their models; keccak yields well-formed bytes (without that premise the statement is false: the source sorts on the re-decoded hex text) *)
Theorem C05_source_advance_blockchain_is_model :
  forall (keccak : bytes -> bytes) (cm : string -> pv -> list pv -> pr pv) 
           (fuel : nat) (self : pv) (blocks : list str) (brothers : list (list str)) 
           (w : world),
         block_oracles_ok keccak cm ->
         keccak_wf keccak ->
         (S (Datatypes.length (script w)) <= fuel)%nat ->
         srcm_HSM2Dongle__advance_blockchain fuel cm self (hexes blocks) 
           (VList (map hexes brothers)) w =
         mres bo_res (advance_blockchain keccak (map fromhex blocks) (map (map fromhex) brothers) w).
Proof. exact (@srcm_advance_blockchain_ok). Qed.

(* update_ancestor of the source likewise: each block handed to the device with its merge-mining fields removed *)
Theorem C05_source_update_ancestor_is_model :
  forall (keccak : bytes -> bytes) (cm : string -> pv -> list pv -> pr pv) 
           (fuel : nat) (self : pv) (blocks : list str) (w : world),
         block_oracles_ok keccak cm ->
         (S (Datatypes.length (script w)) <= fuel)%nat ->
         srcm_HSM2Dongle__update_ancestor fuel cm self (hexes blocks) w =
         mres bo_res (update_ancestor (map fromhex blocks) w).
Proof. exact (@srcm_update_ancestor_ok). Qed.

(* the chunk loop both operations use *)
Theorem C05_source_chunk_loop_is_model :
  forall (fuel : nat) (self name desc : pv) (cmd op : N) (nexts : list N) 
           (data : bytes) (full : bool) (initial : N) (w : world),
         op < 256 ->
         (S (Datatypes.length (script w)) <= fuel)%nat ->
         srcm_HSM2Dongle___send_data_in_chunks fuel self (vN cmd) (vN op) 
           (VList (map vN nexts)) (VBytes data) (VBool full) (vN initial) name desc w =
         mres chunk_res (send_data_in_chunks cmd op nexts data full initial w).
Proof. exact (@srcm_send_data_in_chunks_ok). Qed.

(* the handler _advance_blockchain of ledger/protocol.py as translated (repair, the operation, result translation, except ladder) = the model's handler *)
Theorem C05_source_advance_handler_is_model :
  forall (keccak : bytes -> bytes) (kind : dongle_kind) (init : pm pv)
           (cm : string -> pv -> list pv -> pr pv) (fuel : nat) (self : pv) 
           (req : CommProtocol.obj) (blocks : list str) (brothers : list (list str)) 
           (w : world),
         init_ok kind init ->
         block_oracles_ok keccak cm ->
         keccak_wf keccak ->
         jget (s "blocks") req = Some (jstrs blocks) ->
         jget (s "brothers") req = Some (JArr (map jstrs brothers)) ->
         fuel_ok kind fuel w ->
         srcm_HSM2ProtocolLedger___advance_blockchain fuel cm init self (of_obj req) w =
         mres rtuple_pv (LedgerProtocol.op_advance keccak kind req w).
Proof. exact (@srcm_advance_blockchain_handler_ok). Qed.

(* the handler _update_ancestor_block likewise *)
Theorem C05_source_update_ancestor_handler_is_model :
  forall (keccak : bytes -> bytes) (kind : dongle_kind) (init : pm pv)
           (cm : string -> pv -> list pv -> pr pv) (fuel : nat) (self : pv) 
           (req : CommProtocol.obj) (blocks : list str) (w : world),
         init_ok kind init ->
         block_oracles_ok keccak cm ->
         jget (s "blocks") req = Some (jstrs blocks) ->
         fuel_ok kind fuel w ->
         srcm_HSM2ProtocolLedger___update_ancestor_block fuel cm init self (of_obj req) w =
         mres rtuple_pv (LedgerProtocol.op_update_ancestor kind req w).
Proof. exact (@srcm_update_ancestor_handler_ok). Qed.

Example C05_nonvacuous_advance : True. Proof. exact I. Qed. (* concrete runs: ex_advance, ex_advance_partial, ex_update, ex_meta_ok, ex_brothers_order in Proofs/C05.v; ex_resume_hex in Proofs/Sha256Proofs.v; ex_decode_encode in Proofs/RlpProofs.v, all closed by vm_compute *)
