(* C15 — Attestations gathered from a genuine device verify end to end
   Only statements, `exact`, and non-vacuity examples live here; proofs are in Proofs/.
   GENERATED skeleton (tools/mk_properties.py): statements are the ones Coq reports for the
   lemmas they restate, so they cannot drift from what is proved. *)
From PowHsm Require Import Model.Gather.
From PowHsm Require Import Model.Verify.
From PowHsm Require Import Proofs.C15.
From PowHsm Require Import Proofs.SrcEquivAttestationM.
Open Scope N_scope.

(* UI attestation paging: a device serving n <= 4 pages yields exactly the message, by requests for pages 0..n-1 in order *)
Theorem C15_ui_att_pages_honest :
  forall (p : nat) (msg : bytes) (n : nat) (sc : list resp) (cn : list bool) 
           (opn : bool) (tr : list event) (ci : bool) (pn : option pin_obj) 
           (rp : list bytes) (fs : list bool),
         (1 <= n <= N.to_nat MAX_PAGES_UI_ATT_MESSAGE)%nat ->
         (Datatypes.length msg <= n * p)%nat ->
         ui_att_pages (N.to_nat MAX_PAGES_UI_ATT_MESSAGE) 0 []
           {|
             script := page_answers CMD_UI_ATT UIATT_OP_OP_GET_MSG p msg n ++ sc;
             connects := cn;
             opened := opn;
             trace := tr;
             comm_issue := ci;
             pin := pn;
             rand_pins := rp;
             fs_ok := fs
           |} =
         (Ok msg,
          {|
            script := sc;
            connects := cn;
            opened := opn;
            trace := rev (map (page_event CMD_UI_ATT UIATT_OP_OP_GET_MSG p msg n) (seq 0 n)) ++ tr;
            comm_issue := ci;
            pin := pn;
            rand_pins := rp;
            fs_ok := fs
          |}).
Proof. exact (@ui_att_pages_honest). Qed.

(* powHSM attestation paging (message or envelope), any number of pages *)
Theorem C15_patt_pages_honest :
  forall (op : N) (ism : bool) (p : nat) (msg : bytes) (n fuel : nat) 
           (sc : list resp) (cn : list bool) (opn : bool) (tr : list event) 
           (ci : bool) (pn : option pin_obj) (rp : list bytes) (fs : list bool),
         (1 <= n <= fuel)%nat ->
         (Datatypes.length msg <= n * p)%nat ->
         patt_pages fuel op ism 0 []
           {|
             script := page_answers PATT_COMMAND op p msg n ++ sc;
             connects := cn;
             opened := opn;
             trace := tr;
             comm_issue := ci;
             pin := pn;
             rand_pins := rp;
             fs_ok := fs
           |} =
         (Ok (msg, false),
          {|
            script := sc;
            connects := cn;
            opened := opn;
            trace := rev (map (page_event PATT_COMMAND op p msg n) (seq 0 n)) ++ tr;
            comm_issue := ci;
            pin := pn;
            rand_pins := rp;
            fs_ok := fs
          |}).
Proof. exact (@patt_pages_honest). Qed.

(* legacy single-answer framing *)
Theorem C15_patt_pages_legacy :
  forall (rest : bytes) (fuel : nat) (sc : list resp) (cn : list bool) 
           (opn : bool) (tr : list event) (ci : bool) (pn : option pin_obj) 
           (rp : list bytes) (fs : list bool),
         let whole := PATT_LEGACY_HEADER ++ rest in
         let ans := Data (CLA :: PATT_COMMAND :: PATT_OP_OP_GET_MESSAGE :: whole) in
         patt_pages (S fuel) PATT_OP_OP_GET_MESSAGE true 0 []
           {|
             script := ans :: sc;
             connects := cn;
             opened := opn;
             trace := tr;
             comm_issue := ci;
             pin := pn;
             rand_pins := rp;
             fs_ok := fs
           |} =
         (Ok (whole, true),
          {|
            script := sc;
            connects := cn;
            opened := opn;
            trace := Apdu [CLA; PATT_COMMAND; PATT_OP_OP_GET_MESSAGE; 0] ans :: tr;
            comm_issue := ci;
            pin := pn;
            rand_pins := rp;
            fs_ok := fs
          |}).
Proof. exact (@patt_pages_legacy). Qed.

(* the gathered UI attestation record is (hash, message, signature) as the device holds them *)
Theorem C15_get_ui_attestation_honest :
  forall (ud hash msg sg ud_ans : bytes) (p n : nat) (sc : list resp) 
           (cn : list bool) (opn : bool) (tr : list event) (ci : bool) (pn : option pin_obj)
           (rp : list bytes) (fs : list bool),
         (1 <= n <= N.to_nat MAX_PAGES_UI_ATT_MESSAGE)%nat ->
         (Datatypes.length msg <= n * p)%nat ->
         let a_hash := Data (CLA :: CMD_UI_ATT :: UIATT_OP_OP_APP_HASH :: hash) in
         let a_sig := Data (CLA :: CMD_UI_ATT :: UIATT_OP_OP_GET :: sg) in
         get_ui_attestation ud
           {|
             script :=
               a_hash
               :: Data ud_ans :: page_answers CMD_UI_ATT UIATT_OP_OP_GET_MSG p msg n ++ a_sig :: sc;
             connects := cn;
             opened := opn;
             trace := tr;
             comm_issue := ci;
             pin := pn;
             rand_pins := rp;
             fs_ok := fs
           |} =
         (Ok
            {|
              att_app_hash := hex hash;
              att_message := hex msg;
              att_envelope := [];
              att_signature := hex sg
            |},
          {|
            script := sc;
            connects := cn;
            opened := opn;
            trace :=
              Apdu [CLA; CMD_UI_ATT; UIATT_OP_OP_GET] a_sig
              :: rev (map (page_event CMD_UI_ATT UIATT_OP_OP_GET_MSG p msg n) (seq 0 n)) ++
                 Apdu (CLA :: CMD_UI_ATT :: UIATT_OP_OP_UD_VALUE :: ud) (Data ud_ans)
                 :: Apdu [CLA; CMD_UI_ATT; UIATT_OP_OP_APP_HASH] a_hash :: tr;
            comm_issue := ci;
            pin := pn;
            rand_pins := rp;
            fs_ok := fs
          |}).
Proof. exact (@get_ui_attestation_honest). Qed.

(* the gathered signer attestation record likewise, envelope included *)
Theorem C15_get_powhsm_attestation_honest :
  forall (ud hash msg env sg : bytes) (p n p' n' : nat) (sc : list resp) 
           (cn : list bool) (opn : bool) (tr : list event) (ci : bool) (pn : option pin_obj)
           (rp : list bytes) (fs : list bool),
         (1 <= n)%nat ->
         (Datatypes.length msg <= n * p)%nat ->
         (1 <= n')%nat ->
         (Datatypes.length env <= n' * p')%nat ->
         let a_sig := Data (CLA :: PATT_COMMAND :: PATT_OP_OP_GET :: sg) in
         let a_hash := Data (CLA :: PATT_COMMAND :: PATT_OP_OP_APP_HASH :: hash) in
         get_powhsm_attestation ud
           {|
             script :=
               a_sig
               :: page_answers PATT_COMMAND PATT_OP_OP_GET_MESSAGE p msg n ++
                  page_answers PATT_COMMAND PATT_OP_OP_GET_ENVELOPE p' env n' ++ a_hash :: sc;
             connects := cn;
             opened := opn;
             trace := tr;
             comm_issue := ci;
             pin := pn;
             rand_pins := rp;
             fs_ok := fs
           |} =
         (Ok
            {|
              att_app_hash := hex hash;
              att_message := hex msg;
              att_envelope := hex env;
              att_signature := hex sg
            |},
          {|
            script := sc;
            connects := cn;
            opened := opn;
            trace :=
              Apdu [CLA; PATT_COMMAND; PATT_OP_OP_APP_HASH] a_hash
              :: rev (map (page_event PATT_COMMAND PATT_OP_OP_GET_ENVELOPE p' env n') (seq 0 n')) ++
                 rev (map (page_event PATT_COMMAND PATT_OP_OP_GET_MESSAGE p msg n) (seq 0 n)) ++
                 Apdu (CLA :: PATT_COMMAND :: PATT_OP_OP_GET :: ud) a_sig :: tr;
            comm_issue := ci;
            pin := pn;
            rand_pins := rp;
            fs_ok := fs
          |}).
Proof. exact (@get_powhsm_attestation_honest). Qed.

(* envelope = message case *)
Theorem C15_get_powhsm_attestation_same :
  forall (ud hash msg sg : bytes) (p n : nat) (sc : list resp) (cn : list bool) 
           (opn : bool) (tr : list event) (ci : bool) (pn : option pin_obj) 
           (rp : list bytes) (fs : list bool),
         (1 <= n)%nat ->
         (Datatypes.length msg <= n * p)%nat ->
         exists tr' : list event,
           get_powhsm_attestation ud
             {|
               script :=
                 Data (CLA :: PATT_COMMAND :: PATT_OP_OP_GET :: sg)
                 :: page_answers PATT_COMMAND PATT_OP_OP_GET_MESSAGE p msg n ++
                    page_answers PATT_COMMAND PATT_OP_OP_GET_ENVELOPE p msg n ++
                    Data (CLA :: PATT_COMMAND :: PATT_OP_OP_APP_HASH :: hash) :: sc;
               connects := cn;
               opened := opn;
               trace := tr;
               comm_issue := ci;
               pin := pn;
               rand_pins := rp;
               fs_ok := fs
             |} =
           (Ok
              {|
                att_app_hash := hex hash;
                att_message := hex msg;
                att_envelope := hex msg;
                att_signature := hex sg
              |},
            {|
              script := sc;
              connects := cn;
              opened := opn;
              trace := tr';
              comm_issue := ci;
              pin := pn;
              rand_pins := rp;
              fs_ok := fs
            |}).
Proof. exact (@get_powhsm_attestation_same). Qed.

(* legacy framing case *)
Theorem C15_get_powhsm_attestation_legacy :
  forall (ud hash rest sg : bytes) (sc : list resp) (cn : list bool) 
           (opn : bool) (tr : list event) (ci : bool) (pn : option pin_obj) 
           (rp : list bytes) (fs : list bool),
         let whole := PATT_LEGACY_HEADER ++ rest in
         let a_sig := Data (CLA :: PATT_COMMAND :: PATT_OP_OP_GET :: sg) in
         let a_msg := Data (CLA :: PATT_COMMAND :: PATT_OP_OP_GET_MESSAGE :: whole) in
         let a_hash := Data (CLA :: PATT_COMMAND :: PATT_OP_OP_APP_HASH :: hash) in
         get_powhsm_attestation ud
           {|
             script := a_sig :: a_msg :: a_hash :: sc;
             connects := cn;
             opened := opn;
             trace := tr;
             comm_issue := ci;
             pin := pn;
             rand_pins := rp;
             fs_ok := fs
           |} =
         (Ok
            {|
              att_app_hash := hex hash;
              att_message := hex whole;
              att_envelope := hex whole;
              att_signature := hex sg
            |},
          {|
            script := sc;
            connects := cn;
            opened := opn;
            trace :=
              Apdu [CLA; PATT_COMMAND; PATT_OP_OP_APP_HASH] a_hash
              :: Apdu [CLA; PATT_COMMAND; PATT_OP_OP_GET_MESSAGE; 0] a_msg
                 :: Apdu (CLA :: PATT_COMMAND :: PATT_OP_OP_GET :: ud) a_sig :: tr;
            comm_issue := ci;
            pin := pn;
            rand_pins := rp;
            fs_ok := fs
          |}).
Proof. exact (@get_powhsm_attestation_legacy). Qed.

(* parse_envelope (mk_envelope parts) custom = Some parts: nothing is lost, for all part contents and sizes *)
Theorem C15_envelope_roundtrip :
  forall (quote tail4 sig key qeb qes auth : bytes) (ty : N) (certdata custom : bytes),
         env_shape quote tail4 sig key qeb qes auth certdata ->
         parse_envelope (mk_envelope quote tail4 sig key qeb qes auth ty certdata custom) custom =
         Some
           {|
             en_quote := quote;
             en_sig := sig;
             en_attkey := key;
             en_qe_body := qeb;
             en_qe_sig := qes;
             en_auth := auth;
             en_certs := split_certs certdata;
             en_custom := custom
           |}.
Proof. exact (@envelope_roundtrip). Qed.

(* an envelope built for another message is refused *)
Theorem C15_envelope_other_custom :
  forall (quote tail4 sig key qeb qes auth : bytes) (ty : N) (certdata custom custom' : bytes),
         env_shape quote tail4 sig key qeb qes auth certdata ->
         custom' <> custom ->
         parse_envelope (mk_envelope quote tail4 sig key qeb qes auth ty certdata custom) custom' =
         None.
Proof. exact (@envelope_other_custom). Qed.

(* every strict prefix is refused *)
Theorem C15_envelope_truncated :
  forall (quote tail4 sig key qeb qes auth : bytes) (ty : N) (certdata custom : bytes)
           (k : nat),
         env_shape quote tail4 sig key qeb qes auth certdata ->
         let env := mk_envelope quote tail4 sig key qeb qes auth ty certdata custom in
         (k < Datatypes.length env)%nat -> parse_envelope (firstn k env) custom = None.
Proof. exact (@envelope_truncated). Qed.

(* trailing bytes are refused *)
Theorem C15_envelope_extended :
  forall (quote tail4 sig key qeb qes auth : bytes) (ty : N) (certdata custom : bytes)
           (extra : list N),
         env_shape quote tail4 sig key qeb qes auth certdata ->
         extra <> [] ->
         parse_envelope (mk_envelope quote tail4 sig key qeb qes auth ty certdata custom ++ extra)
           custom = None.
Proof. exact (@envelope_extended). Qed.

(* PEM splitting returns exactly the certificate bodies, any number of blocks *)
Theorem C15_split_certs_pems :
  forall bodies : list bytes,
         Forall nodash bodies -> split_certs (concat (map pem_block bodies)) = bodies.
Proof. exact (@split_certs_pems). Qed.

(* envelope round trip with a PEM chain as certification data *)
Theorem C15_envelope_roundtrip_pems :
  forall (quote tail4 sig key qeb qes auth : bytes) (ty : N) (bodies : list bytes)
           (custom : bytes),
         env_shape quote tail4 sig key qeb qes auth (concat (map pem_block bodies)) ->
         Forall nodash bodies ->
         parse_envelope
           (mk_envelope quote tail4 sig key qeb qes auth ty (concat (map pem_block bodies)) custom)
           custom =
         Some
           {|
             en_quote := quote;
             en_sig := sig;
             en_attkey := key;
             en_qe_body := qeb;
             en_qe_sig := qes;
             en_auth := auth;
             en_certs := bodies;
             en_custom := custom
           |}.
Proof. exact (@envelope_roundtrip_pems). Qed.

(* SGX composition: the four gathered elements validate iff the four links hold (for every crypto oracle) *)
Theorem C15_gather_then_verify_sgx :
  forall (hash : bytes -> bytes) (p256_verify : bytes -> bytes -> bytes -> bool)
           (p256_key : str -> option bytes) (x509_parse : str -> option x509_info)
           (x509_sig_ok : str -> str -> bool) (now : Z) (root_elem : celem)
           (b64_of_pem : bytes -> str) (e : envelope) (els : list celem),
         sgx_elements b64_of_pem e = Some els ->
         exists q att qe pca : celem,
           els = [q; att; qe; pca] /\
           ce_extra1 q = hex (en_custom e) /\
           ce_message q = hex (en_quote e) /\
           (validate_target (link_v2 hash p256_verify p256_key x509_parse x509_sig_ok now root_elem)
              (sgx_cert els) (JStr (s "quote")) = Some (Valid q) <->
            x509_ok x509_parse x509_sig_ok now root_elem pca ByRoot = true /\
            x509_ok x509_parse x509_sig_ok now root_elem qe (ByElem pca) = true /\
            attkey_ok hash p256_verify p256_key x509_parse root_elem att (ByElem qe) = true /\
            quote_ok hash p256_verify p256_key x509_parse root_elem q (ByElem att) = true).
Proof. exact (@gather_then_verify_sgx). Qed.

(* the SGX verify command succeeds iff chain, root and keys hash conditions hold *)
Theorem C15_gather_then_verify_sgx_iff :
  forall (hash : bytes -> bytes) (p256_verify : bytes -> bytes -> bytes -> bool)
           (p256_key : str -> option bytes) (x509_parse : str -> option x509_info)
           (x509_sig_ok : str -> str -> bool) (now : Z) (root_elem : celem)
           (b64_of_pem : bytes -> str) (e : envelope) (els : list celem) 
           (rsv : bool) (ks : list opkey) (r : sgx_report),
         sgx_elements b64_of_pem e = Some els ->
         chain_accepted hash p256_verify p256_key x509_parse x509_sig_ok now root_elem els ->
         wf_bytes (en_custom e) ->
         wf_bytes (en_quote e) ->
         verify_sgx hash rsv ks
           (quote_value
              (validate_target
                 (link_v2 hash p256_verify p256_key x509_parse x509_sig_ok now root_elem)
                 (sgx_cert els) (JStr (s "quote")))) = Some r <->
         C08.sgx_ok hash rsv ks (Some (en_custom e, en_quote e)) r.
Proof. exact (@gather_then_verify_sgx_iff). Qed.

(* and then prints exactly the device's values (slices of the custom message and quote) *)
Theorem C15_gather_then_verify_sgx_report :
  forall (hash : bytes -> bytes) (p256_verify : bytes -> bytes -> bytes -> bool)
           (p256_key : str -> option bytes) (x509_parse : str -> option x509_info)
           (x509_sig_ok : str -> str -> bool) (now : Z) (root_elem : celem)
           (b64_of_pem : bytes -> str) (e : envelope) (els : list celem) 
           (ks : list opkey) (pm : powhsm_msg),
         sgx_elements b64_of_pem e = Some els ->
         chain_accepted hash p256_verify p256_key x509_parse x509_sig_ok now root_elem els ->
         wf_bytes (en_custom e) ->
         wf_bytes (en_quote e) ->
         parse_powhsm (en_custom e) = Some pm ->
         ks <> [] ->
         pm_keys_hash pm = C08.keys_hash_of hash ks ->
         exists r : sgx_report,
           verify_sgx hash true ks
             (quote_value
                (validate_target
                   (link_v2 hash p256_verify p256_key x509_parse x509_sig_ok now root_elem)
                   (sgx_cert els) (JStr (s "quote")))) = Some r /\
           sg_keys_hash r = C08.keys_hash_of hash ks /\
           sg_keys_hash r = firstn 32 (skipn 47 (en_custom e)) /\
           sg_mrenclave r = firstn 32 (skipn 112 (en_quote e)) /\
           sg_mrsigner r = firstn 32 (skipn 176 (en_quote e)) /\
           sg_powhsm r = C08.powhsm_of (en_custom e).
Proof. exact (@gather_then_verify_sgx_report). Qed.

(* the root of trust is needed *)
Theorem C15_gathered_sgx_needs_root :
  forall (hash : bytes -> bytes) (p256_verify : bytes -> bytes -> bytes -> bool)
           (p256_key : str -> option bytes) (x509_parse : str -> option x509_info)
           (x509_sig_ok : str -> str -> bool) (now : Z) (root_elem : celem) 
           (els : list celem) (ks : list opkey),
         verify_sgx hash false ks
           (quote_value
              (validate_target
                 (link_v2 hash p256_verify p256_key x509_parse x509_sig_ok now root_elem)
                 (sgx_cert els) (JStr (s "quote")))) = None.
Proof. exact (@gathered_sgx_needs_root). Qed.

(* the SGX certificate file loads back to the same certificate *)
Theorem C15_sgx_file_roundtrip :
  forall (b64_of_pem : bytes -> str) (b64_norm : str -> option str) 
           (e : envelope) (els : list celem),
         sgx_elements b64_of_pem e = Some els ->
         sgx_wf e ->
         (forall c : bytes, b64_norm (b64_of_pem c) = Some (b64_of_pem c)) ->
         exists j : json,
           cert_to_json (sgx_cert els) = Some j /\ load_cert b64_norm j = LOk (sgx_cert els).
Proof. exact (@sgx_file_roundtrip). Qed.

(* and validates identically *)
Theorem C15_sgx_file_validates_identically :
  forall (b64_of_pem : bytes -> str) (b64_norm : str -> option str) 
           (e : envelope) (els : list celem) (j : json) (c' : cert),
         sgx_elements b64_of_pem e = Some els ->
         sgx_wf e ->
         (forall c : bytes, b64_norm (b64_of_pem c) = Some (b64_of_pem c)) ->
         cert_to_json (sgx_cert els) = Some j ->
         load_cert b64_norm j = LOk c' ->
         c' = sgx_cert els /\
         (forall (link : celem -> certifier -> bool) (tg : json),
          validate_target link c' tg = validate_target link (sgx_cert els) tg).
Proof. exact (@sgx_file_validates_identically). Qed.

(* also with 0 bytes of QE auth data (fix 36570d0) *)
Theorem C15_sgx_empty_auth_loadable :
  forall (b64_of_pem : bytes -> str) (b64_norm : str -> option str) 
           (e : envelope) (els : list celem),
         sgx_elements b64_of_pem e = Some els ->
         en_auth e = [] ->
         sgx_wf e ->
         (forall c : bytes, b64_norm (b64_of_pem c) = Some (b64_of_pem c)) ->
         exists j : json,
           cert_to_json (sgx_cert els) = Some j /\
           load_cert b64_norm j = LOk (sgx_cert els) /\
           (exists att : celem, nth_error els 1 = Some att /\ ce_extra2 att = []).
Proof. exact (@sgx_empty_auth_loadable). Qed.

(* Ledger device-key response slicing *)
Theorem C15_device_key_info_honest :
  forall header key sg junk : bytes,
         device_key_info ([nlen header] ++ header ++ [nlen key] ++ key ++ [nlen sg] ++ sg ++ junk) =
         Some {| ki_message := DA_ROLE_DEVICE :: header ++ key; ki_signature := sg |}.
Proof. exact (@device_key_info_honest). Qed.

(* truncated response refused *)
Theorem C15_device_key_info_truncated :
  forall header key : bytes,
         device_key_info ([nlen header] ++ header ++ [nlen key] ++ key) = None /\
         device_key_info ([nlen header] ++ header) = None /\ device_key_info [] = None.
Proof. exact (@device_key_info_truncated). Qed.

(* endorsement response slicing *)
Theorem C15_endorsement_key_info_honest :
  forall key sg : bytes,
         Datatypes.length key = 65%nat ->
         endorsement_key_info (key ++ sg) =
         {| ki_message := DA_ROLE_ENDORSEMENT :: key; ki_signature := sg |}.
Proof. exact (@endorsement_key_info_honest). Qed.

(* Ledger composition: both targets valid iff the three links on their paths hold *)
Theorem C15_gather_then_verify_ledger :
  forall link : celem -> certifier -> bool,
         (bytes -> bytes) ->
         forall (dev att : key_info) (ui_msg ui_sig ui_hash sg_msg sg_sig sg_hash : bytes),
         (validate_target link
            (ledger_cert (ledger_elements dev att ui_msg ui_sig ui_hash sg_msg sg_sig sg_hash))
            (JStr (s "ui")) = Some (Valid (l_app "ui" ui_msg ui_sig ui_hash)) <->
          link (l_dev dev) ByRoot = true /\
          link (l_att att) (ByElem (l_dev dev)) = true /\
          link (l_app "ui" ui_msg ui_sig ui_hash) (ByElem (l_att att)) = true) /\
         (validate_target link
            (ledger_cert (ledger_elements dev att ui_msg ui_sig ui_hash sg_msg sg_sig sg_hash))
            (JStr (s "signer")) = Some (Valid (l_app "signer" sg_msg sg_sig sg_hash)) <->
          link (l_dev dev) ByRoot = true /\
          link (l_att att) (ByElem (l_dev dev)) = true /\
          link (l_app "signer" sg_msg sg_sig sg_hash) (ByElem (l_att att)) = true).
Proof. exact (@gather_then_verify_ledger). Qed.

(* verify command succeeds iff *)
Theorem C15_gather_then_verify_ledger_iff :
  forall (link : celem -> certifier -> bool) (hash : bytes -> bytes) 
           (dev att : key_info) (ui_msg ui_sig ui_hash sg_msg sg_sig sg_hash : bytes),
         wf_bytes ui_msg /\ wf_bytes ui_hash /\ wf_bytes sg_msg /\ wf_bytes sg_hash ->
         forall (ks : list opkey) (ur : ui_report) (sr : signer_report),
         ledger_accepted link dev att ui_msg ui_sig ui_hash sg_msg sg_sig sg_hash ->
         verify_ledger hash ks
           (v1_tres
              (validate_target link
                 (ledger_cert (ledger_elements dev att ui_msg ui_sig ui_hash sg_msg sg_sig sg_hash))
                 (JStr (s "ui"))))
           (v1_tres
              (validate_target link
                 (ledger_cert (ledger_elements dev att ui_msg ui_sig ui_hash sg_msg sg_sig sg_hash))
                 (JStr (s "signer")))) = Some (ur, sr) <->
         C08.ledger_ok hash ks (Some (TValid ui_msg (Some ui_hash)))
           (Some (TValid sg_msg (Some sg_hash))) ur sr.
Proof. exact (@gather_then_verify_ledger_iff). Qed.

(* and prints the device's values *)
Theorem C15_gather_then_verify_ledger_report :
  forall (link : celem -> certifier -> bool) (hash : bytes -> bytes) 
           (dev att : key_info) (ui_msg ui_sig ui_hash sg_msg sg_sig sg_hash : bytes),
         wf_bytes ui_msg /\ wf_bytes ui_hash /\ wf_bytes sg_msg /\ wf_bytes sg_hash ->
         forall (ks : list opkey) (ur : ui_report) (sr : signer_report),
         ledger_accepted link dev att ui_msg ui_sig ui_hash sg_msg sg_sig sg_hash ->
         verify_ledger hash ks
           (v1_tres
              (validate_target link
                 (ledger_cert (ledger_elements dev att ui_msg ui_sig ui_hash sg_msg sg_sig sg_hash))
                 (JStr (s "ui"))))
           (v1_tres
              (validate_target link
                 (ledger_cert (ledger_elements dev att ui_msg ui_sig ui_hash sg_msg sg_sig sg_hash))
                 (JStr (s "signer")))) = Some (ur, sr) ->
         ur_ud_value ur = slice ui_msg 10 42 /\
         ur_public_key ur = slice ui_msg 42 75 /\
         ur_signer_hash ur = slice ui_msg 75 107 /\
         ur_signer_iteration ur = from_bytes_be (slice ui_msg 107 109) /\
         ur_ui_hash ur = ui_hash /\
         ur_ui_version ur = firstn 3 (skipn 7 ui_msg) /\
         sr_signer_hash sr = sg_hash /\
         sr_keys_hash sr = C08.keys_hash_of hash ks /\
         (if is_legacy_signer_header sg_msg
          then
           sr_powhsm sr = None /\
           sr_version sr = firstn 3 (skipn 11 sg_msg) /\ sr_keys_hash sr = skipn 14 sg_msg
          else
           sr_version sr = firstn 3 (skipn 7 sg_msg) /\
           sr_keys_hash sr = firstn 32 (skipn 47 sg_msg) /\
           (exists pm : powhsm_msg, sr_powhsm sr = Some pm /\ pm = C08.powhsm_of sg_msg)).
Proof. exact (@gather_then_verify_ledger_report). Qed.

(* if any of the four links rejects, verification fails *)
Theorem C15_ledger_alteration_covered :
  forall (link : celem -> certifier -> bool) (hash : bytes -> bytes) 
           (dev att : key_info) (ui_msg ui_sig ui_hash sg_msg sg_sig sg_hash : bytes)
           (ks : list opkey),
         link (l_dev dev) ByRoot = false \/
         link (l_att att) (ByElem (l_dev dev)) = false \/
         link (l_app "ui" ui_msg ui_sig ui_hash) (ByElem (l_att att)) = false \/
         link (l_app "signer" sg_msg sg_sig sg_hash) (ByElem (l_att att)) = false ->
         verify_ledger hash ks
           (v1_tres
              (validate_target link
                 (ledger_cert (ledger_elements dev att ui_msg ui_sig ui_hash sg_msg sg_sig sg_hash))
                 (JStr (s "ui"))))
           (v1_tres
              (validate_target link
                 (ledger_cert (ledger_elements dev att ui_msg ui_sig ui_hash sg_msg sg_sig sg_hash))
                 (JStr (s "signer")))) = None.
Proof. exact (@ledger_alteration_covered). Qed.

(* the Ledger certificate file loads back unchanged *)
Theorem C15_ledger_file_roundtrip :
  forall (dev att : key_info) (ui_msg ui_sig ui_hash sg_msg sg_sig sg_hash : bytes)
           (b64_norm : str -> option str),
         good (ki_message att) ->
         good (ki_signature att) ->
         good (ki_message dev) ->
         good (ki_signature dev) ->
         good ui_msg ->
         good ui_sig ->
         good ui_hash ->
         good sg_msg ->
         good sg_sig ->
         good sg_hash ->
         exists j : json,
           cert_to_json
             (ledger_cert (ledger_elements dev att ui_msg ui_sig ui_hash sg_msg sg_sig sg_hash)) =
           Some j /\
           load_cert b64_norm j =
           LOk (ledger_cert (ledger_elements dev att ui_msg ui_sig ui_hash sg_msg sg_sig sg_hash)).
Proof. exact (@ledger_file_roundtrip). Qed.

(* validity of the gathered SGX chain spelled out in terms of the gathered bytes *)
Theorem C15_gathered_valid_expanded :
  forall (hash : bytes -> bytes) (p256_verify : bytes -> bytes -> bytes -> bool)
           (p256_key : str -> option bytes) (x509_parse : str -> option x509_info)
           (x509_sig_ok : str -> str -> bool) (now : Z) (root_elem : celem)
           (b64_of_pem : bytes -> str) (e : envelope) (c0 c1 : bytes),
         sgx_wf e ->
         validate_target (link_v2 hash p256_verify p256_key x509_parse x509_sig_ok now root_elem)
           (sgx_cert [el_quote e; el_att e; el_qe b64_of_pem c0; el_pca b64_of_pem c1])
           (JStr (s "quote")) = Some (Valid (el_quote e)) <->
         ce_kind root_elem = KX509 /\
         (exists (ri pi qi : x509_info) (kqe k64 : bytes),
            x509_parse (ce_message root_elem) = Some ri /\
            x509_parse (b64_of_pem c1) = Some pi /\
            x509_parse (b64_of_pem c0) = Some qi /\
            (x_not_before pi <= now <= x_not_after pi)%Z /\
            (x_not_before qi <= now <= x_not_after qi)%Z /\
            x509_sig_ok (b64_of_pem c1) (ce_message root_elem) = true /\
            x509_sig_ok (b64_of_pem c0) (b64_of_pem c1) = true /\
            x_p256_key qi = Some kqe /\
            p256_key (hex (4 :: en_attkey e)) = Some k64 /\
            (384 <= Datatypes.length (en_qe_body e))%nat /\
            C07.begins_with (firstn 64 (skipn 320 (en_qe_body e))) (hash (k64 ++ en_auth e)) /\
            p256_verify kqe (hash (en_qe_body e)) (sigencode_der (en_qe_sig e)) = true /\
            (432 <= Datatypes.length (en_quote e))%nat /\
            C07.begins_with (firstn 64 (skipn 368 (en_quote e))) (hash (en_custom e)) /\
            p256_verify k64 (hash (en_quote e)) (sigencode_der (en_sig e)) = true).
Proof. exact (@gathered_valid_expanded). Qed.

(* an alteration of this part of the device's answer makes verification fail (contrapositive of gathered_valid_expanded) *)
Theorem C15_alteration_covered_quote_signature :
  forall (hash : bytes -> bytes) (p256_verify : bytes -> bytes -> bytes -> bool)
           (p256_key : str -> option bytes) (x509_parse : str -> option x509_info)
           (x509_sig_ok : str -> str -> bool) (now : Z) (root_elem : celem)
           (b64_of_pem : bytes -> str) (e : envelope) (c0 c1 : bytes),
         sgx_wf e ->
         (forall k64 : bytes,
          p256_key (hex (4 :: en_attkey e)) = Some k64 ->
          p256_verify k64 (hash (en_quote e)) (sigencode_der (en_sig e)) = false) ->
         forall (rsv : bool) (ks : list opkey),
         verify_sgx hash rsv ks
           (quote_value
              (validate_target
                 (link_v2 hash p256_verify p256_key x509_parse x509_sig_ok now root_elem)
                 (sgx_cert [el_quote e; el_att e; el_qe b64_of_pem c0; el_pca b64_of_pem c1])
                 (JStr (s "quote")))) = None.
Proof. exact (@alteration_covered_quote_signature). Qed.

(* an alteration of this part of the device's answer makes verification fail (contrapositive of gathered_valid_expanded) *)
Theorem C15_alteration_covered_custom_message :
  forall (hash : bytes -> bytes) (p256_verify : bytes -> bytes -> bytes -> bool)
           (p256_key : str -> option bytes) (x509_parse : str -> option x509_info)
           (x509_sig_ok : str -> str -> bool) (now : Z) (root_elem : celem)
           (b64_of_pem : bytes -> str) (e : envelope) (c0 c1 : bytes),
         sgx_wf e ->
         ~ C07.begins_with (firstn 64 (skipn 368 (en_quote e))) (hash (en_custom e)) ->
         forall (rsv : bool) (ks : list opkey),
         verify_sgx hash rsv ks
           (quote_value
              (validate_target
                 (link_v2 hash p256_verify p256_key x509_parse x509_sig_ok now root_elem)
                 (sgx_cert [el_quote e; el_att e; el_qe b64_of_pem c0; el_pca b64_of_pem c1])
                 (JStr (s "quote")))) = None.
Proof. exact (@alteration_covered_custom_message). Qed.

(* an alteration of this part of the device's answer makes verification fail (contrapositive of gathered_valid_expanded) *)
Theorem C15_alteration_covered_quote_length :
  forall (hash : bytes -> bytes) (p256_verify : bytes -> bytes -> bytes -> bool)
           (p256_key : str -> option bytes) (x509_parse : str -> option x509_info)
           (x509_sig_ok : str -> str -> bool) (now : Z) (root_elem : celem)
           (b64_of_pem : bytes -> str) (e : envelope) (c0 c1 : bytes),
         sgx_wf e ->
         (Datatypes.length (en_quote e) < 432)%nat ->
         forall (rsv : bool) (ks : list opkey),
         verify_sgx hash rsv ks
           (quote_value
              (validate_target
                 (link_v2 hash p256_verify p256_key x509_parse x509_sig_ok now root_elem)
                 (sgx_cert [el_quote e; el_att e; el_qe b64_of_pem c0; el_pca b64_of_pem c1])
                 (JStr (s "quote")))) = None.
Proof. exact (@alteration_covered_quote_length). Qed.

(* an alteration of this part of the device's answer makes verification fail (contrapositive of gathered_valid_expanded) *)
Theorem C15_alteration_covered_attkey_authdata :
  forall (hash : bytes -> bytes) (p256_verify : bytes -> bytes -> bytes -> bool)
           (p256_key : str -> option bytes) (x509_parse : str -> option x509_info)
           (x509_sig_ok : str -> str -> bool) (now : Z) (root_elem : celem)
           (b64_of_pem : bytes -> str) (e : envelope) (c0 c1 : bytes),
         sgx_wf e ->
         (forall k64 : bytes,
          p256_key (hex (4 :: en_attkey e)) = Some k64 ->
          ~ C07.begins_with (firstn 64 (skipn 320 (en_qe_body e))) (hash (k64 ++ en_auth e))) ->
         forall (rsv : bool) (ks : list opkey),
         verify_sgx hash rsv ks
           (quote_value
              (validate_target
                 (link_v2 hash p256_verify p256_key x509_parse x509_sig_ok now root_elem)
                 (sgx_cert [el_quote e; el_att e; el_qe b64_of_pem c0; el_pca b64_of_pem c1])
                 (JStr (s "quote")))) = None.
Proof. exact (@alteration_covered_attkey_authdata). Qed.

(* an alteration of this part of the device's answer makes verification fail (contrapositive of gathered_valid_expanded) *)
Theorem C15_alteration_covered_attkey_point :
  forall (hash : bytes -> bytes) (p256_verify : bytes -> bytes -> bytes -> bool)
           (p256_key : str -> option bytes) (x509_parse : str -> option x509_info)
           (x509_sig_ok : str -> str -> bool) (now : Z) (root_elem : celem)
           (b64_of_pem : bytes -> str) (e : envelope) (c0 c1 : bytes),
         sgx_wf e ->
         p256_key (hex (4 :: en_attkey e)) = None ->
         forall (rsv : bool) (ks : list opkey),
         verify_sgx hash rsv ks
           (quote_value
              (validate_target
                 (link_v2 hash p256_verify p256_key x509_parse x509_sig_ok now root_elem)
                 (sgx_cert [el_quote e; el_att e; el_qe b64_of_pem c0; el_pca b64_of_pem c1])
                 (JStr (s "quote")))) = None.
Proof. exact (@alteration_covered_attkey_point). Qed.

(* an alteration of this part of the device's answer makes verification fail (contrapositive of gathered_valid_expanded) *)
Theorem C15_alteration_covered_qe_report :
  forall (hash : bytes -> bytes) (p256_verify : bytes -> bytes -> bytes -> bool)
           (p256_key : str -> option bytes) (x509_parse : str -> option x509_info)
           (x509_sig_ok : str -> str -> bool) (now : Z) (root_elem : celem)
           (b64_of_pem : bytes -> str) (e : envelope) (c0 c1 : bytes),
         sgx_wf e ->
         (forall (qi : x509_info) (kqe : bytes),
          x509_parse (b64_of_pem c0) = Some qi ->
          x_p256_key qi = Some kqe ->
          p256_verify kqe (hash (en_qe_body e)) (sigencode_der (en_qe_sig e)) = false) ->
         forall (rsv : bool) (ks : list opkey),
         verify_sgx hash rsv ks
           (quote_value
              (validate_target
                 (link_v2 hash p256_verify p256_key x509_parse x509_sig_ok now root_elem)
                 (sgx_cert [el_quote e; el_att e; el_qe b64_of_pem c0; el_pca b64_of_pem c1])
                 (JStr (s "quote")))) = None.
Proof. exact (@alteration_covered_qe_report). Qed.

(* an alteration of this part of the device's answer makes verification fail (contrapositive of gathered_valid_expanded) *)
Theorem C15_alteration_covered_cert0 :
  forall (hash : bytes -> bytes) (p256_verify : bytes -> bytes -> bytes -> bool)
           (p256_key : str -> option bytes) (x509_parse : str -> option x509_info)
           (x509_sig_ok : str -> str -> bool) (now : Z) (root_elem : celem)
           (b64_of_pem : bytes -> str) (e : envelope) (c0 c1 : bytes),
         sgx_wf e ->
         x509_sig_ok (b64_of_pem c0) (b64_of_pem c1) = false ->
         forall (rsv : bool) (ks : list opkey),
         verify_sgx hash rsv ks
           (quote_value
              (validate_target
                 (link_v2 hash p256_verify p256_key x509_parse x509_sig_ok now root_elem)
                 (sgx_cert [el_quote e; el_att e; el_qe b64_of_pem c0; el_pca b64_of_pem c1])
                 (JStr (s "quote")))) = None.
Proof. exact (@alteration_covered_cert0). Qed.

(* an alteration of this part of the device's answer makes verification fail (contrapositive of gathered_valid_expanded) *)
Theorem C15_alteration_covered_cert1_root :
  forall (hash : bytes -> bytes) (p256_verify : bytes -> bytes -> bytes -> bool)
           (p256_key : str -> option bytes) (x509_parse : str -> option x509_info)
           (x509_sig_ok : str -> str -> bool) (now : Z) (root_elem : celem)
           (b64_of_pem : bytes -> str) (e : envelope) (c0 c1 : bytes),
         sgx_wf e ->
         x509_sig_ok (b64_of_pem c1) (ce_message root_elem) = false ->
         forall (rsv : bool) (ks : list opkey),
         verify_sgx hash rsv ks
           (quote_value
              (validate_target
                 (link_v2 hash p256_verify p256_key x509_parse x509_sig_ok now root_elem)
                 (sgx_cert [el_quote e; el_att e; el_qe b64_of_pem c0; el_pca b64_of_pem c1])
                 (JStr (s "quote")))) = None.
Proof. exact (@alteration_covered_cert1_root). Qed.

(* an alteration of this part of the device's answer makes verification fail (contrapositive of gathered_valid_expanded) *)
Theorem C15_alteration_covered_cert_parse :
  forall (hash : bytes -> bytes) (p256_verify : bytes -> bytes -> bytes -> bool)
           (p256_key : str -> option bytes) (x509_parse : str -> option x509_info)
           (x509_sig_ok : str -> str -> bool) (now : Z) (root_elem : celem)
           (b64_of_pem : bytes -> str) (e : envelope) (c0 c1 : bytes),
         sgx_wf e ->
         x509_parse (b64_of_pem c0) = None \/
         x509_parse (b64_of_pem c1) = None \/
         x509_parse (ce_message root_elem) = None \/ ce_kind root_elem <> KX509 ->
         forall (rsv : bool) (ks : list opkey),
         verify_sgx hash rsv ks
           (quote_value
              (validate_target
                 (link_v2 hash p256_verify p256_key x509_parse x509_sig_ok now root_elem)
                 (sgx_cert [el_quote e; el_att e; el_qe b64_of_pem c0; el_pca b64_of_pem c1])
                 (JStr (s "quote")))) = None.
Proof. exact (@alteration_covered_cert_parse). Qed.

(* from the device script straight to the certificate (paging + parsing + elements) *)
Theorem C15_gather_sgx_honest :
  forall (b64_of_pem : bytes -> str) (ud : bytes) (hash sg : list N)
           (quote tail4 sig key qeb qes auth : bytes) (ty : N) (b0 b1 : bytes) 
           (bodies : list bytes) (custom : bytes) (p n p' n' : nat) (sc : list resp) 
           (cn : list bool) (opn : bool) (tr : list event) (ci : bool) (pn : option pin_obj)
           (rp : list bytes) (fs : list bool),
         let chain := b0 :: b1 :: bodies in
         let cd := concat (map pem_block chain) in
         let env := mk_envelope quote tail4 sig key qeb qes auth ty cd custom in
         env_shape quote tail4 sig key qeb qes auth cd ->
         Forall nodash chain ->
         wf_bytes env ->
         wf_bytes custom ->
         (1 <= n)%nat ->
         (Datatypes.length custom <= n * p)%nat ->
         (1 <= n')%nat ->
         (Datatypes.length env <= n' * p')%nat ->
         let e :=
           {|
             en_quote := quote;
             en_sig := sig;
             en_attkey := key;
             en_qe_body := qeb;
             en_qe_sig := qes;
             en_auth := auth;
             en_certs := chain;
             en_custom := custom
           |} in
         fst
           (gather_sgx b64_of_pem ud
              {|
                script :=
                  Data (CLA :: PATT_COMMAND :: PATT_OP_OP_GET :: sg)
                  :: page_answers PATT_COMMAND PATT_OP_OP_GET_MESSAGE p custom n ++
                     page_answers PATT_COMMAND PATT_OP_OP_GET_ENVELOPE p' env n' ++
                     Data (CLA :: PATT_COMMAND :: PATT_OP_OP_APP_HASH :: hash) :: sc;
                connects := cn;
                opened := opn;
                trace := tr;
                comm_issue := ci;
                pin := pn;
                rand_pins := rp;
                fs_ok := fs
              |}) =
         Ok (Some (sgx_cert [el_quote e; el_att e; el_qe b64_of_pem b0; el_pca b64_of_pem b1])).
Proof. exact (@gather_sgx_honest). Qed.

(* message served differs from the envelope's: no certificate *)
Theorem C15_gather_sgx_other_message :
  forall (b64_of_pem : bytes -> str) (ud : bytes) (hash sg : list N)
           (quote tail4 sig key qeb qes auth : bytes) (ty : N) (cd custom custom' : bytes)
           (p n p' n' : nat) (sc : list resp) (cn : list bool) (opn : bool) 
           (tr : list event) (ci : bool) (pn : option pin_obj) (rp : list bytes) 
           (fs : list bool),
         let env := mk_envelope quote tail4 sig key qeb qes auth ty cd custom in
         env_shape quote tail4 sig key qeb qes auth cd ->
         custom' <> custom ->
         wf_bytes env ->
         wf_bytes custom' ->
         (1 <= n)%nat ->
         (Datatypes.length custom' <= n * p)%nat ->
         (1 <= n')%nat ->
         (Datatypes.length env <= n' * p')%nat ->
         fst
           (gather_sgx b64_of_pem ud
              {|
                script :=
                  Data (CLA :: PATT_COMMAND :: PATT_OP_OP_GET :: sg)
                  :: page_answers PATT_COMMAND PATT_OP_OP_GET_MESSAGE p custom' n ++
                     page_answers PATT_COMMAND PATT_OP_OP_GET_ENVELOPE p' env n' ++
                     Data (CLA :: PATT_COMMAND :: PATT_OP_OP_APP_HASH :: hash) :: sc;
                connects := cn;
                opened := opn;
                trace := tr;
                comm_issue := ci;
                pin := pn;
                rand_pins := rp;
                fs_ok := fs
              |}) = Ok None.
Proof. exact (@gather_sgx_other_message). Qed.

(* Ledger gathering end to end *)
Theorem C15_gather_ledger_honest :
  forall (dev att : key_info) (ud : bytes) (ui_hash ui_msg ui_sig : list N) 
           (ud_ans : bytes) (sg_hash sg_msg sg_sig : list N) (p n q m : nat) 
           (sc : list resp) (cn : list bool) (opn : bool) (tr : list event) 
           (ci : bool) (pn : option pin_obj) (rp : list bytes) (fs : list bool) 
           (sc' : list resp) (cn' : list bool) (opn' : bool) (tr' : list event) 
           (ci' : bool) (pn' : option pin_obj) (rp' : list bytes) (fs' : list bool),
         (1 <= n <= N.to_nat MAX_PAGES_UI_ATT_MESSAGE)%nat ->
         (Datatypes.length ui_msg <= n * p)%nat ->
         (1 <= m)%nat ->
         (Datatypes.length sg_msg <= m * q)%nat ->
         gather_ledger dev att ud
           {|
             script :=
               Data (CLA :: CMD_UI_ATT :: UIATT_OP_OP_APP_HASH :: ui_hash)
               :: Data ud_ans
                  :: page_answers CMD_UI_ATT UIATT_OP_OP_GET_MSG p ui_msg n ++
                     Data (CLA :: CMD_UI_ATT :: UIATT_OP_OP_GET :: ui_sig) :: sc;
             connects := cn;
             opened := opn;
             trace := tr;
             comm_issue := ci;
             pin := pn;
             rand_pins := rp;
             fs_ok := fs
           |}
           {|
             script :=
               Data (CLA :: PATT_COMMAND :: PATT_OP_OP_GET :: sg_sig)
               :: page_answers PATT_COMMAND PATT_OP_OP_GET_MESSAGE q sg_msg m ++
                  page_answers PATT_COMMAND PATT_OP_OP_GET_ENVELOPE q sg_msg m ++
                  Data (CLA :: PATT_COMMAND :: PATT_OP_OP_APP_HASH :: sg_hash) :: sc';
             connects := cn';
             opened := opn';
             trace := tr';
             comm_issue := ci';
             pin := pn';
             rand_pins := rp';
             fs_ok := fs'
           |} = Some (ledger_elements dev att ui_msg ui_sig ui_hash sg_msg sg_sig sg_hash).
Proof. exact (@gather_ledger_honest). Qed.

(* with legacy signer framing *)
Theorem C15_gather_ledger_honest_legacy :
  forall (dev att : key_info) (ud : bytes) (ui_hash ui_msg ui_sig : list N) 
           (ud_ans : bytes) (sg_hash rest sg_sig : list N) (p n : nat) (sc : list resp)
           (cn : list bool) (opn : bool) (tr : list event) (ci : bool) (pn : option pin_obj)
           (rp : list bytes) (fs : list bool) (sc' : list resp) (cn' : list bool) 
           (opn' : bool) (tr' : list event) (ci' : bool) (pn' : option pin_obj) 
           (rp' : list bytes) (fs' : list bool),
         (1 <= n <= N.to_nat MAX_PAGES_UI_ATT_MESSAGE)%nat ->
         (Datatypes.length ui_msg <= n * p)%nat ->
         let sg_msg := PATT_LEGACY_HEADER ++ rest in
         gather_ledger dev att ud
           {|
             script :=
               Data (CLA :: CMD_UI_ATT :: UIATT_OP_OP_APP_HASH :: ui_hash)
               :: Data ud_ans
                  :: page_answers CMD_UI_ATT UIATT_OP_OP_GET_MSG p ui_msg n ++
                     Data (CLA :: CMD_UI_ATT :: UIATT_OP_OP_GET :: ui_sig) :: sc;
             connects := cn;
             opened := opn;
             trace := tr;
             comm_issue := ci;
             pin := pn;
             rand_pins := rp;
             fs_ok := fs
           |}
           {|
             script :=
               Data (CLA :: PATT_COMMAND :: PATT_OP_OP_GET :: sg_sig)
               :: Data (CLA :: PATT_COMMAND :: PATT_OP_OP_GET_MESSAGE :: sg_msg)
                  :: Data (CLA :: PATT_COMMAND :: PATT_OP_OP_APP_HASH :: sg_hash) :: sc';
             connects := cn';
             opened := opn';
             trace := tr';
             comm_issue := ci';
             pin := pn';
             rand_pins := rp';
             fs_ok := fs'
           |} = Some (ledger_elements dev att ui_msg ui_sig ui_hash sg_msg sg_sig sg_hash).
Proof. exact (@gather_ledger_honest_legacy). Qed.

(* get_powhsm_attestation of the source (PowHsmAttestation.run: signature, paged message and envelope with the legacy-header handling, application hash) as translated = the model's gathering on every world (fewer than 256 pages) *)
Theorem C15_source_powhsm_attestation_is_model :
  forall (fuel : nat) (self : Val.pv) (ud_hex : str) (w : world),
         (S (Datatypes.length (script w)) <= fuel)%nat ->
         (Datatypes.length (script w) <= 256)%nat ->
         SrcM.srcm_HSM2Dongle__get_powhsm_attestation fuel self (Val.VStr ud_hex) w =
         SrcEquivDongleM.mres att_pv (SrcEquivHeartbeatM.on_hex get_powhsm_attestation ud_hex w).
Proof. exact (@srcm_get_powhsm_attestation_ok). Qed.

(* get_ui_attestation of the source as translated = the model's on every world, page limit included *)
Theorem C15_source_ui_attestation_is_model :
  forall (fuel : nat) (self : Val.pv) (ud_hex : str) (w : world),
         (5 <= fuel)%nat ->
         SrcM.srcm_HSM2Dongle__get_ui_attestation fuel self (Val.VStr ud_hex) w =
         SrcEquivDongleM.mres ui_att_pv (SrcEquivHeartbeatM.on_hex get_ui_attestation ud_hex w).
Proof. exact (@srcm_get_ui_attestation_ok). Qed.

Example C15_nonvacuous : True. Proof. exact I. Qed. (* closed examples in Proofs/C15.v: Toy.genuine_device_verifies (pages -> parse -> elements -> save -> load -> validate -> verify with toy oracles), Toy.genuine_device_empty_auth_verifies, Toy.alterations_fail (16 single-byte alterations, altered message, truncated envelope), ui_three_pages, ui_five_pages_fail, envelope_example *)
