(* C12 — Concurrent clients never interleave on the device
   Only statements, `exact`, and non-vacuity examples live here; proofs are in Proofs/.
   GENERATED skeleton (tools/mk_properties.py): statements are the ones Coq reports for the
   lemmas they restate, so they cannot drift from what is proved. *)
From PowHsm Require Import Model.Conc.
From PowHsm Require Import Proofs.C12.
Open Scope nat_scope.

(* the server class found in the source today (generated) is the plain single-threaded TCPServer with no threading / forking mix-in *)
Theorem C12_server_kind_is_sequential :
  SERVER_IS_SEQUENTIAL = true.
Proof. exact (@server_kind_is_sequential). Qed.

(* for every schedule: connected = replied ++ being served ++ backlog, at most one request is being served, and the observations are whole blocks (all exchanges of one request then its reply) followed by the exchanges of the one in service *)
Theorem C12_sequential_structure :
  forall (need : nat -> nat) (sched : list action),
         let st := run_seq need sched in
         connects sched = replies st ++ map fst (serving st) ++ backlog st /\
         Datatypes.length (serving st) <= 1 /\
         Forall (fun p : nat * nat => snd p <= need (fst p)) (serving st) /\
         events st = blocks need (replies st) ++ partial (serving st).
Proof. exact (@sequential_structure). Qed.

(* at most one request is in service *)
Theorem C12_sequential_serving_at_most_one :
  forall (need : nat -> nat) (sched : list action),
         Datatypes.length (serving (run_seq need sched)) <= 1.
Proof. exact (@sequential_serving_at_most_one). Qed.

(* the device exchanges are the concatenation of each served request's exchanges, in order *)
Theorem C12_sequential_blocks :
  forall (need : nat -> nat) (sched : list action),
         let st := run_seq need sched in
         exchanges st =
         flat_map (fun i : nat => pairs i (need i)) (replies st) ++
         flat_map (fun p : nat * nat => pairs (fst p) (snd p)) (serving st).
Proof. exact (@sequential_blocks). Qed.

(* for every schedule with distinct clients the exchanges of a request are contiguous *)
Theorem C12_sequential_atomic :
  forall (need : nat -> nat) (sched : list action),
         NoDup (connects sched) -> atomic (run_seq need sched) = true.
Proof. exact (@sequential_atomic). Qed.

(* every reply is preceded by exactly its own request's exchanges and goes to that request's client *)
Theorem C12_every_reply_own_request :
  forall (need : nat -> nat) (sched : list action) (pre post : list obs) (i : nat),
         let st := run_seq need sched in
         events st = pre ++ OReply i :: post ->
         exists d1 d2 : list nat,
           replies st = d1 ++ i :: d2 /\
           pre = blocks need d1 ++ exs i (need i) /\ post = blocks need d2 ++ partial (serving st).
Proof. exact (@every_reply_own_request). Qed.

(* only connected clients are answered *)
Theorem C12_reply_only_connected :
  forall (need : nat -> nat) (sched : list action) (i : nat),
         In (OReply i) (log (run_seq need sched)) -> In i (connects sched).
Proof. exact (@reply_only_connected). Qed.

(* each at most once *)
Theorem C12_reply_at_most_once :
  forall (need : nat -> nat) (sched : list action),
         NoDup (connects sched) -> NoDup (replies (run_seq need sched)).
Proof. exact (@reply_at_most_once). Qed.

(* and every connected client is eventually answered (enough steps) *)
Theorem C12_sequential_all_served :
  forall (need : nat -> nat) (sched : list action),
         exists n : nat,
           let st := run_seq need (sched ++ repeat AStep n) in
           replies st = connects sched /\ serving st = [] /\ backlog st = [].
Proof. exact (@sequential_all_served). Qed.

(* replies come in connection order *)
Theorem C12_sequential_fifo :
  forall (need : nat -> nat) (sched : list action),
         exists rest : list nat, connects sched = replies (run_seq need sched) ++ rest.
Proof. exact (@sequential_fifo). Qed.

(* a thread-per-request server over the same handler is NOT atomic: an interleaving schedule exists (so the mix-in check above is what the property rests on) *)
Theorem C12_threaded_interleaves :
  forall need : nat -> nat,
         2 <= need 0 ->
         1 <= need 1 ->
         exists sched : list action, NoDup (connects sched) /\ atomic (run_thr need sched) = false.
Proof. exact (@threaded_interleaves). Qed.

Example C12_nonvacuous : True. Proof. exact I. Qed. (* vm_compute examples in Proofs/C12.v: seq_ex_atomic, seq_ex_events (three clients, interleaved connects), thr_ex_not_atomic, seq_dup_id_not_atomic *)
