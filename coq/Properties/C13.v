(* C13 — Query replies report the device's data verbatim.
   Only statements, `exact`, Print Assumptions and non-vacuity examples live here. *)
From PowHsm Require Import Model.LedgerProtocol Proofs.C13.
From PowHsm Require Import Gen.Src Proofs.SrcEquivLedger.
From PowHsm Require Import Gen.SrcM Proofs.SrcEquivDongleM.
From PowHsm Require Import Proofs.SrcEquivProtoM Proofs.SrcEquivStateM Proofs.SrcEquivHeartbeatM Proofs.SrcEquivParamsProtoM.
From PowHsm Require Import Proofs.SrcEquivSignProtoM Proofs.SrcEquivBlockM Proofs.SrcEquivBlockProtoM Proofs.SrcEquivGateM Proofs.SrcLiftGate Proofs.SrcLiftC13.
Open Scope N_scope.

(* getPubKey: whatever key bytes the device returns for the requested path are the reply's
   pubKey, hex-encoded, and the only APDU sent is GET_PUBLIC_KEY with that path *)
Theorem C13_pubkey_verbatim :
  forall kind m (req : obj) path k sc cn op tr p rp fs,
  jget (s "keyId") req = Some (JStr path) ->
  forall els, bip32_path path = Some els ->
  op_get_pubkey kind m req (mkWorld (Data k :: sc) cn op tr false p rp fs)
  = (Ok (0%Z, Some [(s "pubKey", JStr (hex k))]),
     mkWorld sc cn op (Apdu (CLA :: CMD_GET_PUBLIC_KEY :: path_to_binary els) (Data k) :: tr)
             false p rp fs).
Proof. exact pubkey_verbatim. Qed.

(* blockchainState: each named hash is the datum answered under that name's selector, the
   difficulty is the device's big-endian number, the flags are the three bytes in order *)
Theorem C13_state_verbatim :
  forall kind (req : obj) hs d f0 f1 f2 sc cn op tr p rp fs,
  length hs = 7%nat -> Forall (fun h => length h = 32%nat) hs ->
  exists tr',
  op_blockchain_state kind req
    (mkWorld (hash_answers GST_HASH_VALUES hs
              ++ Data (CLA :: CMD_GET_STATE :: GST_OP_DIFF :: d)
              :: Data [CLA; CMD_GET_STATE; GST_OP_FLAGS; f0; f1; f2] :: sc) cn op tr false p rp fs)
  = (match state_reply hs d f0 f1 f2 with Some r => Ok r | None => Exn (Py KeyError) end,
     mkWorld sc cn op tr' false p rp fs).
Proof. exact state_verbatim. Qed.

Theorem C13_difficulty_same_number :
  forall k (d : N), d < 256 ^ N.of_nat k -> from_bytes_be (rev (le_bytes k d)) = d.
Proof. exact difficulty_roundtrip. Qed.

(* blockchainParameters: 32 | 36 | 1 layout *)
Theorem C13_parameters_verbatim :
  forall kind (req : obj) (opb : N) cp mrd net sc cn op tr p rp fs name,
  length cp = 32%nat -> length mrd = 36%nat -> mem_N net NETWORK_VALUES = true ->
  assoc_N net NETWORK_NAMES = Some name ->
  op_parameters kind req
    (mkWorld (Data (CLA :: CMD_GET_PARAMETERS :: opb :: cp ++ mrd ++ [net]) :: sc) cn op tr false p rp fs)
  = (Ok (0%Z, Some [(s "parameters", JObj [(s "checkpoint", JStr (hex cp));
                                           (s "minimum_difficulty", JInt (Z.of_N (from_bytes_be mrd)));
                                           (s "network", JStr name)])]),
     mkWorld sc cn op (Apdu [CLA; CMD_GET_PARAMETERS]
                            (Data (CLA :: CMD_GET_PARAMETERS :: opb :: cp ++ mrd ++ [net])) :: tr)
             false p rp fs).
Proof. exact parameters_verbatim. Qed.

(* signerHeartbeat: key, message, tweak and the DER integers r, s (first byte 0x30 or 0x31) *)
Theorem C13_signer_heartbeat_verbatim :
  forall kind (req : obj) udh ud t r s_ msg hsh pk sc cn op tr p rp fs o1,
  jget (s "udValue") req = Some (JStr udh) -> fromhex udh = Some ud ->
  t = 48 \/ t = 49 ->
  exists tr',
  op_signer_heartbeat kind req
    (mkWorld (Data o1
              :: Data (CLA :: SHB_COMMAND :: SHB_OP_GET :: der_encode t r s_)
              :: Data (CLA :: SHB_COMMAND :: SHB_OP_GET_MESSAGE :: msg)
              :: Data (CLA :: SHB_COMMAND :: SHB_OP_APP_HASH :: hsh)
              :: Data (CLA :: SHB_COMMAND :: SHB_OP_PUBKEY :: pk) :: sc) cn op tr false p rp fs)
  = (Ok (0%Z, Some [(s "pubKey", JStr (hex pk)); (s "message", JStr (hex msg));
                    (s "tweak", JStr (hex hsh));
                    (s "signature", JObj [(s "r", JStr (hex r)); (s "s", JStr (hex s_))])]),
     mkWorld sc cn op tr' false p rp fs).
Proof. exact signer_heartbeat_verbatim. Qed.

Theorem C13_der_roundtrip :
  forall t r s_ junk, t = 48 \/ t = 49 -> der_parse (der_encode t r s_ ++ junk) = Some (r, s_).
Proof. exact der_parse_encode. Qed.

(* the selector table the theorems are stated against is the one generated from the source *)
Example C13_selectors_nonvacuous :
  map snd GST_HASH_VALUES = [1; 2; 3; 5; 129; 130; 132] /\ length GST_HASH_VALUES = 7%nat.
Proof. split; reflexivity. Qed.

Example C13_state_premises_hold :
  let hs := repeat (repeat 7 32) 7 in
  length hs = 7%nat /\ Forall (fun h => length h = 32%nat) hs /\
  state_reply hs [1; 0] 0 1 0 <> None.
Proof. cbn. repeat split; try discriminate. repeat constructor. Qed.

(* TIE BY TRANSLATION: HSM2DongleSignature.__init__ of ledger/signature.py, as regenerated from the Python source
   text on this run (Gen/Src.v), reads r and s exactly as the model's der_parse for every byte string
   (including the 0x31 quirk and trailing bytes) *)
Theorem C13_source_der_reader_is_model :
  forall b : bytes,
  src_HSM2DongleSignature____init__ (VObj "HSM2DongleSignature" []) (VBytes b) =
  match der_parse b with Some (r, s_) => POk (sig_obj r s_) | None => PRaise ValueError end.
Proof. exact src_der_parse_ok. Qed.

(* HSM2FirmwareParameters.from_dongle_format of ledger/parameters.py as translated: checkpoint, minimum
   difficulty (unsigned big endian) and network of the 69 bytes, ValueError otherwise *)
Theorem C13_source_parameters_is_model :
  forall b : bytes,
  src_HSM2FirmwareParameters__from_dongle_format (VBytes b) =
  match params_from_dongle b with Some p => POk (params_obj p) | None => PRaise ValueError end.
Proof. exact src_params_from_dongle_ok. Qed.

(* TIE BY TRANSLATION (device monad): get_public_key of ledger/hsm2dongle.py, as regenerated from the Python source
   text (Gen/SrcM.v), runs on every world as the model's: one GET_PUBLIC_KEY exchange with the path bytes, the answer
   hex-encoded verbatim (key_id.to_binary() is an oracle) *)
Theorem C13_source_get_public_key_is_model :
  forall (cm : string -> pv -> list pv -> pr pv) (self key_id : pv) (path_bin : bytes) (w : world),
  cm "to_binary" key_id [] = POk (VBytes path_bin) ->
  srcm_HSM2Dongle__get_public_key cm self key_id w = mres VStr (get_public_key path_bin w).
Proof. exact srcm_get_public_key_ok. Qed.

(* get_signer_parameters of the source, as translated, is the model's on every world *)
Theorem C13_source_get_signer_parameters_is_model :
  forall (self : pv) (w : world),
  srcm_HSM2Dongle__get_signer_parameters self w = mres params_obj (get_signer_parameters w).
Proof. exact srcm_get_signer_parameters_ok. Qed.

(* TIE BY TRANSLATION (device monad): get_blockchain_state of ledger/hsm2dongle.py, as regenerated from the Python source
   text, runs on every world as the model's: each of the seven hashes asked for with ITS selector and checked against it,
   the total difficulty read as an unsigned big-endian number, the three flags in order *)
Theorem C13_source_get_blockchain_state_is_model :
  forall (self : pv) (w : world),
  srcm_HSM2Dongle__get_blockchain_state self w = mres state_pv (get_blockchain_state w).
Proof. exact srcm_get_blockchain_state_ok. Qed.

(* the handler that builds the reply from that dictionary, as translated, is the model's handler *)
Theorem C13_source_blockchain_state_handler_is_model :
  forall (kind : dongle_kind) (init : pm pv) (self request : pv) (req : obj) (w : world),
  init_ok kind init ->
  srcm_HSM2ProtocolLedger___blockchain_state init self request w =
  mres rtuple_pv (op_blockchain_state kind req w).
Proof. exact srcm_blockchain_state_handler_ok. Qed.

(* TIE BY TRANSLATION (device monad): the signer heartbeat command class of ledger/hsm2dongle_cmds (run over send),
   as regenerated from the Python source text, runs on every world as the model's: the user-defined value decoded
   from hex and sent, then signature, message, tweak and public key fetched in that order and reported hex-encoded
   verbatim (the signature through the DER reader); a device error result becomes (False, code) *)
Theorem C13_source_signer_heartbeat_is_model :
  forall (self : pv) (ud_hex : str) (w : world),
  srcm_HSM2Dongle__get_signer_heartbeat self (VStr ud_hex) w = mres hb_res (on_hex get_signer_heartbeat ud_hex w).
Proof. exact srcm_get_signer_heartbeat_ok. Qed.

Theorem C13_source_ui_heartbeat_is_model :
  forall (self : pv) (ud_hex : str) (w : world),
  srcm_HSM2Dongle__get_ui_heartbeat self (VStr ud_hex) w = mres hb_res (on_hex get_ui_heartbeat ud_hex w).
Proof. exact srcm_get_ui_heartbeat_ok. Qed.

(* the handlers that build the replies (the UI one with its mode dance), as translated, are the model's handlers *)
Theorem C13_source_signer_heartbeat_handler_is_model :
  forall (kind : dongle_kind) (init : pm pv) (self : pv) (req : obj) (ud_hex : str) (w : world),
  init_ok kind init ->
  jget (s "udValue") req = Some (JStr ud_hex) ->
  srcm_HSM2ProtocolLedger___signer_heartbeat init self (of_obj req) w =
  mres rtuple_pv (op_signer_heartbeat kind req w).
Proof. exact srcm_signer_heartbeat_handler_ok. Qed.

Theorem C13_source_ui_heartbeat_handler_is_model :
  forall (kind : dongle_kind) (init : pm pv) (self : pv) (req : obj) (ud_hex : str) (w : world),
  init_ok kind init ->
  jget (s "udValue") req = Some (JStr ud_hex) ->
  srcm_HSM2ProtocolLedger___ui_heartbeat init self (of_obj req) w =
  mres rtuple_pv (op_ui_heartbeat kind req w).
Proof. exact srcm_ui_heartbeat_handler_ok. Qed.

(* TIE BY TRANSLATION (device monad): _get_blockchain_parameters of ledger/protocol.py, as regenerated from the Python
   source text, runs on every world as the model's handler: checkpoint, minimum difficulty and the network's name (the
   enum member's name in lower case, table read from the source's enum) are those the device's 69 bytes hold *)
Theorem C13_source_parameters_handler_is_model :
  forall (kind : dongle_kind) (init : pm pv) (self request : pv) (req : obj) (w : world),
  init_ok kind init ->
  srcm_HSM2ProtocolLedger___get_blockchain_parameters init self request w =
  mres rtuple_pv (op_parameters kind req w).
Proof. exact srcm_parameters_handler_ok. Qed.

(* C13 ON THE TRANSLATED REQUEST PATH: for a getPubKey request the gate accepts, whatever key bytes the device answers
   are the reply's pubKey, hex-encoded, with errorcode 0, and the only APDU sent is GET_PUBLIC_KEY with the requested
   path - stated of __internal_handle_request as translated from the source *)
Theorem C13_source_request_path_pubkey_verbatim :
  forall (keccak : bytes -> bytes) (kind : dongle_kind) (init : pm pv) (cm : string -> pv -> list pv -> pr pv)
         fuel self request (req : obj) path els k sc cn op tr p rp fs,
  let w := mkWorld (Data k :: sc) cn op tr false p rp fs in
  env_ok keccak kind init cm fuel w ->
  gate_request V5 request = GAccept (s "getPubKey") req ->
  jget (s "keyId") req = Some (JStr path) -> bip32_path path = Some els ->
  srcm_HSM2ProtocolLedger____internal_handle_request fuel cm init self (of_json request) w =
  (XOk (of_json (JObj [(s "pubKey", JStr (hex k)); (KEY_ERRORCODE, JInt 0)])),
   mkWorld sc cn op (Apdu (CLA :: CMD_GET_PUBLIC_KEY :: path_to_binary els) (Data k) :: tr) false p rp fs).
Proof. exact src_pubkey_reply_verbatim. Qed.
