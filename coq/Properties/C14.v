(* C14 — Clearing of signature placeholders is canonical and loses nothing else.
   Statements about the Gallina model of comm/bitcoin.py over the python-bitcoinlib codec
   (Model/BtcTx.v); proofs in Proofs/BtcTxProofs.v. *)
From PowHsm Require Import Model.BtcTx Proofs.BtcTxProofs.
Open Scope N_scope.

(* version, outpoints, sequences, outputs, lock time survive byte for byte; every input script
   becomes the cleared form of the original one *)
Theorem C14_unsign_preserves :
  forall raw t u,
  deserialize_tx raw = Some t -> unsign_tx raw = Some u ->
  nlen raw < 4294967296 -> tx_vin t <> [] ->
  exists t', deserialize_tx u = Some t' /\
    tx_version t' = tx_version t /\
    map in_outpoint (tx_vin t') = map in_outpoint (tx_vin t) /\
    map in_sequence (tx_vin t') = map in_sequence (tx_vin t) /\
    length (tx_vin t') = length (tx_vin t) /\
    tx_vout t' = tx_vout t /\
    tx_wit t' = (if wit_is_null (tx_wit t) then [] else tx_wit t) /\
    tx_locktime t' = tx_locktime t /\
    Forall2 cleared_input (tx_vin t) (tx_vin t').
Proof. exact unsign_preserves. Qed.

(* each input script is reduced to empty pushes followed by its original last operation *)
Theorem C14_clear_script_shape :
  forall sc sc', clear_script sc = Some sc' ->
  exists ops lastop,
    script_ops (S (length sc)) sc = Some (ops ++ [lastop]) /\
    sc' = repeat 0 (length ops) ++ encode_op lastop.
Proof. exact clear_script_shape. Qed.

(* empty or undecodable scripts are the only ones that fail (answered -102 by the caller) *)
Theorem C14_clear_script_none :
  forall sc, clear_script sc = None <-> (sc = [] \/ script_ops (S (length sc)) sc = None).
Proof. exact clear_script_none. Qed.

(* it does not depend on which signatures were already present *)
Theorem C14_signature_independent :
  forall raw1 raw2 t1 t2,
  deserialize_tx raw1 = Some t1 -> deserialize_tx raw2 = Some t2 ->
  tx_version t1 = tx_version t2 -> tx_vout t1 = tx_vout t2 -> tx_wit t1 = tx_wit t2 ->
  tx_locktime t1 = tx_locktime t2 ->
  Forall2 same_but_sigs (tx_vin t1) (tx_vin t2) ->
  unsign_tx raw1 = unsign_tx raw2.
Proof. exact unsign_signature_independent. Qed.

(* applying the transformation again changes nothing *)
Theorem C14_unsign_idempotent :
  forall raw t u,
  deserialize_tx raw = Some t -> unsign_tx raw = Some u ->
  nlen raw < 4294967296 -> tx_vin t <> [] ->
  unsign_tx u = Some u.
Proof. exact unsign_idempotent. Qed.

Theorem C14_clear_idempotent :
  forall sc sc', nlen sc < 4294967296 -> clear_script sc = Some sc' -> clear_script sc' = Some sc'.
Proof. exact clear_idempotent. Qed.

(* non-vacuity: a concrete two-input transaction meets the hypotheses (see also the ex_* examples
   of Proofs/BtcTxProofs.v, all closed by vm_compute) *)
Definition C14_example_raw : bytes :=
  hx "0100000001111111111111111111111111111111111111111111111111111111111111111111111111080002aabb035152aeffffffff0100000000000000000000000000".

Example C14_hypotheses_satisfiable :
  match deserialize_tx C14_example_raw, unsign_tx C14_example_raw with
  | Some t, Some u => negb (Nat.eqb (length (tx_vin t)) 0) && (nlen C14_example_raw <? 4294967296)
                      && negb (bytes_eqb u C14_example_raw)
  | _, _ => false
  end = true.
Proof. vm_compute. reflexivity. Qed.
