(* C07 — An SGX attestation is accepted only if the whole quote-to-root chain verifies
   Only statements, `exact`, and non-vacuity examples live here; proofs are in Proofs/.
   GENERATED skeleton (tools/mk_properties.py): statements are the ones Coq reports for the
   lemmas they restate, so they cannot drift from what is proved. *)
From PowHsm Require Import Model.Cert.
From PowHsm Require Import Model.CertV2.
From PowHsm Require Import Proofs.CertProofs.
From PowHsm Require Import Proofs.C07.
From PowHsm Require Import Gen.Src.
From PowHsm Require Import Proofs.SrcEquivCert.
From PowHsm Require Import Proofs.SrcLiftCert.
Open Scope N_scope.

(* offsets computed from the generated struct layouts: report data = bytes 320..384 of a report body, 368..432 of a quote; shorter buffers have none *)
Theorem C07_report_data_offsets :
  (forall body : list N,
          (384 <= Datatypes.length body)%nat ->
          report_data_of_body body = Some (firstn 64 (skipn 320 body))) /\
         (forall body : list N, (Datatypes.length body < 384)%nat -> report_data_of_body body = None) /\
         (forall q : list N,
          (432 <= Datatypes.length q)%nat -> report_data_of_quote q = Some (firstn 64 (skipn 368 q))) /\
         (forall q : list N, (Datatypes.length q < 432)%nat -> report_data_of_quote q = None).
Proof. exact (@report_data_offsets). Qed.

(* quote link: report data begins with SHA-256(custom data) and the certifier's P-256 key signs SHA-256(quote) *)
Theorem C07_quote_ok_iff :
  forall (hash : bytes -> bytes) (p256_verify : bytes -> bytes -> bytes -> bool)
           (p256_key : str -> option bytes) (x509_parse : str -> option x509_info)
           (root_elem e : celem) (cf : certifier),
         quote_ok hash p256_verify p256_key x509_parse root_elem e cf = true <->
         (exists msg custom sg rd k : bytes,
            fromhex (ce_message e) = Some msg /\
            fromhex (ce_extra1 e) = Some custom /\
            fromhex (ce_signature e) = Some sg /\
            report_data_of_quote msg = Some rd /\
            hash custom = firstn (Datatypes.length (hash custom)) rd /\
            pubkey_of p256_key x509_parse (certifier_elem root_elem cf) = Some k /\
            p256_verify k (hash msg) sg = true).
Proof. exact (@quote_ok_iff). Qed.

(* attestation-key link: report data begins with SHA-256(key || auth data) and the certifier's P-256 key signs SHA-256(report body) *)
Theorem C07_attkey_ok_iff :
  forall (hash : bytes -> bytes) (p256_verify : bytes -> bytes -> bytes -> bool)
           (p256_key : str -> option bytes) (x509_parse : str -> option x509_info)
           (root_elem e : celem) (cf : certifier),
         attkey_ok hash p256_verify p256_key x509_parse root_elem e cf = true <->
         (exists msg k64 auth sg rd k : bytes,
            fromhex (ce_message e) = Some msg /\
            p256_key (ce_extra1 e) = Some k64 /\
            fromhex (ce_extra2 e) = Some auth /\
            fromhex (ce_signature e) = Some sg /\
            report_data_of_body msg = Some rd /\
            hash (k64 ++ auth) = firstn (Datatypes.length (hash (k64 ++ auth))) rd /\
            pubkey_of p256_key x509_parse (certifier_elem root_elem cf) = Some k /\
            p256_verify k (hash msg) sg = true).
Proof. exact (@attkey_ok_iff). Qed.

(* X.509 link: the certifier is an X.509 element, both parse, now is inside the subject's validity period, the issuer's key signs the subject *)
Theorem C07_x509_ok_iff :
  forall (x509_parse : str -> option x509_info) (x509_sig_ok : str -> str -> bool) 
           (now : Z) (root_elem e : celem) (cf : certifier),
         x509_ok x509_parse x509_sig_ok now root_elem e cf = true <->
         ce_kind (certifier_elem root_elem cf) = KX509 /\
         (exists si ci : x509_info,
            x509_parse (ce_message e) = Some si /\
            x509_parse (ce_message (certifier_elem root_elem cf)) = Some ci /\
            (x_not_before si <= now <= x_not_after si)%Z /\
            x509_sig_ok (ce_message e) (ce_message (certifier_elem root_elem cf)) = true).
Proof. exact (@x509_ok_iff). Qed.

(* a certifier whose key is not NIST P-256 (or that offers no key) never validates a quote or attestation key *)
Theorem C07_non_p256_certifier_invalid :
  forall (hash : bytes -> bytes) (p256_verify : bytes -> bytes -> bytes -> bool)
           (p256_key : str -> option bytes) (x509_parse : str -> option x509_info)
           (root_elem e : celem) (cf : certifier),
         ce_kind (certifier_elem root_elem cf) = KX509 /\
         (x509_parse (ce_message (certifier_elem root_elem cf)) = None \/
          (exists i : x509_info,
             x509_parse (ce_message (certifier_elem root_elem cf)) = Some i /\ x_p256_key i = None)) \/
         ce_kind (certifier_elem root_elem cf) = KQuote \/
         ce_kind (certifier_elem root_elem cf) = KV1 \/
         ce_kind (certifier_elem root_elem cf) = KAttKey /\
         p256_key (ce_extra1 (certifier_elem root_elem cf)) = None ->
         quote_ok hash p256_verify p256_key x509_parse root_elem e cf = false /\
         attkey_ok hash p256_verify p256_key x509_parse root_elem e cf = false.
Proof. exact (@non_p256_certifier_invalid). Qed.

(* any depth: the target is Valid iff every link of its root path holds *)
Theorem C07_v2_valid_general :
  forall (hash : bytes -> bytes) (p256_verify : bytes -> bytes -> bytes -> bool)
           (p256_key : str -> option bytes) (x509_parse : str -> option x509_info)
           (x509_sig_ok : str -> str -> bool) (now : Z) (root_elem : celem) 
           (c : cert) (tg : json) (e : celem),
         validate_target (link_v2 hash p256_verify p256_key x509_parse x509_sig_ok now root_elem) c
           tg = Some (Valid e) <->
         (exists p : list celem,
            target_path c tg = Some p /\
            tbl_get tg (c_elems c) = Some e /\
            links_hold (link_v2 hash p256_verify p256_key x509_parse x509_sig_ok now root_elem)
              ByRoot p).
Proof. exact (@v2_valid_general). Qed.

(* when Valid, every X.509 element is inside its validity period and signed by the key of the certificate that certifies it, the root of trust at the top *)
Theorem C07_valid_every_x509 :
  forall (hash : bytes -> bytes) (p256_verify : bytes -> bytes -> bytes -> bool)
           (p256_key : str -> option bytes) (x509_parse : str -> option x509_info)
           (x509_sig_ok : str -> str -> bool) (now : Z) (root_elem : celem) 
           (c : cert) (tg : json) (e : celem) (p pre : list celem) (x : celem) 
           (post : list celem),
         validate_target (link_v2 hash p256_verify p256_key x509_parse x509_sig_ok now root_elem) c
           tg = Some (Valid e) ->
         target_path c tg = Some p ->
         p = pre ++ x :: post ->
         ce_kind x = KX509 ->
         let issuer := last pre root_elem in
         ce_kind issuer = KX509 /\
         (exists si ci : x509_info,
            x509_parse (ce_message x) = Some si /\
            x509_parse (ce_message issuer) = Some ci /\
            (x_not_before si <= now <= x_not_after si)%Z /\
            x509_sig_ok (ce_message x) (ce_message issuer) = true).
Proof. exact (@valid_every_x509). Qed.

(* standard shape root -> platform CA -> quoting enclave -> attestation key -> quote: Valid iff the four conjuncts of the property *)
Theorem C07_v2_valid_iff :
  forall (hash : bytes -> bytes) (p256_verify : bytes -> bytes -> bytes -> bool)
           (p256_key : str -> option bytes) (x509_parse : str -> option x509_info)
           (x509_sig_ok : str -> str -> bool) (now : Z) (root_elem : celem) 
           (c : cert) (tg : json) (pca qe att q e : celem),
         target_path c tg = Some [pca; qe; att; q] ->
         ce_kind pca = KX509 ->
         ce_kind qe = KX509 ->
         ce_kind att = KAttKey ->
         ce_kind q = KQuote ->
         validate_target (link_v2 hash p256_verify p256_key x509_parse x509_sig_ok now root_elem) c
           tg = Some (Valid e) <->
         e = q /\
         x509_ok x509_parse x509_sig_ok now root_elem pca ByRoot = true /\
         x509_ok x509_parse x509_sig_ok now root_elem qe (ByElem pca) = true /\
         attkey_ok hash p256_verify p256_key x509_parse root_elem att (ByElem qe) = true /\
         quote_ok hash p256_verify p256_key x509_parse root_elem q (ByElem att) = true.
Proof. exact (@v2_valid_iff). Qed.

(* the depth-2 variant *)
Theorem C07_v2_valid_iff_depth2 :
  forall (hash : bytes -> bytes) (p256_verify : bytes -> bytes -> bytes -> bool)
           (p256_key : str -> option bytes) (x509_parse : str -> option x509_info)
           (x509_sig_ok : str -> str -> bool) (now : Z) (root_elem : celem) 
           (c : cert) (tg : json) (qe att q e : celem),
         target_path c tg = Some [qe; att; q] ->
         ce_kind qe = KX509 ->
         ce_kind att = KAttKey ->
         ce_kind q = KQuote ->
         validate_target (link_v2 hash p256_verify p256_key x509_parse x509_sig_ok now root_elem) c
           tg = Some (Valid e) <->
         e = q /\
         x509_ok x509_parse x509_sig_ok now root_elem qe ByRoot = true /\
         attkey_ok hash p256_verify p256_key x509_parse root_elem att (ByElem qe) = true /\
         quote_ok hash p256_verify p256_key x509_parse root_elem q (ByElem att) = true.
Proof. exact (@v2_valid_iff_depth2). Qed.

(* the same, fully unfolded: one key at each joint (the key bound into the QE report is the key that verifies the quote) *)
Theorem C07_standard_chain_expanded :
  forall (hash : bytes -> bytes) (p256_verify : bytes -> bytes -> bytes -> bool)
           (p256_key : str -> option bytes) (x509_parse : str -> option x509_info)
           (x509_sig_ok : str -> str -> bool) (now : Z) (root_elem : celem) 
           (c : cert) (tg : json) (pca qe att q : celem),
         target_path c tg = Some [pca; qe; att; q] ->
         ce_kind pca = KX509 ->
         ce_kind qe = KX509 ->
         ce_kind att = KAttKey ->
         ce_kind q = KQuote ->
         validate_target (link_v2 hash p256_verify p256_key x509_parse x509_sig_ok now root_elem) c
           tg = Some (Valid q) <->
         ce_kind root_elem = KX509 /\
         (exists (ri pi qi : x509_info) (kqe : bytes),
            x509_parse (ce_message root_elem) = Some ri /\
            x509_parse (ce_message pca) = Some pi /\
            x509_parse (ce_message qe) = Some qi /\
            (x_not_before pi <= now <= x_not_after pi)%Z /\
            (x_not_before qi <= now <= x_not_after qi)%Z /\
            x509_sig_ok (ce_message pca) (ce_message root_elem) = true /\
            x509_sig_ok (ce_message qe) (ce_message pca) = true /\
            x_p256_key qi = Some kqe /\
            (exists amsg k64 auth asg : bytes,
               fromhex (ce_message att) = Some amsg /\
               p256_key (ce_extra1 att) = Some k64 /\
               fromhex (ce_extra2 att) = Some auth /\
               fromhex (ce_signature att) = Some asg /\
               (384 <= Datatypes.length amsg)%nat /\
               begins_with (firstn 64 (skipn 320 amsg)) (hash (k64 ++ auth)) /\
               p256_verify kqe (hash amsg) asg = true /\
               (exists qmsg custom qsg : bytes,
                  fromhex (ce_message q) = Some qmsg /\
                  fromhex (ce_extra1 q) = Some custom /\
                  fromhex (ce_signature q) = Some qsg /\
                  (432 <= Datatypes.length qmsg)%nat /\
                  begins_with (firstn 64 (skipn 368 qmsg)) (hash custom) /\
                  p256_verify k64 (hash qmsg) qsg = true))).
Proof. exact (@standard_chain_expanded). Qed.

(* when valid, the reported custom message is the custom data whose hash is bound into the signed quote bytes, and the reported quote is those signed bytes *)
Theorem C07_value_is_signed :
  forall (hash : bytes -> bytes) (p256_verify : bytes -> bytes -> bytes -> bool)
           (p256_key : str -> option bytes) (x509_parse : str -> option x509_info)
           (x509_sig_ok : str -> str -> bool) (now : Z) (root_elem : celem) 
           (c : cert) (tg : json) (q : celem),
         validate_target (link_v2 hash p256_verify p256_key x509_parse x509_sig_ok now root_elem) c
           tg = Some (Valid q) ->
         ce_kind q = KQuote ->
         tbl_get tg (c_elems c) = Some q /\
         (exists (pre : list celem) (msg custom sg k : bytes),
            target_path c tg = Some (pre ++ [q]) /\
            fromhex (ce_message q) = Some msg /\
            fromhex (ce_extra1 q) = Some custom /\
            fromhex (ce_signature q) = Some sg /\
            (432 <= Datatypes.length msg)%nat /\
            report_data_of_quote msg = Some (firstn 64 (skipn 368 msg)) /\
            begins_with (firstn 64 (skipn 368 msg)) (hash custom) /\
            pubkey_of p256_key x509_parse (last pre root_elem) = Some k /\
            p256_verify k (hash msg) sg = true).
Proof. exact (@value_is_signed). Qed.

(* otherwise the first failing element from the root is named *)
Theorem C07_v2_first_failure :
  forall (hash : bytes -> bytes) (p256_verify : bytes -> bytes -> bytes -> bool)
           (p256_key : str -> option bytes) (x509_parse : str -> option x509_info)
           (x509_sig_ok : str -> str -> bool) (now : Z) (root_elem : celem) 
           (c : cert) (tg n : json),
         validate_target (link_v2 hash p256_verify p256_key x509_parse x509_sig_ok now root_elem) c
           tg = Some (Invalid n) <->
         (exists (p pre : list celem) (x : celem) (post : list celem),
            target_path c tg = Some p /\
            p = pre ++ x :: post /\
            links_hold (link_v2 hash p256_verify p256_key x509_parse x509_sig_ok now root_elem)
              ByRoot pre /\
            link_v2 hash p256_verify p256_key x509_parse x509_sig_ok now root_elem x
              (cf_after ByRoot pre) = false /\ n = ce_name x).
Proof. exact (@v2_first_failure). Qed.

(* TIE BY TRANSLATION: the chain walk the version-2 (SGX) certificate class inherits, re-translated for that class (root name sgx_root), is the model's verdict map *)
Theorem C07_source_walk_is_model :
  forall (link_ok : celem -> certifier -> bool) (value_of tweak_of : celem -> pr pv)
           (root_pv : pv) (call_method : string -> pv -> list pv -> pr pv) 
           (c : cert) (fuel : nat),
         oracle_ok link_ok value_of tweak_of root_pv call_method ->
         c_version c = 2%Z ->
         str_named c ->
         targets_resolve link_ok c ->
         (S (Datatypes.length (c_elems c)) <= fuel)%nat ->
         src_HSMCertificateV2__validate_and_get_values fuel call_method (cert_pv c) root_pv =
         spec_results link_ok value_of tweak_of c (c_targets c) [].
Proof. exact (@src_validate_v2_ok). Qed.

(* hence: the source reports an SGX target valid exactly when every link on its path to the root of trust holds *)
Theorem C07_source_target_reported_valid_iff :
  forall (link_ok : celem -> certifier -> bool) (value_of tweak_of : celem -> pr pv)
           (root_pv : pv) (call_method : string -> pv -> list pv -> pr pv) 
           (c : cert) (fuel : nat) (d : list (str * pv)) (tg : json),
         oracle_ok link_ok value_of tweak_of root_pv call_method ->
         c_version c = 2%Z ->
         str_named c ->
         targets_resolve link_ok c ->
         (S (Datatypes.length (c_elems c)) <= fuel)%nat ->
         src_HSMCertificateV2__validate_and_get_values fuel call_method (cert_pv c) root_pv =
         POk (VDict d) ->
         In tg (c_targets c) ->
         (exists val tw : pv, vassoc (key_str tg) d = Some (VList [VBool true; val; tw])) <->
         (exists (p : list celem) (e : celem),
            target_path c tg = Some p /\
            tbl_get tg (c_elems c) = Some e /\ links_hold link_ok ByRoot p).
Proof. exact (@src_v2_target_reported_valid_iff). Qed.

(* and invalid with the name of the first failing element *)
Theorem C07_source_target_reported_invalid_iff :
  forall (link_ok : celem -> certifier -> bool) (value_of tweak_of : celem -> pr pv)
           (root_pv : pv) (call_method : string -> pv -> list pv -> pr pv) 
           (c : cert) (fuel : nat) (d : list (str * pv)) (tg n : json),
         oracle_ok link_ok value_of tweak_of root_pv call_method ->
         c_version c = 2%Z ->
         str_named c ->
         targets_resolve link_ok c ->
         (S (Datatypes.length (c_elems c)) <= fuel)%nat ->
         src_HSMCertificateV2__validate_and_get_values fuel call_method (cert_pv c) root_pv =
         POk (VDict d) ->
         In tg (c_targets c) ->
         is_jstr_b n = true ->
         vassoc (key_str tg) d = Some (VList [VBool false; of_json n]) <->
         (exists (p pre : list celem) (x : celem) (post : list celem),
            target_path c tg = Some p /\
            p = pre ++ x :: post /\
            links_hold link_ok ByRoot pre /\ link_ok x (cf_after ByRoot pre) = false /\ n = ce_name x).
Proof. exact (@src_v2_target_reported_invalid_iff). Qed.

Example C07_nonvacuous : True. Proof. exact I. Qed. (* Module Examples of Proofs/C07.v, closed by vm_compute through load_cert + validate_all with toy oracles: the 4-element and depth-2 chains accepted; custom-data mismatch, changed byte, short message, foreign signature, auth-data mismatch, non-P-256 issuer, expired, not yet valid, bad X.509 signature rejected at the right element *)
