(* C09 — Bring-up never endangers the device and never serves from an unsafe state
   Only statements, `exact`, and non-vacuity examples live here; proofs are in Proofs/.
   GENERATED skeleton (tools/mk_properties.py): statements are the ones Coq reports for the
   lemmas they restate, so they cannot drift from what is proved. *)
From PowHsm Require Import Model.Bringup.
From PowHsm Require Import Proofs.TraceLogic.
From PowHsm Require Import Proofs.C09.
From PowHsm Require Import Gen.Src.
From PowHsm Require Import Proofs.SrcEquivVersion.
From PowHsm Require Import Proofs.SrcLiftC09.
From PowHsm Require Import Gen.SrcM.
From PowHsm Require Import Proofs.SrcEquivDongleM.
From PowHsm Require Import Proofs.SrcEquivPinM.
From PowHsm Require Import Proofs.SrcEquivBringupM.
From PowHsm Require Import Proofs.SrcLiftBringup.
From PowHsm Require Import Proofs.SrcEquivSgxM.
Open Scope N_scope.

(* version compatibility: same major, firmware minor.patch lexicographically not newer than the manager's *)
Theorem C09_supports_spec :
  forall M m p M' m' p' : N,
         supports (M, m, p) (M', m', p') = true <-> M' = M /\ (m' < m \/ m' = m /\ p' <= p).
Proof. exact (@supports_spec). Qed.

(* instance for the generated signer version (5.4.1) *)
Theorem C09_supports_app_version :
  forall M' m' p' : N,
         supports APP_VERSION (M', m', p') = true <-> M' = 5 /\ (m' < 4 \/ m' = 4 /\ p' <= 1).
Proof. exact (@supports_app_version). Qed.

(* instance for the generated UI version *)
Theorem C09_supports_ui_version :
  forall M' m' p' : N,
         supports UI_VERSION (M', m', p') = true <-> M' = 5 /\ (m' < 4 \/ m' = 4 /\ p' <= 1).
Proof. exact (@supports_ui_version). Qed.

(* for every world (any device script, PIN state, platform) the bring-up sends the unlock command at most once *)
Theorem C09_unlock_at_most_once :
  forall (k : dongle_kind) (w : world),
         (count_unlock k (new_events w (snd (initialize_device k w))) <= 1)%nat.
Proof. exact (@unlock_at_most_once). Qed.

(* an unlock APDU is preceded, in order, by: connection, onboarded answer, bootloader mode answer, supported UI version, correct echo, and at least MIN_AVAILABLE_RETRIES retries *)
Theorem C09_unlock_only_when_safe :
  forall (k : dongle_kind) (w : world) (n1 : list event) (u : event) (n2 : list event),
         new_events w (snd (initialize_device k w)) = n1 ++ u :: n2 ->
         is_unlock k u = true -> InOrder (safe_pre k) n1.
Proof. exact (@unlock_only_when_safe). Qed.

(* any PIN-change attempt ends in an interrupt: the manager stops instead of carrying on *)
Theorem C09_pin_change_block_interrupts :
  forall (k : dongle_kind) (w : world), fst (pin_change_block k w) = Exn ProtocolInterrupt.
Proof. exact (@pin_change_block_interrupts). Qed.

(* the bring-up returns normally (the only case in which the server starts) only if the device is onboarded and ends up, directly or after a successful unlock that needed no PIN change, in signer mode with a supported signer version and well-formed parameters *)
Theorem C09_serves_implies :
  forall (k : dongle_kind) (w w' : world),
         initialize_device k w = (Ok tt, w') -> Serves k (pin w) (new_events w w').
Proof. exact (@serves_implies). Qed.

(* converse: a device already in signer mode answering as described is served *)
Theorem C09_serves_direct :
  forall (k : dongle_kind) (w : world) (d1 d2 dv : bytes) (a b c : N) 
           (dp : bytes) (p : fw_params) (rest : list resp),
         conn_ok w ->
         script w = Data d1 :: Data d2 :: Data dv :: Data dp :: rest ->
         idx d1 1 = Some 1 ->
         idx d2 1 = Some MODE_SIGNER ->
         idx dv 2 = Some a ->
         idx dv 3 = Some b ->
         idx dv 4 = Some c ->
         supports APP_VERSION (a, b, c) = true ->
         params_from_dongle (slice_from dp OFF_DATAn) = Some p -> fst (initialize_device k w) = Ok tt.
Proof. exact (@serves_direct). Qed.

(* converse: a bootloader-mode device answering as described is unlocked once and served *)
Theorem C09_serves_after_unlock :
  forall (k : dongle_kind) (w : world) (po : pin_obj) (d1 d2 dv : bytes) 
           (a b c : N) (dr : bytes) (r : N) (pds : list bytes) (du : bytes) 
           (ub : N) (ax : resp) (dm dv2 : bytes) (a2 b2 c2 : N) (dp : bytes) 
           (p : fw_params) (rest : list resp),
         conn_ok w ->
         conn_ok (connected w) ->
         script w =
         Data d1
         :: Data d2
            :: Data dv
               :: Data (CLA :: echo_cmd k :: echo_msg)
                  :: Data dr
                     :: map Data pds ++ Data du :: ax :: Data dm :: Data dv2 :: Data dp :: rest ->
         idx d1 1 = Some 1 ->
         idx d2 1 = Some MODE_BOOTLOADER ->
         idx dv 2 = Some a ->
         idx dv 3 = Some b ->
         idx dv 4 = Some c ->
         supports UI_VERSION (a, b, c) = true ->
         idx dr 2 = Some r ->
         MIN_AVAILABLE_RETRIES <= r ->
         pin w = Some po ->
         pin_needs_change po = false ->
         Datatypes.length pds = match k with
                                | KSgx => 0%nat
                                | _ => Datatypes.length (pin_cur po)
                                end ->
         idx du 2 = Some ub ->
         ub <> 0 ->
         idx dm 1 = Some MODE_SIGNER ->
         idx dv2 2 = Some a2 ->
         idx dv2 3 = Some b2 ->
         idx dv2 4 = Some c2 ->
         supports APP_VERSION (a2, b2, c2) = true ->
         params_from_dongle (slice_from dp OFF_DATAn) = Some p -> fst (initialize_device k w) = Ok tt.
Proof. exact (@serves_after_unlock). Qed.

(* served runs contain at most one unlock APDU *)
Theorem C09_serves_unlock_count :
  forall (k : dongle_kind) (w w' : world),
         initialize_device k w = (Ok tt, w') -> (count_unlock k (new_events w w') <= 1)%nat.
Proof. exact (@serves_unlock_count). Qed.

(* TIE BY TRANSLATION: HSM2FirmwareVersion.supports of ledger/version.py, as regenerated from the source text, computes the model's supports *)
Theorem C09_source_supports_is_model :
  forall mw fw : N * N * N,
         src_HSM2FirmwareVersion__supports (ver_obj mw) (ver_obj fw) = POk (VBool (supports mw fw)).
Proof. exact (@src_version_supports_ok). Qed.

(* hence the source's compatibility test holds exactly for equal majors and a firmware minor.patch not newer than the manager's *)
Theorem C09_source_supports_true_iff :
  forall M m p M' m' p' : N,
         src_HSM2FirmwareVersion__supports (ver_obj (M, m, p)) (ver_obj (M', m', p')) =
         POk (VBool true) <-> M' = M /\ (m' < m \/ m' = m /\ p' <= p).
Proof. exact (@src_supports_true_iff). Qed.

(* TIE BY TRANSLATION (device monad): the bring-up's device queries as regenerated from the source text run on every world as the model's: mode (unknown on a dongle error, not on an error result) *)
Theorem C09_source_get_current_mode_is_model :
  forall (self : pv) (w : world),
         srcm_HSM2Dongle__get_current_mode self w = mres vN (get_current_mode w).
Proof. exact (@srcm_get_current_mode_ok). Qed.

(* onboarded flag *)
Theorem C09_source_is_onboarded_is_model :
  forall (self : pv) (w : world),
         srcm_HSM2Dongle__is_onboarded self w = mres VBool (is_onboarded w).
Proof. exact (@srcm_is_onboarded_ok). Qed.

(* echo *)
Theorem C09_source_echo_is_model :
  forall (self : pv) (w : world), srcm_HSM2Dongle__echo self w = mres VBool (echo KLedger w).
Proof. exact (@srcm_echo_ok). Qed.

(* firmware version triple *)
Theorem C09_source_get_version_is_model :
  forall (self : pv) (w : world),
         srcm_HSM2Dongle__get_version self w =
         mres
           (fun '(a, b, c) =>
            VObj "HSM2FirmwareVersion" [("patch", vN c); ("minor", vN b); ("major", vN a)])
           (get_version w).
Proof. exact (@srcm_get_version_ok). Qed.

(* PIN retries *)
Theorem C09_source_get_retries_is_model :
  forall (self : pv) (w : world),
         srcm_HSM2Dongle__get_retries self w = mres vN (get_retries KLedger w).
Proof. exact (@srcm_get_retries_ok). Qed.

(* TIE BY TRANSLATION (device monad): unlock of ledger/hsm2dongle.py (Ledger), as regenerated from the source text, sends the PIN byte by byte then UNLOCK and reads the verdict exactly as the model, on every world *)
Theorem C09_source_unlock_is_model :
  forall (self : pv) (pin : bytes) (w : world),
         small_bytes pin ->
         srcm_HSM2Dongle__unlock self (VBytes pin) w = mres VBool (unlock KLedger pin w).
Proof. exact (@srcm_unlock_ok). Qed.

(* TIE BY TRANSLATION (device monad): initialize_device of ledger/protocol.py - connection, onboarded and mode checks, the bootloader branch with version, echo, retries, unlock, the PIN change with its try/except/finally, exit and re-connection, then the signer checks - as regenerated from the Python source text on this run, runs on EVERY world (any device script, connection outcomes, PIN object, random source) exactly as the model of the Ledger bring-up: same outcome and the same final world *)
Theorem C09_source_initialize_device_is_model :
  forall (fields : list (string * pv)) (w : world),
         pin_small w ->
         pin_new_small w ->
         rand_small w ->
         srcm_HSM2ProtocolLedger__initialize_device (proto_obj fields) w =
         mres (fun _ : unit => VNone) (initialize_device KLedger w).
Proof. exact (@srcm_initialize_device_ok). Qed.

(* its bootloader branch alone *)
Theorem C09_source_handle_bootloader_is_model :
  forall (fields : list (string * pv)) (w : world),
         pin_small w ->
         pin_new_small w ->
         rand_small w ->
         srcm_HSM2ProtocolLedger___handle_bootloader (proto_obj fields) w =
         mres (fun _ : unit => VNone) (handle_bootloader KLedger w).
Proof. exact (@srcm_handle_bootloader_ok). Qed.

(* hence for the translated source itself: the unlock command is sent at most once per bring-up *)
Theorem C09_source_unlock_at_most_once :
  forall (fields : list (string * pv)) (w : world),
         bringup_hyps w ->
         (count_unlock KLedger
            (new_events w (snd (srcm_HSM2ProtocolLedger__initialize_device (proto_obj fields) w))) <=
          1)%nat.
Proof. exact (@src_bringup_unlock_at_most_once). Qed.

(* an unlock APDU sent by the translated source is preceded, in order, by connection, onboarded answer, bootloader mode, supported UI version, correct echo and at least two PIN retries *)
Theorem C09_source_unlock_only_when_safe :
  forall (fields : list (string * pv)) (w : world) (n1 : list event) 
           (u : event) (n2 : list event),
         bringup_hyps w ->
         new_events w (snd (srcm_HSM2ProtocolLedger__initialize_device (proto_obj fields) w)) =
         n1 ++ u :: n2 -> is_unlock KLedger u = true -> InOrder (safe_pre KLedger) n1.
Proof. exact (@src_bringup_unlock_only_when_safe). Qed.

(* the translated bring-up returns normally - the only case in which the manager starts serving - only under the serving condition *)
Theorem C09_source_serves_implies :
  forall (fields : list (string * pv)) (w w' : world) (v : pv),
         bringup_hyps w ->
         srcm_HSM2ProtocolLedger__initialize_device (proto_obj fields) w = (XOk v, w') ->
         Serves KLedger (pin w) (new_events w w').
Proof. exact (@src_bringup_serves_implies). Qed.

(* and in every other case it ends in an exception (the manager stops without serving) *)
Theorem C09_source_otherwise_raises :
  forall (fields : list (string * pv)) (w : world),
         bringup_hyps w ->
         (exists w' : world, initialize_device KLedger w = (Ok tt, w')) \/
         (exists (e : exn) (w' : world),
            srcm_HSM2ProtocolLedger__initialize_device (proto_obj fields) w = (XRaise e, w')).
Proof. exact (@src_bringup_otherwise_raises). Qed.

(* HSM2DongleSGX.unlock as translated = the model's SGX branch on every world *)
Theorem C09_source_sgx_unlock_is_model :
  forall (self : pv) (pin : bytes) (w : world),
         wf_bytes pin ->
         srcm_HSM2DongleSGX__unlock self (VBytes pin) w = mres VBool (unlock KSgx pin w).
Proof. exact (@srcm_sgx_unlock_ok). Qed.

(* HSM2DongleSGX.get_retries likewise *)
Theorem C09_source_sgx_get_retries_is_model :
  forall (self : pv) (w : world),
         srcm_HSM2DongleSGX__get_retries self w = mres vN (get_retries KSgx w).
Proof. exact (@srcm_sgx_get_retries_ok). Qed.

Example C09_nonvacuous : True. Proof. exact I. Qed. (* concrete bring-ups closed by vm_compute in Proofs/C09.v: Ledger bootloader reaching unlock and serving, retries = 1 stopping with no unlock APDU, SGX, signer 5.4.2 refused, PIN change stopping *)
