(* Refinement theorems for the device-monad backend: the heartbeat command classes of
   ledger/hsm2dongle_cmds (HSM2SignerHeartbeat.run, HSM2UIHeartbeat.run over HSM2DongleCommand.send), their
   wrappers in HSM2Dongle and the handlers _signer_heartbeat / _ui_heartbeat of ledger/protocol.py (the latter
   with its mode dance: exit the signer, re-connect, check the mode, gather, exit, re-connect, check again), as
   translated from the Python source text (Gen/SrcM.v), run on every world exactly as the models of
   Model/Dongle.v / Model/LedgerProtocol.v. *)
From PowHsm Require Import Gen.SrcM Model.Dongle Model.LedgerProtocol.
From PowHsm Require Import Proofs.ValLemmas Proofs.SrcEquivLedger Proofs.SrcEquivDongleM Proofs.SrcEquivProtoM.
From PowHsm Require Import Proofs.ValLemmasM Proofs.ValLemmasSign Proofs.ValLemmasProtoM Proofs.ValLemmasBlockM.
From PowHsm Require Import Proofs.ValLemmasBringupM Proofs.SrcEquivBringupM.

(* (True, {...}) | (False, error_code) as the source builds them *)
Definition hb_res (h : heartbeat + N) : pv :=
  match h with
  | inl hb => VList [VBool true;
                     VDict [(s "pubKey", VStr (hb_pubkey hb)); (s "message", VStr (hb_message hb));
                            (s "signature", VObj "HSM2DongleSignature" [("_s", VStr (hb_s hb)); ("_r", VStr (hb_r hb))]);
                            (s "tweak", VStr (hb_tweak hb))]]
  | inr sw => VList [VBool false; vN sw]
  end.

(* the user-defined value arrives as hex text: decoding it is the first thing run() does *)
Definition on_hex {A} (f : bytes -> M A) (hx : str) : M A :=
  fun w => match fromhex hx with Some b => f b w | None => (Exn (Py ValueError), w) end.

(* ---------- one exchange of the command class, one step of a try body ---------- *)

Lemma hb_send_ok (self : pv) (op : N) (d : bytes) (w : world) :
  op < 256 ->
  srcm_HSM2SignerHeartbeat__send self (vN op) (VBytes d) VNone w = mres VBytes (send_command 96 (op :: d) w).
Proof.
  intros Hop. unfold srcm_HSM2SignerHeartbeat__send, srcm_HSM2Dongle__send_command.
  rewrite pif_POk. cbn [py_truth]. rewrite !pbind_POk.
  rewrite (mv_py_bytes_single op Hop), pbind_POk, mv_py_add_bytes, pbind_POk.
  exact (m_send_command_mres 96 (op :: d) w).
Qed.

Lemma hb_get_ok (self : pv) (op : N) (w : world) :
  op < 256 ->
  MV.pbind (srcm_HSM2SignerHeartbeat__send self (vN op) (VBytes []) VNone)
           (fun t => MV.py_slice t (Some 3%Z) None) w =
  mres (fun r => VBytes (slice_from r OFF_DATAn)) (send_command 96 [op] w).
Proof.
  intros Hop. unfold MV.pbind, mbind. rewrite (hb_send_ok self op [] w Hop). unfold mres.
  destruct (send_command 96 [op] w) as [[r|e] w1]; cbn [fst snd]; [|reflexivity].
  unfold MV.py_slice. rewrite py_slice_bytes_from by lia. reflexivity.
Qed.

Lemma try_bind_step {A B} (g : A -> pv) (G : B -> pv) (m : pm pv) (mm : M A) (f : pv -> pm pv) (kk : A -> M B)
      (ca : bool) (pats : list xpat) (h : exn -> pm pv) (k : pv -> pm pv) (hh : exn -> option (M B)) (w : world) :
  m w = mres g (mm w) ->
  (forall a w1, MV.ptry_k (f (g a)) ca pats h k w1 = mres G (try_catch (kk a) hh w1)) ->
  (forall e w1, (if ca || existsb (xpat_matches e) pats then mbind (h e) k w1 else (XRaise e, w1)) =
                mres G (match hh e with Some c => c w1 | None => (Exn e, w1) end)) ->
  MV.ptry_k (MV.pbind m f) ca pats h k w = mres G (try_catch (bind mm kk) hh w).
Proof.
  intros Hm Hf Hh. unfold MV.ptry_k at 1, MV.pbind, mbind, try_catch at 1, bind.
  rewrite Hm. unfold mres at 1.
  destruct (mm w) as [[a|e] w1] eqn:Emm; cbn [fst snd].
  - specialize (Hf a w1). unfold MV.ptry_k, try_catch in Hf. exact Hf.
  - apply Hh.
Qed.

Theorem srcm_signer_heartbeat_run_ok : forall (self : pv) (ud_hex : str) (w : world),
  srcm_HSM2SignerHeartbeat__run self (VStr ud_hex) w = mres hb_res (on_hex get_signer_heartbeat ud_hex w).
Proof.
  intros self ud_hex w.
  unfold srcm_HSM2SignerHeartbeat__run. rewrite !pbind_POk. unfold on_hex.
  destruct (fromhex ud_hex) as [ud|] eqn:Eud.
  2:{ rewrite (mv_py_fromhex_none _ Eud), !pbind_PRaise. reflexivity. }
  rewrite (mv_py_fromhex _ _ Eud), pbind_POk.
  unfold get_signer_heartbeat, run_heartbeat.
  match goal with |- MV.ptry_k _ _ _ ?h ?k _ = _ => set (Hd := h); set (K := k) end.
  match goal with |- _ = mres _ (try_catch _ ?hh _) => set (HH := hh) end.
  assert (Hh : forall e w1,
            (if false || existsb (xpat_matches e) [XCls EXC_HSM2DongleErrorResult] then mbind (Hd e) K w1 else (XRaise e, w1)) =
            mres hb_res (match HH e with Some c => c w1 | None => (Exn e, w1) end)).
  { intros e w1. cbn [existsb xpat_matches orb]. rewrite isa_error_result. destruct e; reflexivity. }
  apply try_bind_step with (g := VBytes); [exact (hb_send_ok self 1 ud w eq_refl)| |exact Hh].
  intros _ w1.
  apply try_bind_step with (g := fun r => VBytes (slice_from r OFF_DATAn)); [exact (hb_get_ok self 2 w1 eq_refl)| |exact Hh].
  intros sg w2.
  apply try_bind_step with (g := fun r => VBytes (slice_from r OFF_DATAn)); [exact (hb_get_ok self 3 w2 eq_refl)| |exact Hh].
  intros ms w3.
  apply try_bind_step with (g := fun r => VBytes (slice_from r OFF_DATAn)); [exact (hb_get_ok self 4 w3 eq_refl)| |exact Hh].
  intros hs w4.
  apply try_bind_step with (g := fun r => VBytes (slice_from r OFF_DATAn)); [exact (hb_get_ok self 5 w4 eq_refl)| |exact Hh].
  intros pk w5.
  unfold MV.py_hex. cbn [py_hex]. rewrite !lift_POk, !pbind_POk. rewrite src_der_parse_ok.
  destruct (der_parse (slice_from sg OFF_DATAn)) as [[r s_]|]; reflexivity.
Qed.

Theorem srcm_ui_heartbeat_run_ok : forall (self : pv) (ud_hex : str) (w : world),
  srcm_HSM2UIHeartbeat__run self (VStr ud_hex) w = mres hb_res (on_hex get_ui_heartbeat ud_hex w).
Proof. intros self ud_hex w. exact (srcm_signer_heartbeat_run_ok self ud_hex w). Qed.

Theorem srcm_get_signer_heartbeat_ok : forall (self : pv) (ud_hex : str) (w : world),
  srcm_HSM2Dongle__get_signer_heartbeat self (VStr ud_hex) w = mres hb_res (on_hex get_signer_heartbeat ud_hex w).
Proof. intros self ud_hex w. apply srcm_signer_heartbeat_run_ok. Qed.

Theorem srcm_get_ui_heartbeat_ok : forall (self : pv) (ud_hex : str) (w : world),
  srcm_HSM2Dongle__get_ui_heartbeat self (VStr ud_hex) w = mres hb_res (on_hex get_ui_heartbeat ud_hex w).
Proof. intros self ud_hex w. apply srcm_ui_heartbeat_run_ok. Qed.

(* ---------- helpers for the two handlers ---------- *)

(* the tagged outcome of the try body of both handlers for a gathered heartbeat *)
Definition hb_out (h : heartbeat + N) : pv := VList [VInt 2; rtuple_pv (hb_reply (codes_of V5) h)].

Lemma hb_tail_ok (h : heartbeat + N) (w : world) :
  MV.pif (MV.py_not (MV.py_getitem (hb_res h) (VInt 0)))
    (MV.pbind (MV.POk (VList [VInt (-905)])) (fun rv_ => MV.POk (VList [VInt 2; rv_])))
    (MV.pbind (MV.py_getitem (hb_res h) (VInt 1)) (fun v_heartbeat =>
     MV.pbind (MV.pbind (MV.pbind (MV.py_getitem v_heartbeat (VStr (s "pubKey"))) (fun t3_ => MV.pbind (MV.py_getitem v_heartbeat (VStr (s "message"))) (fun t4_ => MV.pbind (MV.py_getitem v_heartbeat (VStr (s "tweak"))) (fun t5_ => MV.pbind (MV.pbind (MV.pbind (MV.py_getitem v_heartbeat (VStr (s "signature"))) (fun t8_ => lift (src_HSM2DongleSignature__r t8_))) (fun t7_ => MV.pbind (MV.pbind (MV.py_getitem v_heartbeat (VStr (s "signature"))) (fun t10_ => lift (src_HSM2DongleSignature__s t10_))) (fun t9_ => MV.POk (VDict [((s "r"), t7_); ((s "s"), t9_)])))) (fun t6_ => MV.POk (VDict [((s "pubKey"), t3_); ((s "message"), t4_); ((s "tweak"), t5_); ((s "signature"), t6_)])))))) (fun t2_ => MV.POk (VList [(VInt (0)%Z); t2_]))) (fun rv_ => MV.POk (VList [VInt 2%Z; rv_])))) w =
  (XOk (hb_out h), w).
Proof. destruct h as [hb|sw]; reflexivity. Qed.

(* request["udValue"] handed to get_ui_heartbeat, against hex_field followed by the model's gathering *)
Lemma hb_fetch_ui_ok (req : obj) (ud_hex : str) (w : world) :
  jget (s "udValue") req = Some (JStr ud_hex) ->
  MV.pbind (MV.py_getitem (of_obj req) (VStr (s "udValue")))
           (fun t => srcm_HSM2Dongle__get_ui_heartbeat (VObj "HSM2Dongle" []) t) w =
  mres hb_res (on_hex get_ui_heartbeat ud_hex w).
Proof.
  intros Hud. unfold MV.py_getitem. rewrite py_getitem_of_obj, Hud. cbn [of_json].
  rewrite lift_POk, pbind_POk. apply srcm_get_ui_heartbeat_ok.
Qed.

Lemma hex_field_bind {A B} (req : obj) (ud_hex : str) (F : bytes -> M A) (KK : A -> M B) (w : world) :
  jget (s "udValue") req = Some (JStr ud_hex) ->
  bind (hex_field req (s "udValue")) (fun ud => bind (F ud) KK) w = bind (on_hex F ud_hex) KK w.
Proof.
  intros Hud. unfold hex_field, jstr_field, on_hex. rewrite Hud. unfold bind, ret, of_opt.
  destruct (fromhex ud_hex) as [ud|]; reflexivity.
Qed.

(* try: exit_app()  except HSM2DongleCommError: pass *)
Lemma exit_tolerant_step {B} (G : B -> pv) (K : pv -> pm pv) (kk : unit -> M B) (lad : ladder) (w : world) :
  lad = [([3], false, LadPass)] ->
  (forall w1, K (VList [VInt 1; VList []]) w1 = mres G (kk tt w1)) ->
  MV.ptry_k (MV.pbind (srcm_HSM2Dongle__exit_app (VObj "HSM2Dongle" [])) (fun _ => MV.POk (VList [VInt 1; VList []])))
            false [XCls EXC_HSM2DongleCommError] (fun _ => MV.POk (VList [VInt 1; VList []])) K w =
  mres G (bind (exit_app_tolerant lad) kk w).
Proof.
  intros -> HK. unfold MV.ptry_k, MV.pbind, mbind. rewrite srcm_exit_app_ok.
  unfold exit_app_tolerant, try_catch, bind, mres at 1.
  destruct (exit_app w) as [[u|e] w1]; cbn [fst snd].
  - destruct u. apply HK.
  - cbn [existsb xpat_matches orb apply_ladder].
    destruct e; try reflexivity; apply HK.
Qed.

Section WithEnv.
Variable kind : dongle_kind.
Variable init : pm pv.

Theorem srcm_signer_heartbeat_handler_ok : forall (self : pv) (req : obj) (ud_hex : str) (w : world),
  init_ok kind init ->
  jget (s "udValue") req = Some (JStr ud_hex) ->
  srcm_HSM2ProtocolLedger___signer_heartbeat init self (of_obj req) w =
  mres rtuple_pv (op_signer_heartbeat kind req w).
Proof.
  intros self req ud_hex w Hinit Hud.
  unfold srcm_HSM2ProtocolLedger___signer_heartbeat, op_signer_heartbeat, with_ladder.
  rewrite pbind_POk.
  apply ptry_k_mres with (f := hb_out)
    (mm := bind (ensure_connection kind) (fun _ => on_hex get_signer_heartbeat ud_hex))
    (res := hb_reply (codes_of V5)).
  - unfold MV.pbind at 1.
    apply mres_bind with (f := fun _ : unit => VNone).
    + apply srcm_ensure_connection_ok. exact Hinit.
    + intros u w1. unfold MV.py_getitem at 1. rewrite py_getitem_of_obj, Hud. cbn [of_json].
      rewrite lift_POk, pbind_POk. unfold MV.pbind at 1, mbind at 1.
      rewrite srcm_get_signer_heartbeat_ok. unfold mres.
      destruct (on_hex get_signer_heartbeat ud_hex w1) as [[h|e] w2]; cbn [fst snd]; [|reflexivity].
      apply hb_tail_ok.
  - unfold bind, ret, hex_field, jstr_field, on_hex. rewrite Hud. unfold bind, ret, of_opt.
    destruct (ensure_connection kind w) as [[u|e] w1]; [|reflexivity].
    destruct (fromhex ud_hex) as [ud|]; [|reflexivity].
    unfold ret. destruct (get_signer_heartbeat ud w1) as [[h|e] w2]; reflexivity.
  - intros h w1. reflexivity.
  - intros e w1. destruct e; reflexivity.
Qed.

Theorem srcm_ui_heartbeat_handler_ok : forall (self : pv) (req : obj) (ud_hex : str) (w : world),
  init_ok kind init ->
  jget (s "udValue") req = Some (JStr ud_hex) ->
  srcm_HSM2ProtocolLedger___ui_heartbeat init self (of_obj req) w =
  mres rtuple_pv (op_ui_heartbeat kind req w).
Proof.
  intros self req ud_hex w Hinit Hud.
  unfold srcm_HSM2ProtocolLedger___ui_heartbeat, op_ui_heartbeat, with_ladder.
  rewrite !pbind_POk. cbv zeta.
  set (F := fun r : rtuple => VList [VInt 2; rtuple_pv r]).
  match goal with |- _ = mres _ (try_catch ?mb _ _) =>
    apply ptry_k_mres with (f := F) (mm := mb) (res := fun r => r) end.
  - unfold MV.pbind at 1.
    apply mres_bind with (f := fun _ : unit => VNone).
    { apply srcm_ensure_connection_ok. exact Hinit. }
    intros u w1. unfold MV.pbind at 1.
    apply mres_bind with (f := vN).
    { apply srcm_get_current_mode_ok. }
    intros m0 w2.
    rewrite pbind_POk. unfold MV.py_not_in.
    change (VList [VInt 3; VInt 4]) with (VList (map (fun n => VInt (Z.of_N n)) [3; 4])).
    unfold vN at 1. rewrite ValLemmasM.py_not_in_N_list, vbool_lift_POk, pif_POk. cbn [py_truth].
    change [MODE_SIGNER; MODE_UI_HEARTBEAT] with [3; 4].
    destruct (negb (mem_N m0 [3; 4])); [reflexivity|].
    change (VInt 3) with (vN 3). rewrite mv_py_eq_N, pif_POk. cbn [py_truth].
    change MODE_SIGNER with 3. change MODE_UI_HEARTBEAT with 4.
    change (VInt 4) with (vN 4).
    destruct (m0 =? 3).
    + (* the signer is running: leave it, expect the UI in heartbeat mode *)
      rewrite bind_assoc_run. apply exit_tolerant_step; [reflexivity|]. intros w3. cbv beta iota.
      rewrite bind_assoc_run. unfold MV.pbind at 1.
      apply mres_bind with (f := fun _ : unit => VNone); [apply srcm_wait_and_reconnect_ok|].
      intros u1 w4. rewrite bind_assoc_run. unfold MV.pbind at 1.
      apply mres_bind with (f := vN); [apply srcm_get_current_mode_ok|].
      intros m1 w5. rewrite bind_ret_run, mv_py_ne_N, pif_POk. cbn [py_truth].
      destruct (m1 =? 4); cbn [negb]; [|reflexivity].
      rewrite (hex_field_bind _ _ _ _ _ Hud). unfold MV.pbind at 1.
      apply mres_bind with (f := hb_res); [apply hb_fetch_ui_ok; exact Hud|].
      intros h w6. rewrite pif_POk. cbn [py_truth].
      rewrite bind_assoc_run. apply exit_tolerant_step; [reflexivity|]. intros w7. cbv beta iota.
      rewrite bind_assoc_run. unfold MV.pbind at 1.
      apply mres_bind with (f := fun _ : unit => VNone); [apply srcm_wait_and_reconnect_ok|].
      intros u2 w8. rewrite bind_assoc_run. unfold MV.pbind at 1.
      apply mres_bind with (f := vN); [apply srcm_get_current_mode_ok|].
      intros m2 w9. rewrite bind_ret_run, mv_py_ne_N, pif_POk. cbn [py_truth].
      destruct (m2 =? 3); cbn [negb]; [|reflexivity].
      exact (hb_tail_ok h w9).
    + (* already the UI in heartbeat mode *)
      rewrite bind_ret_run. cbn [negb].
      rewrite (hex_field_bind _ _ _ _ _ Hud). unfold MV.pbind at 1.
      apply mres_bind with (f := hb_res); [apply hb_fetch_ui_ok; exact Hud|].
      intros h w3. rewrite pif_POk. cbn [py_truth].
      rewrite bind_ret_run. cbn [negb].
      exact (hb_tail_ok h w3).
  - apply eq_sym, bind_ret_r.
  - intros r w1. reflexivity.
  - intros e w1. destruct e; reflexivity.
Qed.

End WithEnv.
