(* Refinement lemmas, part 2: comm/protocol.py and comm/protocol_v1.py - the validators, the
   validation dispatch and the request gate (__internal_handle_request) as translated from the
   Python source text compute what Model/CommProtocol.v computes. *)
From PowHsm Require Import Gen.Src Model.CommProtocol Proofs.SrcEquivBase.
From PowHsm Require Import Proofs.ValLemmasProto.

(* ---------- helpers ---------- *)

(* follow the nesting of conditionals on the left-hand side, one test at a time *)
Ltac crunch :=
  kit; jnorm; kit; cbn [py_eq_str py_eq_int]; try reflexivity;
  match goal with
  | |- (if match jget ?k ?m with _ => _ end then _ else _) = _ =>
      destruct (jget k m) as [[]|] eqn:?; crunch
  | |- (if ?b then _ else _) = _ => destruct b eqn:?; crunch
  | _ => idtac
  end.

(* the item test of an all(...) over a JSON list: [p] is the model's test *)
Ltac item_test :=
  let j := fresh "j" in
  intros j; intros; kit; rewrite ?py_type_of_json, ?src_is_nonempty_hex_string_ok;
  destruct j; reflexivity.

Ltac all_by p := rewrite ?py_all_in_arr; rewrite (py_all_map_forallb _ p) by item_test.

Definition nonempty_hex_item (j : json) : bool :=
  match j with JStr x => is_nonempty_hex_string x | _ => false end.

Lemma is_hex_string_of_length_N : forall (j : json) (n : N) (z : Z),
  z = Z.of_N n ->
  src_comm_utils__is_hex_string_of_length (of_json j) (VInt z) (VBool false) =
  POk (VBool (match j with JStr x => is_hex_string_of_length x n | _ => false end)).
Proof. intros j n z ->. apply src_is_hex_string_of_length_ok. Qed.

Lemma has_hex_field_32 : forall (mp : obj) (name : str),
  src_comm_utils__has_hex_field_of_length (of_obj mp) (VStr name) (VInt 32) =
  POk (VBool (has_hex_field_of_length mp name 32)).
Proof. intros mp name. exact (src_has_hex_field_of_length_ok mp name 32). Qed.

(* the validators answer 0 or their one error code *)
Lemma validate_key_id_cases : forall c req,
  validate_key_id c req = 0%Z \/ validate_key_id c req = c_invalid_keyid c.
Proof.
  intros c req. unfold validate_key_id.
  destruct (jget (s "keyId") req) as [[]|]; auto.
  destruct (bip32_path x); auto.
Qed.

Lemma validate_message_cases : forall c req w,
  validate_message c req w = 0%Z \/ validate_message c req w = c_invalid_message c.
Proof.
  intros c req w. unfold validate_message.
  destruct (jget (s "message") req) as [[]|]; auto.
  repeat match goal with |- (if ?b then _ else _) = _ \/ _ => destruct b; auto end.
Qed.

(* a heartbeat validator, for either size *)
Ltac heartbeat_proof n :=
  unfold validate_heartbeat;
  rewrite py_not_in_obj, !py_getitem_obj; unfold jhas;
  let j := fresh "j" in
  match goal with |- context [jget ?k ?m] => destruct (jget k m) as [j|] eqn:? end;
  kit; [|reflexivity];
  rewrite py_type_of_json, (is_hex_string_of_length_N j n) by reflexivity;
  destruct j; kit; try reflexivity;
  match goal with |- context [is_hex_string_of_length ?x ?k] => destruct (is_hex_string_of_length x k) end;
  reflexivity.

(* the key id validator, for either class *)
Ltac key_id_proof :=
  unfold validate_key_id;
  rewrite py_not_in_obj, !py_getitem_obj; unfold jhas;
  let j := fresh "j" in
  match goal with |- context [jget ?k ?m] => destruct (jget k m) as [j|] eqn:? end;
  [|reflexivity];
  kit; rewrite py_type_of_json;
  destruct j; kit; try reflexivity;
  jnorm; rewrite src_bip32_path_ok;
  match goal with |- context [bip32_path ?x] => destruct (bip32_path x) end; kit;
  [rewrite py_setitem_obj; reflexivity | reflexivity].

(* ---------- validators, v5 class ---------- *)

Lemma src_validate_key_id_v5 : forall (self : pv) (req : obj),
  src_HSM2Protocol___validate_key_id self (of_obj req) = POk (VInt (validate_key_id (codes_of V5) req)).
Proof.
  intros self req. unfold src_HSM2Protocol___validate_key_id. key_id_proof.
Qed.

Lemma src_validate_auth_v5 : forall (self : pv) (req : obj) (mandatory : bool),
  src_HSM2Protocol___validate_auth self (of_obj req) (VBool mandatory) =
  POk (VInt (validate_auth (codes_of V5) req mandatory)).
Proof.
  intros self req mandatory. unfold src_HSM2Protocol___validate_auth, validate_auth.
  rewrite py_not_in_obj, !py_getitem_obj. unfold jhas.
  destruct (jget (s "auth") req) as [j|] eqn:E; kit.
  2: { destruct mandatory; reflexivity. }
  rewrite py_type_of_json. destruct j; kit; try reflexivity.
  jnorm. rewrite !py_not_in_obj, !py_getitem_obj. unfold has_nonempty_hex_field, jhas.
  destruct (jget (s "receipt") kv) as [r|] eqn:Er; kit; [|reflexivity].
  rewrite py_type_of_json, src_is_nonempty_hex_string_ok.
  destruct r; kit; try reflexivity.
  destruct (is_nonempty_hex_string x); kit; [|reflexivity].
  destruct (jget (s "receipt_merkle_proof") kv) as [p|] eqn:Ep; kit; [|reflexivity].
  rewrite py_type_of_json. destruct p; kit; try reflexivity.
  rewrite py_len_arr. kit. rewrite Z_of_nat_len_eqb_0.
  destruct l as [|a l]; kit; [reflexivity|].
  all_by nonempty_hex_item.
  change (forallb nonempty_hex_item (a :: l)) with (all_nonempty_hex_strs (a :: l)). kit.
  destruct (all_nonempty_hex_strs (a :: l)); reflexivity.
Qed.

Definition what_val (w : msg_kind) : pv :=
  VStr (match w with WAny => s "any" | WHash => s "hash" | WTx => s "tx" end).

Lemma what_in_any_hash : forall w,
  py_in (what_val w) (VList [VStr (s "any"); VStr (s "hash")]) =
  POk (match w with WTx => false | _ => true end).
Proof. intros []; vm_compute; reflexivity. Qed.

Lemma what_in_any_tx : forall w,
  py_in (what_val w) (VList [VStr (s "any"); VStr (s "tx")]) =
  POk (match w with WHash => false | _ => true end).
Proof. intros []; vm_compute; reflexivity. Qed.

Lemma src_validate_message_v5 : forall (self : pv) (req : obj) (w : msg_kind),
  src_HSM2Protocol___validate_message self (of_obj req) (what_val w) =
  POk (VInt (validate_message (codes_of V5) req w)).
Proof.
  intros self req w. unfold src_HSM2Protocol___validate_message, validate_message.
  rewrite py_not_in_obj, !py_getitem_obj. unfold jhas.
  destruct (jget (s "message") req) as [j|] eqn:E; kit; [|reflexivity].
  rewrite py_type_of_json. destruct j; kit; try reflexivity.
  jnorm. rewrite what_in_any_hash, !what_in_any_tx, !py_len_obj.
  rewrite has_hex_field_32, !src_has_nonempty_hex_field_ok, !src_has_field_of_type_int_ok,
    !src_has_field_of_type_str_ok, !py_getitem_obj.
  kit. rewrite Z_of_nat_eqb_1, Z_of_nat_eqb_3, Z_of_nat_eqb_5.
  unfold has_int_field, has_input_field, has_str_field, SIGN_INPUT_RANGE_CHECKED, MAX_U64.
  (* the three alternatives (hash / legacy tx / segwit tx), each a conjunction *)
  match goal with
  | |- pif ?c1 _ (pif ?c2 _ (pif ?c3 _ _)) =
       POk (VInt (if ?b1 then _ else if ?b2 then _ else if ?b3 then _ else _)) =>
      assert (H1 : c1 = POk (VBool b1)); [clear; crunch|];
      assert (H2 : c2 = POk (VBool b2)); [clear; crunch|];
      assert (H3 : c3 = POk (VBool b3)); [clear; crunch|]
  end.
  rewrite H1, H2, H3; kit.
  match goal with
  | |- _ = POk (VInt (if ?b1 then _ else if ?b2 then _ else if ?b3 then _ else _)) =>
      destruct b1; [reflexivity|]; destruct b2; [reflexivity|]; destruct b3; reflexivity
  end.
Qed.

Lemma src_validate_get_pubkey_v5 : forall (self : pv) (req : obj),
  src_HSM2Protocol___validate_get_pubkey self (of_obj req) = POk (VInt (validate_key_id (codes_of V5) req)).
Proof.
  intros self req. unfold src_HSM2Protocol___validate_get_pubkey.
  rewrite src_validate_key_id_v5. kit.
  destruct (validate_key_id_cases (codes_of V5) req) as [H|H]; rewrite H; reflexivity.
Qed.

Lemma src_validate_sign_v5 : forall (self : pv) (req : obj),
  src_HSM2Protocol___validate_sign self (of_obj req) = POk (VInt (validate_sign_v5 (codes_of V5) req)).
Proof.
  intros self req. unfold src_HSM2Protocol___validate_sign, validate_sign_v5.
  change (VStr (s "any")) with (what_val WAny).
  rewrite src_validate_key_id_v5, src_validate_auth_v5, src_validate_message_v5. kit.
  destruct (validate_key_id (codes_of V5) req <? 0)%Z; [reflexivity|].
  destruct (validate_auth (codes_of V5) req false <? 0)%Z; [reflexivity|].
  destruct (validate_message_cases (codes_of V5) req WAny) as [H|H]; rewrite H; reflexivity.
Qed.

Lemma src_validate_advance_blockchain_v5 : forall (self : pv) (req : obj),
  src_HSM2Protocol___validate_advance_blockchain self (of_obj req) =
  POk (VInt (validate_advance_blockchain (codes_of V5) req)).
Proof.
  intros self req.
  unfold src_HSM2Protocol___validate_advance_blockchain, validate_advance_blockchain.
  rewrite !py_not_in_obj, !py_getitem_obj. unfold jhas.
  destruct (jget (s "blocks") req) as [b|] eqn:Eb; kit; [|reflexivity].
  rewrite !py_type_of_json. destruct b; kit; try reflexivity.
  rewrite !py_len_arr. kit. rewrite Z_of_nat_len_eqb_0.
  destruct l as [|b0 bl]; kit; [reflexivity|].
  all_by is_jstr. fold (all_strs (b0 :: bl)). kit.
  destruct (all_strs (b0 :: bl)); kit; [|reflexivity].
  destruct (jget (s "brothers") req) as [br|] eqn:Er; kit; [|reflexivity].
  rewrite !py_type_of_json. destruct br; kit; try reflexivity.
  rewrite !py_len_arr. kit. rewrite Z_of_nat_eqb.
  destruct (Nat.eqb (length l) (length (b0 :: bl))); kit; [|reflexivity].
  all_by is_jarr. kit.
  destruct (forallb is_jarr l) eqn:Ha; kit; [|reflexivity].
  rewrite ?py_all_in_arr. rewrite (py_all_nested _ nonempty_hex_item l Ha) by item_test. kit.
  match goal with
  | |- _ = POk (VInt (if forallb ?p l then _ else _)) =>
      change (forallb p l)
        with (forallb (fun b => match b with JArr l' => forallb nonempty_hex_item l' | _ => false end) l);
      destruct (forallb (fun b => match b with JArr l' => forallb nonempty_hex_item l' | _ => false end) l)
  end; reflexivity.
Qed.

Lemma src_validate_update_ancestor_block_v5 : forall (self : pv) (req : obj),
  src_HSM2Protocol___validate_update_ancestor_block self (of_obj req) =
  POk (VInt (validate_update_ancestor_block (codes_of V5) req)).
Proof.
  intros self req.
  unfold src_HSM2Protocol___validate_update_ancestor_block, validate_update_ancestor_block.
  rewrite !py_not_in_obj, !py_getitem_obj. unfold jhas.
  destruct (jget (s "blocks") req) as [b|] eqn:Eb; kit; [|reflexivity].
  rewrite !py_type_of_json. destruct b; kit; try reflexivity.
  rewrite !py_len_arr. kit.
  change (Z.of_nat (length l) <? 1)%Z with (Z.of_nat (length l) <? Z.of_N MINIMUM_UPDATE_ANCESTOR_BLOCKS)%Z.
  rewrite Z_of_nat_ltb_N. unfold nlen.
  destruct (N.of_nat (length l) <? MINIMUM_UPDATE_ANCESTOR_BLOCKS); kit; [reflexivity|].
  all_by is_jstr. fold (all_strs l). kit.
  destruct (all_strs l); reflexivity.
Qed.

Lemma src_validate_signer_heartbeat_v5 : forall (self : pv) (req : obj),
  src_HSM2Protocol___validate_signer_heartbeat self (of_obj req) =
  POk (VInt (validate_heartbeat (codes_of V5) req SIGNER_HBT_UD_VALUE_SIZE)).
Proof.
  intros self req. unfold src_HSM2Protocol___validate_signer_heartbeat.
  heartbeat_proof SIGNER_HBT_UD_VALUE_SIZE.
Qed.

Lemma src_validate_ui_heartbeat_v5 : forall (self : pv) (req : obj),
  src_HSM2Protocol___validate_ui_heartbeat self (of_obj req) =
  POk (VInt (validate_heartbeat (codes_of V5) req UI_HBT_UD_VALUE_SIZE)).
Proof.
  intros self req. unfold src_HSM2Protocol___validate_ui_heartbeat.
  heartbeat_proof UI_HBT_UD_VALUE_SIZE.
Qed.

(* ---------- validators, v1 class (inherited methods re-translated with the v1 constants) ---------- *)

Lemma src_validate_key_id_v1 : forall (self : pv) (req : obj),
  src_HSM1Protocol___validate_key_id self (of_obj req) = POk (VInt (validate_key_id (codes_of V1) req)).
Proof.
  intros self req. unfold src_HSM1Protocol___validate_key_id. key_id_proof.
Qed.

Lemma src_validate_get_pubkey_v1 : forall (self : pv) (req : obj),
  src_HSM1Protocol___validate_get_pubkey self (of_obj req) = POk (VInt (validate_key_id (codes_of V1) req)).
Proof.
  intros self req. unfold src_HSM1Protocol___validate_get_pubkey.
  rewrite src_validate_key_id_v1. kit.
  destruct (validate_key_id_cases (codes_of V1) req) as [H|H]; rewrite H; reflexivity.
Qed.

Lemma src_validate_sign_v1 : forall (self : pv) (req : obj),
  src_HSM1Protocol___validate_sign self (of_obj req) = POk (VInt (validate_sign_v1 (codes_of V1) req)).
Proof.
  intros self req. unfold src_HSM1Protocol___validate_sign, validate_sign_v1.
  rewrite src_validate_key_id_v1. kit.
  destruct (validate_key_id (codes_of V1) req <? 0)%Z; [reflexivity|].
  rewrite py_not_in_obj, !py_getitem_obj. unfold jhas.
  destruct (jget (s "message") req) as [j|] eqn:E; kit; [|reflexivity].
  rewrite py_type_of_json, (is_hex_string_of_length_N j 32) by reflexivity.
  destruct j; kit; try reflexivity.
  destruct (is_hex_string_of_length x 32); reflexivity.
Qed.

(* ---------- the validation dispatch ---------- *)

Ltac disp vn v lem :=
  intros _; exists vn, v; split; [reflexivity | split; [reflexivity | first [reflexivity | apply lem]]].

Lemma dispatch_v5 : forall (self : pv) (cmd : str) (req : obj),
  str_in cmd KNOWN_COMMANDS_V5 = true ->
  exists vn v, validator_name V5 cmd = Some vn /\ run_validator V5 vn req = Some v /\
               validation_dispatch_HSM2Protocol self (VStr cmd) (of_obj req) = POk (VInt v).
Proof.
  intros self cmd req.
  unfold str_in, KNOWN_COMMANDS_V5, validator_name, VALIDATE_V5, validation_dispatch_HSM2Protocol.
  cbn [existsb assoc_str].
  destruct (str_eqb cmd (s "version")) eqn:E1; cbn [orb].
  { disp (s "<lambda>") 0%Z I. }
  destruct (str_eqb cmd (s "sign")) eqn:E2; cbn [orb].
  { disp (s "_validate_sign") (validate_sign_v5 (codes_of V5) req) src_validate_sign_v5. }
  destruct (str_eqb cmd (s "getPubKey")) eqn:E3; cbn [orb].
  { disp (s "_validate_get_pubkey") (validate_key_id (codes_of V5) req) src_validate_get_pubkey_v5. }
  destruct (str_eqb cmd (s "advanceBlockchain")) eqn:E4; cbn [orb].
  { disp (s "_validate_advance_blockchain") (validate_advance_blockchain (codes_of V5) req)
         src_validate_advance_blockchain_v5. }
  destruct (str_eqb cmd (s "resetAdvanceBlockchain")) eqn:E5; cbn [orb].
  { disp (s "<lambda>") 0%Z I. }
  destruct (str_eqb cmd (s "blockchainState")) eqn:E6; cbn [orb].
  { disp (s "<lambda>") 0%Z I. }
  destruct (str_eqb cmd (s "updateAncestorBlock")) eqn:E7; cbn [orb].
  { disp (s "_validate_update_ancestor_block") (validate_update_ancestor_block (codes_of V5) req)
         src_validate_update_ancestor_block_v5. }
  destruct (str_eqb cmd (s "blockchainParameters")) eqn:E8; cbn [orb].
  { disp (s "<lambda>") 0%Z I. }
  destruct (str_eqb cmd (s "signerHeartbeat")) eqn:E9; cbn [orb].
  { disp (s "_validate_signer_heartbeat") (validate_heartbeat (codes_of V5) req SIGNER_HBT_UD_VALUE_SIZE)
         src_validate_signer_heartbeat_v5. }
  destruct (str_eqb cmd (s "uiHeartbeat")) eqn:E10; cbn [orb].
  { disp (s "_validate_ui_heartbeat") (validate_heartbeat (codes_of V5) req UI_HBT_UD_VALUE_SIZE)
         src_validate_ui_heartbeat_v5. }
  intros H. discriminate H.
Qed.

Lemma dispatch_v1 : forall (self : pv) (cmd : str) (req : obj),
  str_in cmd KNOWN_COMMANDS_V1 = true ->
  exists vn v, validator_name V1 cmd = Some vn /\ run_validator V1 vn req = Some v /\
               validation_dispatch_HSM1Protocol self (VStr cmd) (of_obj req) = POk (VInt v).
Proof.
  intros self cmd req.
  unfold str_in, KNOWN_COMMANDS_V1, validator_name, VALIDATE_V1, validation_dispatch_HSM1Protocol.
  cbn [existsb assoc_str].
  destruct (str_eqb cmd (s "version")) eqn:E1; cbn [orb].
  { disp (s "<lambda>") 0%Z I. }
  destruct (str_eqb cmd (s "sign")) eqn:E2; cbn [orb].
  { disp (s "_validate_sign") (validate_sign_v1 (codes_of V1) req) src_validate_sign_v1. }
  destruct (str_eqb cmd (s "getPubKey")) eqn:E3; cbn [orb].
  { disp (s "_validate_get_pubkey") (validate_key_id (codes_of V1) req) src_validate_get_pubkey_v1. }
  intros H. discriminate H.
Qed.

(* ---------- the gate ---------- *)

Definition reply_code (c : Z) : pv := VDict [(s "errorcode", VInt c)].

(* what __internal_handle_request does with the operation's (code, output) pair *)
Definition gate_tail (opres : pr pv) : pr pv :=
  pbind opres (fun operation_result =>
  pbind (py_getitem operation_result (VInt 0)) (fun result =>
  pif (vbool (py_cmp CLt result (VInt 0)))
      (POk (VDict [(s "errorcode", result)]))
      (pbind (py_getitem operation_result (VInt 1)) (fun output =>
       py_setitem output (VStr (s "errorcode")) result)))).

Definition gate_spec (m : pmode) (op : pv -> pv -> pr pv) (request : json) : pr pv :=
  match gate_request m request with
  | GReject c => POk (reply_code c)
  | GCrash e => PRaise e
  | GAccept cmd req => gate_tail (op (VStr cmd) (of_obj req))
  end.

(* what follows a successful validation is [gate_tail] of the operation's result *)
Ltac tail_proof :=
  unfold gate_tail;
  match goal with |- pbind ?o _ = _ => destruct o as [?|?|] end; cbn [pbind]; try reflexivity;
  match goal with |- pbind ?o _ = _ => destruct o as [?|?|] end; cbn [pbind]; try reflexivity;
  match goal with |- pif (vbool ?c) _ _ = _ => destruct c as [[]|?|] end;
  cbn [pbind pmap vbool pif py_truth]; try reflexivity;
  match goal with |- pbind ?o _ = _ => destruct o as [?|?|] end; cbn [pbind]; try reflexivity;
  apply pbind_ret.

(* the part of the gate after the version checks: the command's type, membership, validation *)
Ltac command_part known_in dispatch :=
  rewrite py_type_of_json;
  match goal with |- context [jty ?c] => destruct c end; cbn [hashable]; kit; try reflexivity;
  jnorm; unfold py_not_in; rewrite known_in; kit; unfold known_commands;
  let Ek := fresh "Ek" in let vn := fresh "vn" in let v := fresh "v" in
  let Hn := fresh "Hn" in let Hr := fresh "Hr" in let Hd := fresh "Hd" in
  match goal with |- context [str_in ?x ?l] => destruct (str_in x l) eqn:Ek end; kit; [|reflexivity];
  match goal with
  | |- context [validation_dispatch_HSM2Protocol ?self (VStr ?x) (of_obj ?kv)] =>
      destruct (dispatch self x kv Ek) as (vn & v & Hn & Hr & Hd)
  | |- context [validation_dispatch_HSM1Protocol ?self (VStr ?x) (of_obj ?kv)] =>
      destruct (dispatch self x kv Ek) as (vn & v & Hn & Hr & Hd)
  end;
  rewrite Hn, Hr, Hd; kit;
  destruct (v <? 0)%Z; kit; [reflexivity|];
  tail_proof.

(* the translated gate is the model's gate, for every JSON value and every operation table *)
Theorem src_gate_v5 : forall (op : pv -> pv -> pr pv) (self : pv) (request : json),
  src_HSM2Protocol____internal_handle_request op self (of_json request) = gate_spec V5 op request.
Proof.
  intros op self request.
  unfold src_HSM2Protocol____internal_handle_request, gate_spec, gate_request.
  unfold src_HSM2Protocol__format_error, src_HSM2Protocol___invalid_request, src_HSM2Protocol___wrong_version, src_HSM2Protocol___command_unknown.
  unfold KEY_COMMAND, KEY_VERSION, CMDNAME_VERSION_COMMAND.
  change (c_version (codes_of V5)) with 5%Z.
  kit. rewrite py_type_of_json.
  destruct request; kit; try reflexivity.
  jnorm. rewrite !py_not_in_obj, !py_in_obj, !py_getitem_obj. unfold jhas.
  destruct (jget (s "command") kv) as [command|] eqn:Ec; kit; [|reflexivity].
  rewrite py_ne_json_str. kit.
  destruct (py_eq_str command (s "version")) eqn:Eq; kit;
    (destruct (jget (s "version") kv) as [ver|] eqn:Ev; kit; try reflexivity);
    try (rewrite py_ne_json_int; kit; destruct (py_eq_int ver 5) eqn:Ei; kit; [|reflexivity]);
    command_part known_v5_in dispatch_v5.
Qed.

Theorem src_gate_v1 : forall (op : pv -> pv -> pr pv) (self : pv) (request : json),
  src_HSM1Protocol____internal_handle_request op self (of_json request) = gate_spec V1 op request.
Proof.
  intros op self request.
  unfold src_HSM1Protocol____internal_handle_request, gate_spec, gate_request.
  unfold src_HSM1Protocol__format_error, src_HSM1Protocol___invalid_request, src_HSM1Protocol___wrong_version, src_HSM1Protocol___command_unknown.
  unfold KEY_COMMAND, KEY_VERSION, CMDNAME_VERSION_COMMAND.
  change (c_version (codes_of V1)) with 1%Z.
  kit. rewrite py_type_of_json.
  destruct request; kit; try reflexivity.
  jnorm. rewrite !py_not_in_obj, !py_in_obj, !py_getitem_obj. unfold jhas.
  destruct (jget (s "command") kv) as [command|] eqn:Ec; kit; [|reflexivity].
  rewrite py_ne_json_str. kit.
  destruct (py_eq_str command (s "version")) eqn:Eq; kit;
    (destruct (jget (s "version") kv) as [ver|] eqn:Ev; kit; try reflexivity);
    try (rewrite py_ne_json_int; kit; destruct (py_eq_int ver 1) eqn:Ei; kit; [|reflexivity]);
    command_part known_v1_in dispatch_v1.
Qed.

(* consequences used by Properties/C02.v: a rejected request never reaches an operation, and the reply of a
   rejected request is exactly {"errorcode": code} *)
Corollary src_gate_rejected_no_operation : forall (m : pmode) (op1 op2 : pv -> pv -> pr pv) (self : pv) (request : json) (c : Z),
  gate_request m request = GReject c ->
  (match m with
   | V5 => src_HSM2Protocol____internal_handle_request op1 self (of_json request)
   | V1 => src_HSM1Protocol____internal_handle_request op1 self (of_json request) end) =
  (match m with
   | V5 => src_HSM2Protocol____internal_handle_request op2 self (of_json request)
   | V1 => src_HSM1Protocol____internal_handle_request op2 self (of_json request) end)
  /\
  (match m with
   | V5 => src_HSM2Protocol____internal_handle_request op1 self (of_json request)
   | V1 => src_HSM1Protocol____internal_handle_request op1 self (of_json request) end) = POk (reply_code c).
Proof.
  intros m op1 op2 self request c H.
  destruct m; rewrite ?src_gate_v5, ?src_gate_v1; unfold gate_spec; rewrite H; split; reflexivity.
Qed.
