(* Refinement theorems for the device-monad backend: the attestation gathering of the source -
   PowHsmAttestation.run of ledger/hsm2dongle_cmds/powhsm_attestation.py (signature, then the paged message and
   envelope with the legacy-header handling: a `for` with `break` around a `while`, a dictionary of buffers
   extended in place), its wrapper HSM2Dongle.get_powhsm_attestation, and HSM2Dongle.get_ui_attestation (hash,
   user-defined value, at most MAX_PAGES_UI_ATT_MESSAGE pages - the page-limit branch raises TypeError out of its
   own message formatting, which the translator now evaluates - then the attestation) - as translated from the
   Python source text (Gen/SrcM.v) run on every world exactly as the models of Model/Dongle.v. *)
From PowHsm Require Import Gen.SrcM Model.Dongle.
From PowHsm Require Import Proofs.ValLemmas Proofs.SrcEquivLedger Proofs.SrcEquivDongleM Proofs.SrcEquivHeartbeatM.
From PowHsm Require Import Proofs.ValLemmasM Proofs.ValLemmasAdmin Proofs.ValLemmasSign Proofs.ValLemmasProtoM.
From PowHsm Require Import Proofs.ValLemmasBlockM.
From Coq Require Import Lia.

Definition att_pv (a : attestation) : pv :=
  VDict [(s "app_hash", VStr (att_app_hash a)); (s "envelope", VStr (att_envelope a));
         (s "message", VStr (att_message a)); (s "signature", VStr (att_signature a))].

Definition ui_att_pv (a : attestation) : pv :=
  VDict [(s "app_hash", VStr (att_app_hash a)); (s "message", VStr (att_message a));
         (s "signature", VStr (att_signature a))].

(* ---------- the bodies of the paging loops, as the translator emitted them ---------- *)
Module AttBody.
Import MV.
Open Scope string_scope.
Open Scope list_scope.
Open Scope N_scope.

Definition patt_body (v_self v_op v_name : pv) : pv -> pm pv :=
  (fun st_ => match st_ with VList [v_result; v_more; v_msgoffset; v_brk; v_bufs; v_page] =>
  pif (POk v_more)
    (pbind (pbind (pbind (POk (VList [v_page])) (fun t11_ => py_bytes t11_)) (fun t10_ => srcm_PowHsmAttestation__send v_self v_op t10_ VNone)) (fun v_result =>
  pbind (pbind (py_getitem v_result (VInt (3)%Z)) (fun t12_ => vbool (py_eq t12_ (VInt (1)%Z)))) (fun v_more =>
  pif (py_and (vbool (py_eq v_name (VStr (s "message"))))
    (pbind (pbind (pbind (py_len (VBytes [72; 83; 77; 58; 83; 73; 71; 78; 69; 82; 58]%N)) (fun t15_ => py_add (VInt (3)%Z) t15_)) (fun t14_ => py_slice_v v_result (Some (VInt (3)%Z)) (Some t14_))) (fun t13_ => vbool (py_eq t13_ (VBytes [72; 83; 77; 58; 83; 73; 71; 78; 69; 82; 58]%N)))))
    (pbind (POk (VInt (0)%Z)) (fun v_msgoffset =>
  pbind (POk (VBool false)) (fun v_more =>
  pbind (POk (VBool true)) (fun v_brk =>
  pbind (POk v_name) (fun t16_ => pbind (py_getitem v_bufs t16_) (fun t17_ => pbind (pbind (py_add (VInt (3)%Z) v_msgoffset) (fun t20_ => py_slice_v v_result (Some t20_) None)) (fun t18_ => pbind (py_add t17_ t18_) (fun t19_ => pbind (py_setitem v_bufs t16_ t19_) (fun v_bufs =>
  pbind (POk (VInt (1)%Z)) (fun t21_ => pbind (py_add v_page t21_) (fun v_page =>
  POk (VList [VInt 0%Z; VList [v_result; v_more; v_msgoffset; v_brk; v_bufs; v_page]]))))))))))))
    (pbind (POk v_name) (fun t16_ => pbind (py_getitem v_bufs t16_) (fun t17_ => pbind (pbind (py_add (VInt (3)%Z) v_msgoffset) (fun t20_ => py_slice_v v_result (Some t20_) None)) (fun t18_ => pbind (py_add t17_ t18_) (fun t19_ => pbind (py_setitem v_bufs t16_ t19_) (fun v_bufs =>
  pbind (POk (VInt (1)%Z)) (fun t21_ => pbind (py_add v_page t21_) (fun v_page =>
  POk (VList [VInt 0%Z; VList [v_result; v_more; v_msgoffset; v_brk; v_bufs; v_page]]))))))))))))
    (POk (VList [VInt 1%Z; VList [v_result; v_more; v_msgoffset; v_brk; v_bufs; v_page]]))
   | _ => PStuck end).

Definition uiatt_body : pv -> pm pv :=
  (fun st_ => match st_ with VList [v_msg; v_data; v_response; v_page; v_message] =>
  pif (vbool (py_eq v_page (VInt (4)%Z)))
    (PRaise TypeError)
    (pbind (pbind (POk (VList [(VInt (2)%Z); v_page])) (fun t6_ => py_bytes t6_)) (fun v_data =>
  pbind (m_send_command (VInt (80)%Z) v_data) (fun v_response =>
  pbind (POk (VInt (1)%Z)) (fun t7_ => pbind (py_add v_page t7_) (fun v_page =>
  pbind (pbind (py_add (VInt (3)%Z) (VInt (1)%Z)) (fun t9_ => py_slice_v v_response (Some t9_) None)) (fun t8_ => pbind (py_add v_message t8_) (fun v_message =>
  pif (pbind (py_getitem v_response (VInt (3)%Z)) (fun t10_ => vbool (py_eq t10_ (VInt (0)%Z))))
    (POk (VList [VInt 1%Z; VList [v_msg; v_data; v_response; v_page; v_message]]))
    (POk (VList [VInt 0%Z; VList [v_msg; v_data; v_response; v_page; v_message]])))))))))
   | _ => PStuck end).

End AttBody.
Import AttBody.
Open Scope N_scope.

(* ---------- one exchange of the command class ---------- *)

Lemma att_send_ok (self : pv) (op : N) (d : bytes) (w : world) :
  op < 256 ->
  srcm_PowHsmAttestation__send self (vN op) (VBytes d) VNone w = mres VBytes (send_command 80 (op :: d) w).
Proof.
  intros Hop. unfold srcm_PowHsmAttestation__send, srcm_HSM2Dongle__send_command.
  rewrite pif_POk. cbn [py_truth]. rewrite !pbind_POk.
  rewrite (mv_py_bytes_single op Hop), pbind_POk, mv_py_add_bytes, pbind_POk.
  exact (m_send_command_mres 80 (op :: d) w).
Qed.

(* ---------- the paging loop of PowHsmAttestation.run ---------- *)

Definition nm (b : bool) : str := if b then s "message" else s "envelope".
Definition bufs (b : bool) (macc acc : bytes) : pv :=
  if b then VDict [(s "message", VBytes acc)]
  else VDict [(s "message", VBytes macc); (s "envelope", VBytes acc)].

Definition is_legacy (b : bool) (r : bytes) : bool :=
  b && bytes_eqb (slice r OFF_DATAn (OFF_DATAn + length PATT_LEGACY_HEADER)) PATT_LEGACY_HEADER.

Lemma bufs_get (b : bool) (macc acc : bytes) :
  MV.py_getitem (bufs b macc acc) (VStr (nm b)) = MV.POk (VBytes acc).
Proof. destruct b; reflexivity. Qed.

Lemma bufs_set (b : bool) (macc acc v : bytes) :
  MV.py_setitem (bufs b macc acc) (VStr (nm b)) (VBytes v) = MV.POk (bufs b macc v).
Proof. destruct b; reflexivity. Qed.

Lemma mv_slice_v_from (r : bytes) (a : Z) :
  (0 <= a)%Z -> MV.py_slice_v (VBytes r) (Some (VInt a)) None = MV.POk (VBytes (skipn (Z.to_nat a) r)).
Proof. intros H. unfold MV.py_slice_v. rewrite py_slice_v_bytes_from by exact H. reflexivity. Qed.

Lemma vN_succ (page : N) : MV.py_add (vN page) (VInt 1) = MV.POk (vN (page + 1)).
Proof. unfold vN. rewrite mv_py_add_int, N2Z.inj_add. reflexivity. Qed.

(* bufs[name] += result[3 + msgoffset:] ; page += 1 ; continue *)
Lemma patt_append (b : bool) (macc acc r : bytes) (page : N) (mo : Z) (more brk : pv) (w : world) :
  (0 <= mo)%Z ->
  MV.pbind (MV.POk (VStr (nm b)))
    (fun t16_ : pv =>
     MV.pbind (MV.py_getitem (bufs b macc acc) t16_)
       (fun t17_ : pv =>
        MV.pbind
          (MV.pbind (MV.py_add (VInt 3) (VInt mo))
             (fun t20_ : pv => MV.py_slice_v (VBytes r) (Some t20_) None))
          (fun t18_ : pv =>
           MV.pbind (MV.py_add t17_ t18_)
             (fun t19_ : pv =>
              MV.pbind (MV.py_setitem (bufs b macc acc) t16_ t19_)
                (fun v_bufs : pv =>
                 MV.pbind (MV.POk (VInt 1))
                   (fun t21_ : pv =>
                    MV.pbind (MV.py_add (vN page) t21_)
                      (fun v_page : pv =>
                       MV.POk (VList [VInt 0; VList [VBytes r; more; VInt mo; brk; v_bufs; v_page]])))))))) w =
  (XOk (VList [VInt 0; VList [VBytes r; more; VInt mo; brk;
                              bufs b macc (acc ++ skipn (Z.to_nat (3 + mo)) r); vN (page + 1)]]), w).
Proof.
  intros Hmo.
  rewrite pbind_POk, bufs_get, pbind_POk, mv_py_add_int, pbind_POk, mv_slice_v_from by lia.
  rewrite pbind_POk, mv_py_add_bytes, pbind_POk, bufs_set, !pbind_POk, vN_succ, pbind_POk.
  reflexivity.
Qed.

Lemma patt_body_step (self res : pv) (op page : N) (b : bool) (macc acc : bytes) (w : world) :
  op < 256 -> page < 256 ->
  patt_body self (vN op) (VStr (nm b))
            (VList [res; VBool true; VInt 1; VBool false; bufs b macc acc; vN page]) w =
  match send_command 80 [op; page] w with
  | (Exn e, w') => (XRaise e, w')
  | (Ok r, w') =>
      match idx r 3 with
      | None => (XRaise (Py IndexError), w')
      | Some m =>
          if is_legacy b r
          then (XOk (VList [VInt 0; VList [VBytes r; VBool false; VInt 0; VBool true;
                                           bufs b macc (acc ++ slice_from r 3); vN (page + 1)]]), w')
          else (XOk (VList [VInt 0; VList [VBytes r; VBool (m =? 1); VInt 1; VBool false;
                                           bufs b macc (acc ++ slice_from r 4); vN (page + 1)]]), w')
      end
  end.
Proof.
  intros Hop Hpage. unfold patt_body.
  rewrite pif_POk. cbn [py_truth]. rewrite !pbind_POk.
  rewrite (mv_py_bytes_single page Hpage), pbind_POk.
  unfold MV.pbind at 1, mbind at 1. rewrite (att_send_ok self op [page] w Hop). unfold mres.
  destruct (send_command 80 [op; page] w) as [[r|e] w1]; cbn [fst snd]; [|reflexivity].
  rewrite mv_getitem_bytes3.
  destruct (idx r 3) as [m|]; [|reflexivity].
  rewrite pbind_POk. change (VInt 1) with (vN 1) at 1. rewrite mv_py_eq_N, pbind_POk.
  unfold is_legacy.
  destruct b.
  - unfold nm. unfold MV.py_eq at 1. rewrite py_eq_str. change (str_eqb (s "message") (s "message")) with true.
    rewrite vbool_lift_POk, py_and_POk. cbn [py_truth].
    rewrite mv_py_len_bytes. change (Z.of_N (nlen [72; 83; 77; 58; 83; 73; 71; 78; 69; 82; 58])) with 11%Z.
    rewrite pbind_POk, mv_py_add_int, pbind_POk.
    unfold MV.py_slice_v at 1. change (VInt (3 + 11)) with (VInt (3 + 11)%Z).
    rewrite (py_slice_v_bytes_range r 3 11) by lia.
    rewrite lift_POk, pbind_POk.
    unfold MV.py_eq at 1. cbn [py_eq]. rewrite vbool_lift_POk, pif_POk. cbn [py_truth andb].
    change (slice r OFF_DATAn (OFF_DATAn + Datatypes.length PATT_LEGACY_HEADER))
      with (firstn (Z.to_nat 11) (skipn (Z.to_nat 3) r)).
    change PATT_LEGACY_HEADER with [72; 83; 77; 58; 83; 73; 71; 78; 69; 82; 58].
    destruct (bytes_eqb _ _).
    + rewrite !pbind_POk. exact (patt_append true macc acc r page 0 _ _ w1 ltac:(lia)).
    + exact (patt_append true macc acc r page 1 _ _ w1 ltac:(lia)).
  - unfold nm at 1. unfold MV.py_eq at 1. rewrite py_eq_str.
    change (str_eqb (s "envelope") (s "message")) with false.
    rewrite vbool_lift_POk, py_and_POk. cbn [py_truth]. rewrite pif_POk. cbn [py_truth andb].
    exact (patt_append false macc acc r page 1 _ _ w1 ltac:(lia)).
Qed.


Lemma patt_body_exit (self op name res mo brk bf page : pv) (w : world) :
  patt_body self op name (VList [res; VBool false; mo; brk; bf; page]) w =
  (XOk (VList [VInt 1; VList [res; VBool false; mo; brk; bf; page]]), w).
Proof. reflexivity. Qed.

Lemma while_exit1 (f : nat) (st st' : pv) (body : pv -> pm pv) (w w' : world) :
  body st w = (XOk (VList [VInt 1; st']), w') ->
  MV.py_while (S f) st body w = (XOk (VList [VInt 1; st']), w').
Proof. intros H. cbn [MV.py_while]. unfold mbind. rewrite H. reflexivity. Qed.

Lemma while_cont (f : nat) (st st' : pv) (body : pv -> pm pv) (w w' : world) :
  body st w = (XOk (VList [VInt 0; st']), w') ->
  MV.py_while (S f) st body w = MV.py_while f st' body w'.
Proof. intros H. cbn [MV.py_while]. unfold mbind. rewrite H. reflexivity. Qed.

Lemma while_raise (f : nat) (st : pv) (body : pv -> pm pv) (w w' : world) (e : exn) :
  body st w = (XRaise e, w') ->
  MV.py_while (S f) st body w = (XRaise e, w').
Proof. intros H. cbn [MV.py_while]. unfold mbind. rewrite H. reflexivity. Qed.

(* the source's `while more` against the model's patt_pages: both fuels exceed the script's length, and the page
   number stays a byte because the script is short enough *)
Lemma patt_loop (self : pv) (op : N) (b : bool) (macc : bytes) :
  op < 256 ->
  forall (fm fs : nat) (page : N) (acc : bytes) (res : pv) (w : world),
  (length (script w) < fm)%nat -> (length (script w) < fs)%nat ->
  (N.to_nat page + length (script w) <= 255)%nat ->
  match patt_pages fm op b page acc w with
  | (Ok (acc', lg), w') =>
      (length (script w') <= length (script w))%nat /\
      exists res' pg',
        MV.py_while fs (VList [res; VBool true; VInt 1; VBool false; bufs b macc acc; vN page])
                    (patt_body self (vN op) (VStr (nm b))) w =
        (XOk (VList [VInt 1; VList [res'; VBool false; VInt (if lg then 0 else 1); VBool lg;
                                    bufs b macc acc'; pg']]), w')
  | (Exn e, w') =>
      MV.py_while fs (VList [res; VBool true; VInt 1; VBool false; bufs b macc acc; vN page])
                  (patt_body self (vN op) (VStr (nm b))) w = (XRaise e, w')
  end.
Proof.
  intros Hop fm. induction fm as [|fm IH]; intros fs page acc res w Hfm Hfs Hpg; [lia|].
  destruct fs as [|fs]; [lia|].
  assert (Hpage : page < 256) by lia.
  pose proof (patt_body_step self res op page b macc acc w Hop Hpage) as Hstep.
  cbn [patt_pages]. unfold bind at 1. change PATT_COMMAND with 80.
  destruct (send_command 80 [op; page] w) as [[r|e] w1] eqn:Esend.
  2:{ apply while_raise. exact Hstep. }
  pose proof (send_ok_script _ _ _ _ _ Esend) as Hlen.
  unfold bind at 1, idxM, of_opt. change OFF_DATAn with 3%nat.
  destruct (idx r 3) as [m|].
  2:{ unfold raise. apply while_raise. exact Hstep. }
  unfold ret at 1. fold (is_legacy b r).
  change (slice r 3 (3 + Datatypes.length PATT_LEGACY_HEADER)) with (slice r OFF_DATAn (OFF_DATAn + Datatypes.length PATT_LEGACY_HEADER)).
  fold (is_legacy b r).
  destruct (is_legacy b r).
  - unfold ret. split; [lia|]. eexists; eexists.
    rewrite (while_cont _ _ _ _ _ _ Hstep).
    destruct fs as [|fs]; [lia|].
    apply while_exit1. apply patt_body_exit.
  - destruct (m =? 1).
    + specialize (IH fs (page + 1) (acc ++ slice_from r 4) (VBytes r) w1 ltac:(lia) ltac:(lia) ltac:(lia)).
      rewrite (while_cont _ _ _ _ _ _ Hstep).
      change (3 + 1)%nat with 4%nat.
      destruct (patt_pages fm op b (page + 1) (acc ++ slice_from r 4) w1) as [[[acc' lg]|e] w2].
      * destruct IH as [IH1 IH2]. split; [lia|exact IH2].
      * exact IH.
    + unfold ret. split; [lia|]. eexists; eexists.
      rewrite (while_cont _ _ _ _ _ _ Hstep).
      destruct fs as [|fs]; [lia|].
      apply while_exit1. apply patt_body_exit.
Qed.

(* ---------- sequencing at the level of runs ---------- *)

Lemma pp_assoc {A B C} (m : pm A) (f : A -> pm B) (g : B -> pm C) (w : world) :
  MV.pbind (MV.pbind m f) g w = MV.pbind m (fun a => MV.pbind (f a) g) w.
Proof. apply mbind_assoc'. Qed.
Lemma pm_assoc {A B C} (m : pm A) (f : A -> pm B) (g : B -> pm C) (w : world) :
  MV.pbind (mbind m f) g w = MV.pbind m (fun a => MV.pbind (f a) g) w.
Proof. apply mbind_assoc'. Qed.
Lemma pbind_run_ok {A B} (m : pm A) (f : A -> pm B) (w w' : world) (a : A) :
  m w = (XOk a, w') -> MV.pbind m f w = f a w'.
Proof. intros H. unfold MV.pbind, mbind. rewrite H. reflexivity. Qed.
Lemma pbind_run_raise {A B} (m : pm A) (f : A -> pm B) (w w' : world) (e : exn) :
  m w = (XRaise e, w') -> MV.pbind m f w = (XRaise e, w').
Proof. intros H. unfold MV.pbind, mbind. rewrite H. reflexivity. Qed.
Lemma mv_for_tb_list (l : list pv) (acc : pv) (body : pv -> pv -> pm pv) :
  MV.py_for_tb (VList l) acc body = MV.pfold_tb l acc body.
Proof. reflexivity. Qed.

Lemma att_get_ok (self : pv) (op : N) (d : bytes) (w : world) :
  op < 256 ->
  MV.pbind (srcm_PowHsmAttestation__send self (vN op) (VBytes d) VNone)
           (fun t => MV.py_slice t (Some 3%Z) None) w =
  mres (fun r => VBytes (slice_from r OFF_DATAn)) (send_command 80 (op :: d) w).
Proof.
  intros Hop. unfold MV.pbind, mbind. rewrite (att_send_ok self op d w Hop). unfold mres.
  destruct (send_command 80 (op :: d) w) as [[r|e] w1]; cbn [fst snd]; [|reflexivity].
  unfold MV.py_slice. rewrite py_slice_bytes_from by lia. reflexivity.
Qed.

(* the paging loops of the source run on explicit fuel: one more than the device script's length is enough.
   The page number is sent as one byte - bytes([page]) - which the translation evaluates for 0..255 only (Python
   raises ValueError beyond, the model sends the number as it is): the script must be short enough for the page
   number never to reach 256, i.e. at most 256 answers (with 257 the source is stuck where the model times out) *)
Theorem srcm_powhsm_attestation_run_ok : forall (fuel : nat) (self : pv) (ud_hex : str) (w : world),
  (S (length (script w)) <= fuel)%nat ->
  (length (script w) <= 256)%nat ->
  srcm_PowHsmAttestation__run fuel self (VStr ud_hex) w = mres att_pv (on_hex get_powhsm_attestation ud_hex w).
Proof.
  intros fuel self ud_hex w Hfuel Hlen.
  unfold srcm_PowHsmAttestation__run, on_hex.
  destruct (fromhex ud_hex) as [ud|] eqn:Eud.
  2:{ rewrite (mv_py_fromhex_none _ Eud), !pbind_PRaise. reflexivity. }
  rewrite (mv_py_fromhex _ _ Eud), pbind_POk.
  unfold get_powhsm_attestation. cbv zeta.
  set (fm := S (length (script w))).
  change PATT_COMMAND with 80. change PATT_OP_OP_GET with 1. change PATT_OP_OP_GET_MESSAGE with 2.
  change PATT_OP_OP_GET_ENVELOPE with 4. change PATT_OP_OP_APP_HASH with 3.
  rewrite (pbind_step _ _ _ _ _ (att_get_ok self 1 ud w eq_refl)).
  unfold bind at 1.
  destruct (send_command 80 (1 :: ud) w) as [[sg|e] w1] eqn:E1; [|reflexivity].
  pose proof (send_ok_script _ _ _ _ _ E1) as Hl1.
  rewrite !pbind_POk. rewrite mv_for_tb_list.
  match goal with |- context [MV.pfold_tb _ _ ?B] => set (FB := B) end.
  (* first turn of the `for`: the message pages *)
  assert (HB1 : forall w1 : world,
            (length (script w1) < fm)%nat -> (length (script w1) < fuel)%nat -> (length (script w1) <= 255)%nat ->
            match patt_pages fm 2 true 0 [] w1 with
            | (Ok (msg, lg), w2) =>
                (length (script w2) <= length (script w1))%nat /\
                exists a b c,
                  FB (VList [VDict []; VNone; VNone; VNone; VInt 1; VBool false])
                     (VList [VInt 2; VStr (s "message")]) w1 =
                  (XOk (VList [VInt 0; VList [bufs true [] msg; a; b; c; VInt (if lg then 0 else 1); VBool lg]]), w2)
            | (Exn e, w2) =>
                FB (VList [VDict []; VNone; VNone; VNone; VInt 1; VBool false])
                   (VList [VInt 2; VStr (s "message")]) w1 = (XRaise e, w2)
            end).
  { intros w0 H1 H2 H3. unfold FB. cbv beta iota. rewrite pif_POk. cbn [py_truth]. rewrite !pbind_POk.
    change (MV.py_setitem (VDict []) (VStr (s "message")) (VBytes [])) with (MV.POk (bufs true [] [])).
    rewrite !pbind_POk.
    match goal with |- context [MV.py_while fuel ?st ?bd] =>
      change (MV.py_while fuel st bd)
        with (MV.py_while fuel (VList [VNone; VBool true; VInt 1; VBool false; bufs true [] []; vN 0])
                          (patt_body self (vN 2) (VStr (nm true)))) end.
    pose proof (patt_loop self 2 true [] eq_refl fm fuel 0 [] VNone w0 H1 H2 ltac:(lia)) as HL.
    destruct (patt_pages fm 2 true 0 [] w0) as [[[msg lg]|e] w2].
    - destruct HL as [Hl [r' [p' Hw]]]. split; [exact Hl|].
      eexists; eexists; eexists. rewrite (pbind_run_ok _ _ _ _ _ Hw). reflexivity.
    - rewrite (pbind_run_raise _ _ _ _ _ HL). reflexivity. }
  (* second turn after a legacy message: the envelope is the message, and the `for` is left *)
  assert (HB2 : forall (msg : bytes) (a b c : pv) (w2 : world),
            FB (VList [bufs true [] msg; a; b; c; VInt 0; VBool true]) (VList [VInt 4; VStr (s "envelope")]) w2 =
            (XOk (VList [VInt 1; VList [bufs false msg msg; a; b; c; VInt 0; VBool true]]), w2)).
  { intros msg a b c w2. reflexivity. }
  (* second turn otherwise: the envelope pages *)
  assert (HB3 : forall (msg : bytes) (a b c : pv) (w2 : world),
            (length (script w2) < fm)%nat -> (length (script w2) < fuel)%nat -> (length (script w2) <= 255)%nat ->
            match patt_pages fm 4 false 0 [] w2 with
            | (Ok (env, lg), w3) =>
                exists a' b' c' d' e',
                  FB (VList [bufs true [] msg; a; b; c; VInt 1; VBool false])
                     (VList [VInt 4; VStr (s "envelope")]) w2 =
                  (XOk (VList [VInt 0; VList [bufs false msg env; a'; b'; c'; d'; e']]), w3)
            | (Exn e, w3) =>
                FB (VList [bufs true [] msg; a; b; c; VInt 1; VBool false])
                   (VList [VInt 4; VStr (s "envelope")]) w2 = (XRaise e, w3)
            end).
  { intros msg a b c w0 H1 H2 H3. unfold FB. cbv beta iota. rewrite pif_POk. cbn [py_truth]. rewrite !pbind_POk.
    change (MV.py_setitem (bufs true [] msg) (VStr (s "envelope")) (VBytes [])) with (MV.POk (bufs false msg [])).
    rewrite !pbind_POk.
    match goal with |- context [MV.py_while fuel ?st ?bd] =>
      change (MV.py_while fuel st bd)
        with (MV.py_while fuel (VList [c; VBool true; VInt 1; VBool false; bufs false msg []; vN 0])
                          (patt_body self (vN 4) (VStr (nm false)))) end.
    pose proof (patt_loop self 4 false msg eq_refl fm fuel 0 [] c w0 H1 H2 ltac:(lia)) as HL.
    destruct (patt_pages fm 4 false 0 [] w0) as [[[env lg]|e] w3].
    - destruct HL as [Hl [r' [p' Hw]]].
      do 5 eexists. rewrite (pbind_run_ok _ _ _ _ _ Hw). reflexivity.
    - rewrite (pbind_run_raise _ _ _ _ _ HL). reflexivity. }
  (* the end: signer hash, then the dictionary *)
  match goal with |- MV.pbind (MV.pfold_tb _ _ _) ?k _ = _ => set (K := k) end.
  assert (HE : forall (msg env : bytes) (a b c d e : pv) (w3 : world),
            K (VList [VInt 1; VList [bufs false msg env; a; b; c; d; e]]) w3 =
            mres att_pv (bind (send_command 80 [3])
                              (fun h => ret (mkAtt (hex (slice_from h OFF_DATAn)) (hex msg) (hex env)
                                                   (hex (slice_from sg OFF_DATAn)))) w3)).
  { intros msg env a b c d e w3. unfold K. cbv beta iota.
    rewrite (pbind_step _ _ _ _ _ (att_get_ok self 3 [] w3 eq_refl)). unfold bind.
    destruct (send_command 80 [3] w3) as [[h|ex] w4]; reflexivity. }
  clearbody K.
  cbn [MV.pfold_tb]. rewrite pm_assoc.
  specialize (HB1 w1 ltac:(lia) ltac:(lia) ltac:(lia)).
  unfold bind at 1.
  destruct (patt_pages fm 2 true 0 [] w1) as [[[msg lg]|e] w2].
  2:{ rewrite (pbind_run_raise _ _ _ _ _ HB1). reflexivity. }
  destruct HB1 as [Hl2 [a [b [c HB1]]]]. rewrite (pbind_run_ok _ _ _ _ _ HB1). cbv beta iota.
  destruct lg.
  - rewrite pm_assoc, (pbind_run_ok _ _ _ _ _ (HB2 msg a b c w2)). cbv beta iota.
    rewrite (pbind_run_ok (mret _) _ _ _ _ eq_refl). rewrite HE. reflexivity.
  - rewrite pm_assoc.
    specialize (HB3 msg a b c w2 ltac:(lia) ltac:(lia) ltac:(lia)).
    unfold bind at 1. unfold bind at 1.
    destruct (patt_pages fm 4 false 0 [] w2) as [[[env lg]|e] w3].
    2:{ rewrite (pbind_run_raise _ _ _ _ _ HB3). reflexivity. }
    destruct HB3 as [a' [b' [c' [d' [e' HB3]]]]]. rewrite (pbind_run_ok _ _ _ _ _ HB3). cbv beta iota.
    cbn [MV.pfold_tb]. rewrite (pbind_run_ok (mret _) _ _ _ _ eq_refl). rewrite HE. reflexivity.
Qed.

Theorem srcm_get_powhsm_attestation_ok : forall (fuel : nat) (self : pv) (ud_hex : str) (w : world),
  (S (length (script w)) <= fuel)%nat ->
  (length (script w) <= 256)%nat ->
  srcm_HSM2Dongle__get_powhsm_attestation fuel self (VStr ud_hex) w =
  mres att_pv (on_hex get_powhsm_attestation ud_hex w).
Proof.
  intros fuel self ud_hex w Hfuel Hlen. unfold srcm_HSM2Dongle__get_powhsm_attestation.
  apply srcm_powhsm_attestation_run_ok; assumption.
Qed.

(* ---------- HSM2Dongle.get_ui_attestation ---------- *)

Lemma ui_get_ok (op : N) (w : world) :
  op < 256 ->
  MV.pbind (MV.pbind (MV.pbind (MV.POk (VList [vN op])) (fun t => MV.py_bytes t))
                     (fun t => MV.m_send_command (VInt 80) t))
           (fun t => MV.py_slice t (Some 3%Z) None) w =
  mres (fun r => VBytes (slice_from r OFF_DATAn)) (send_command 80 [op] w).
Proof.
  intros Hop. rewrite pbind_POk, (mv_py_bytes_single op Hop), pbind_POk.
  unfold MV.pbind, mbind. change (VInt 80) with (VInt (Z.of_N 80)). rewrite (m_send_command_mres 80 [op] w). unfold mres.
  destruct (send_command 80 [op] w) as [[r|e] w1]; cbn [fst snd]; [|reflexivity].
  unfold MV.py_slice. rewrite py_slice_bytes_from by lia. reflexivity.
Qed.

Lemma mv_py_bytes_2p (n : N) : n < 256 -> MV.py_bytes (VList [VInt 2; vN n]) = MV.POk (VBytes [2; n]).
Proof.
  intros H. unfold MV.py_bytes, vN. cbn [map vint all_some].
  replace ((0 <=? Z.of_N n)%Z && (Z.of_N n <? 256)%Z) with true
    by (symmetry; apply andb_true_iff; split; [apply Z.leb_le|apply Z.ltb_lt]; lia).
  change ((0 <=? 2)%Z && (2 <? 256)%Z) with true. cbv iota. cbn [all_some].
  rewrite N2Z.id. reflexivity.
Qed.

Lemma uiatt_body_step (msg data resp : pv) (page : N) (acc : bytes) (w : world) :
  page < 256 ->
  uiatt_body (VList [msg; data; resp; vN page; VBytes acc]) w =
  if page =? 4 then (XRaise (Py TypeError), w) else
  match send_command 80 [2; page] w with
  | (Exn e, w') => (XRaise e, w')
  | (Ok r, w') =>
      match idx r 3 with
      | None => (XRaise (Py IndexError), w')
      | Some m => (XOk (VList [VInt (if m =? 0 then 1 else 0);
                               VList [msg; VBytes [2; page]; VBytes r; vN (page + 1);
                                      VBytes (acc ++ slice_from r 4)]]), w')
      end
  end.
Proof.
  intros Hpage. unfold uiatt_body.
  change (VInt 4) with (vN 4). rewrite mv_py_eq_N, pif_POk. cbn [py_truth].
  destruct (page =? 4); [reflexivity|].
  rewrite pbind_POk, (mv_py_bytes_2p page Hpage), pbind_POk.
  unfold MV.pbind at 1, mbind at 1. change (VInt 80) with (VInt (Z.of_N 80)).
  rewrite (m_send_command_mres 80 [2; page] w). unfold mres.
  destruct (send_command 80 [2; page] w) as [[r|e] w1]; cbn [fst snd]; [|reflexivity].
  rewrite pbind_POk, vN_succ, pbind_POk, mv_py_add_int, pbind_POk, mv_slice_v_from by lia.
  rewrite pbind_POk, mv_py_add_bytes, pbind_POk, mv_getitem_bytes3.
  destruct (idx r 3) as [m|]; [|reflexivity].
  rewrite pbind_POk. change (VInt 0) with (vN 0) at 1. rewrite mv_py_eq_N, pif_POk. cbn [py_truth].
  destruct (m =? 0); reflexivity.
Qed.


(* the source's `while True` against the model's ui_att_pages: the model's fuel counts the pages left before the
   limit, the source needs one turn more (the one that raises at the limit) *)
Lemma uiatt_loop :
  forall (fm fs : nat) (page : N) (acc : bytes) (msg data resp : pv) (w : world),
  (N.to_nat page + fm = 4)%nat -> (fm < fs)%nat ->
  match ui_att_pages fm page acc w with
  | (Ok acc', w') =>
      exists data' resp' pg',
        MV.py_while fs (VList [msg; data; resp; vN page; VBytes acc]) uiatt_body w =
        (XOk (VList [VInt 1; VList [msg; data'; resp'; pg'; VBytes acc']]), w')
  | (Exn e, w') =>
      MV.py_while fs (VList [msg; data; resp; vN page; VBytes acc]) uiatt_body w = (XRaise e, w')
  end.
Proof.
  induction fm as [|fm IH]; intros fs page acc msg data resp w Hpg Hfs;
    (destruct fs as [|fs]; [lia|]);
    pose proof (uiatt_body_step msg data resp page acc w ltac:(lia)) as Hstep.
  - replace (page =? 4) with true in Hstep by (symmetry; apply N.eqb_eq; lia).
    cbn [ui_att_pages]. unfold raise. apply while_raise. exact Hstep.
  - replace (page =? 4) with false in Hstep by (symmetry; apply N.eqb_neq; lia).
    cbn [ui_att_pages]. unfold bind at 1. change CMD_UI_ATT with 80. change UIATT_OP_OP_GET_MSG with 2.
    destruct (send_command 80 [2; page] w) as [[r|e] w1].
    2:{ apply while_raise. exact Hstep. }
    unfold bind at 1, idxM, of_opt. change OFF_DATAn with 3%nat.
    destruct (idx r 3) as [m|].
    2:{ unfold raise. apply while_raise. exact Hstep. }
    unfold ret at 1. change (3 + 1)%nat with 4%nat.
    destruct (m =? 0).
    + unfold ret. do 3 eexists. apply while_exit1. exact Hstep.
    + rewrite (while_cont _ _ _ _ _ _ Hstep).
      exact (IH fs (page + 1) (acc ++ slice_from r 4) msg (VBytes [2; page]) (VBytes r) w1 ltac:(lia) ltac:(lia)).
Qed.

Theorem srcm_get_ui_attestation_ok : forall (fuel : nat) (self : pv) (ud_hex : str) (w : world),
  (5 <= fuel)%nat ->
  srcm_HSM2Dongle__get_ui_attestation fuel self (VStr ud_hex) w = mres ui_att_pv (on_hex get_ui_attestation ud_hex w).
Proof.
  intros fuel self ud_hex w Hfuel.
  unfold srcm_HSM2Dongle__get_ui_attestation, on_hex.
  destruct (fromhex ud_hex) as [ud|] eqn:Eud.
  2:{ rewrite (mv_py_fromhex_none _ Eud), !pbind_PRaise. reflexivity. }
  rewrite (mv_py_fromhex _ _ Eud), pbind_POk.
  unfold get_ui_attestation.
  change CMD_UI_ATT with 80. change UIATT_OP_OP_APP_HASH with 4. change UIATT_OP_OP_UD_VALUE with 1.
  change UIATT_OP_OP_GET with 3. change (N.to_nat MAX_PAGES_UI_ATT_MESSAGE) with 4%nat.
  rewrite (pbind_step _ _ _ _ _ (ui_get_ok 4 w eq_refl)).
  unfold bind at 1.
  destruct (send_command 80 [4] w) as [[h|e] w1]; [|reflexivity].
  rewrite pbind_POk. change (MV.py_bytes (VList [VInt 1])) with (MV.POk (VBytes [1])).
  rewrite pbind_POk, mv_py_add_bytes, pbind_POk.
  change ([1] ++ ud) with (1 :: ud).
  unfold MV.pbind at 1, mbind at 1. change (VInt 80) with (VInt (Z.of_N 80)) at 1.
  rewrite (m_send_command_mres 80 (1 :: ud) w1). unfold mres at 1. unfold bind at 1.
  destruct (send_command 80 (1 :: ud) w1) as [[r1|e] w2]; cbn [fst snd]; [|reflexivity].
  rewrite !pbind_POk.
  match goal with |- context [MV.py_while fuel ?st ?bd] =>
    change (MV.py_while fuel st bd)
      with (MV.py_while fuel (VList [VNone; VBytes (1 :: ud); VNone; vN 0; VBytes []]) uiatt_body) end.
  pose proof (uiatt_loop 4 fuel 0 [] VNone (VBytes (1 :: ud)) VNone w2 eq_refl ltac:(lia)) as HL.
  unfold bind at 1.
  destruct (ui_att_pages 4 0 [] w2) as [[msg|e] w3].
  2:{ rewrite (pbind_run_raise _ _ _ _ _ HL). reflexivity. }
  destruct HL as [d' [r' [p' HL]]]. rewrite (pbind_run_ok _ _ _ _ _ HL). cbv beta iota.
  change (VInt 3) with (vN 3) at 1.
  rewrite (pbind_step _ _ _ _ _ (ui_get_ok 3 w3 eq_refl)).
  unfold bind.
  destruct (send_command 80 [3] w3) as [[a|e] w4]; reflexivity.
Qed.
