(* Arithmetic facts about the byte/integer codecs of Py.Base. *)
From PowHsm Require Import Py.Base.
From Coq Require Import ZifyBool ZifyNat ZifyN.
Ltac Zify.zify_post_hook ::= Z.to_euclidean_division_equations.

Lemma nlen_app {A} (a b : list A) : nlen (a ++ b) = nlen a + nlen b.
Proof. unfold nlen. rewrite app_length. lia. Qed.

Lemma nlen_cons {A} (x : A) l : nlen (x :: l) = 1 + nlen l.
Proof. unfold nlen. cbn [length]. lia. Qed.

Lemma from_bytes_be_app a b :
  from_bytes_be (a ++ b) = from_bytes_be a * 256 ^ nlen b + from_bytes_be b.
Proof.
  unfold from_bytes_be.
  assert (H : forall l acc, fold_left (fun acc x => acc * 256 + x) l acc
                            = acc * 256 ^ nlen l + fold_left (fun acc x => acc * 256 + x) l 0).
  { induction l as [|x l IH]; intros acc.
    - cbn. unfold nlen; cbn. lia.
    - cbn [fold_left]. rewrite IH. rewrite (IH (0 * 256 + x)).
      rewrite nlen_cons. rewrite N.pow_add_r. lia. }
  rewrite fold_left_app. rewrite H. reflexivity.
Qed.

Lemma from_bytes_be_single x : from_bytes_be [x] = x.
Proof. unfold from_bytes_be. cbn. lia. Qed.

Lemma from_bytes_le_le_bytes k n : from_bytes_le (le_bytes k n) = n mod 256 ^ N.of_nat k.
Proof.
  unfold from_bytes_le. revert n. induction k as [|k IH]; intro n.
  - cbn. rewrite N.mod_1_r. reflexivity.
  - cbn [le_bytes rev]. rewrite from_bytes_be_app. rewrite IH.
    rewrite from_bytes_be_single. unfold nlen. cbn [length].
    replace (N.of_nat (S k)) with (1 + N.of_nat k) by lia.
    rewrite N.pow_add_r. change (N.of_nat 1) with 1. change (256 ^ 1) with 256.
    assert (Hp : 256 ^ N.of_nat k <> 0) by (apply N.pow_nonzero; lia).
    rewrite N.mod_mul_r by lia.
    remember (256 ^ N.of_nat k) as P. lia.
Qed.

Lemma to_bytes_be_roundtrip k (z : Z) b :
  to_bytes_be k z = Some b -> Z.of_N (from_bytes_be b) = z /\ length b = k.
Proof.
  unfold to_bytes_be, to_bytes_le. destruct (z <? 0)%Z eqn:Hz; [discriminate|].
  destruct (Z.to_N z <? 256 ^ N.of_nat k) eqn:Hlt; [|discriminate].
  intro H; inversion H; subst b; clear H. split.
  - pose proof (from_bytes_le_le_bytes k (Z.to_N z)) as Hr. unfold from_bytes_le in Hr.
    rewrite Hr. rewrite N.mod_small by lia. lia.
  - rewrite rev_length. clear. revert z. induction k; intro z; cbn; [reflexivity|].
    f_equal. generalize (Z.to_N z). clear. intro n. revert n. induction k; intro n; cbn; auto.
Qed.

Lemma le_bytes_length k n : length (le_bytes k n) = k.
Proof. revert n; induction k; intro n; cbn; auto. Qed.

Lemma firstn_app_exact {A} (a b : list A) : firstn (length a) (a ++ b) = a.
Proof. induction a; cbn; [destruct b; reflexivity|f_equal; auto]. Qed.
Lemma skipn_app_exact {A} (a b : list A) : skipn (length a) (a ++ b) = b.
Proof. induction a; cbn; auto. Qed.

Lemma slice_first {A} (a b : list A) : slice (a ++ b) 0 (length a) = a.
Proof. unfold slice. rewrite Nat.sub_0_r. cbn [skipn]. apply firstn_app_exact. Qed.

Lemma slice_mid {A} (a b c : list A) :
  slice (a ++ b ++ c) (length a) (length a + length b) = b.
Proof.
  unfold slice. rewrite skipn_app_exact.
  replace (length a + length b - length a)%nat with (length b) by lia.
  apply firstn_app_exact.
Qed.

Lemma idx_after {A} (a : list A) x b : idx (a ++ x :: b) (length a) = Some x.
Proof. unfold idx. rewrite nth_error_app2 by lia. rewrite Nat.sub_diag. reflexivity. Qed.
