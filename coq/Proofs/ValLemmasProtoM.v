(* Helper lemmas for Proofs/SrcEquivProtoM.v: sequencing and `try` of the device-monad kit against the
   model's bind / try_catch under the embedding mres, dictionary update, and
   HSM2Dongle.reset_advance_blockchain (Gen/SrcM.v) against Model/Dongle.v. *)
From PowHsm Require Import Gen.SrcM Model.Dongle.
From PowHsm Require Import Proofs.ValLemmas Proofs.SrcEquivDongleM.
Import MV.

(* ---------- sequencing under mres ---------- *)

Lemma mres_bind {A B} (f : A -> pv) (g : B -> pv) (m : pm pv) (mm : M A) (k : pv -> pm pv) (kk : A -> M B)
                (w : world) :
  m w = mres f (mm w) ->
  (forall a w', k (f a) w' = mres g (kk a w')) ->
  mbind m k w = mres g (bind mm kk w).
Proof.
  intros Hm Hk. unfold mbind, bind. rewrite Hm. unfold mres.
  destruct (mm w) as [[a|e] w']; cbn [fst snd].
  - rewrite Hk. reflexivity.
  - reflexivity.
Qed.

(* try ... except (catch-all, dispatch inside the handler) against try_catch *)
Lemma ptry_k_mres {A B} (f : A -> pv) (g : B -> pv) (m : pm pv) (mm : M A) (mb : M B) (h : exn -> pm pv)
                  (k : pv -> pm pv) (res : A -> B) (hh : exn -> option (M B)) (w : world) :
  m w = mres f (mm w) ->
  mb w = bind mm (fun a => ret (res a)) w ->
  (forall a w', k (f a) w' = (XOk (g (res a)), w')) ->
  (forall e w', mbind (h e) k w' =
                mres g (match hh e with Some c => c w' | None => (Exn e, w') end)) ->
  ptry_k m true [] h k w = mres g (try_catch mb hh w).
Proof.
  intros Hm Hb Hk Hh. unfold ptry_k, try_catch. rewrite Hb. unfold bind. rewrite Hm. unfold mres at 1.
  destruct (mm w) as [[a|e] w']; cbn [fst snd orb].
  - rewrite Hk. reflexivity.
  - rewrite Hh. reflexivity.
Qed.

(* ---------- disconnect ---------- *)

Lemma disconnect_eq (w : world) : disconnect w = (Ok tt, snd (disconnect w)).
Proof. unfold disconnect. destruct (opened w); reflexivity. Qed.

Lemma m_disconnect_eq (w : world) : m_disconnect w = (XOk VNone, snd (disconnect w)).
Proof. unfold m_disconnect, pmap, of_M, mbind, mret. rewrite disconnect_eq. reflexivity. Qed.

(* ---------- indexing / dictionaries ---------- *)

Lemma seq_index_nat {A} (l : list A) (k : nat) : seq_index l (Z.of_nat k) = nth_error l k.
Proof.
  unfold seq_index.
  destruct (Z.ltb_spec (Z.of_nat k) 0) as [Hlt|Hge]; [lia|].
  cbn [orb]. destruct (Z.ltb_spec (Z.of_nat k) 0) as [Hlt'|_]; [lia|]. cbn [orb].
  destruct (Z.leb_spec (Z.of_nat (length l)) (Z.of_nat k)) as [Hle|Hgt].
  - symmetry. apply nth_error_None. lia.
  - rewrite Nat2Z.id. reflexivity.
Qed.

Lemma vassoc_set_same (k : str) (v : pv) (l : list (str * pv)) : vassoc k (vassoc_set k v l) = Some v.
Proof.
  induction l as [|[k' v'] r IH]; cbn [vassoc_set vassoc].
  - rewrite str_eqb_refl. reflexivity.
  - destruct (str_eqb k k') eqn:Hk; cbn [vassoc]; rewrite Hk; [reflexivity|exact IH].
Qed.

(* ---------- HSM2Dongle.reset_advance_blockchain ---------- *)

Lemma m_send_command_mres (c : N) (d : bytes) (w : world) :
  m_send_command (VInt (Z.of_N c)) (VBytes d) w = mres VBytes (send_command c d w).
Proof.
  unfold m_send_command. cbn [vint].
  destruct (Z.ltb_spec (Z.of_N c) 0) as [Hlt|_]; [lia|].
  rewrite N2Z.id. unfold pmap, of_M, mbind, mres, mret.
  destruct (send_command c d w) as [[a|e] w']; reflexivity.
Qed.

Lemma srcm_dongle_reset_advance_blockchain_ok : forall (self : pv) (w : world),
  srcm_HSM2Dongle__reset_advance_blockchain self w = mres VBool (reset_advance_blockchain w).
Proof.
  intros self w. unfold srcm_HSM2Dongle__reset_advance_blockchain, reset_advance_blockchain.
  unfold pbind at 1.
  apply mres_bind with (f := VBytes).
  - cbn [pbind POk mbind mret py_bytes map vint Z.leb Z.ltb Z.compare Pos.compare Pos.compare_cont andb
         Z.to_N all_some].
    exact (m_send_command_mres 33 [1] w).
  - intros r w'. unfold idxM, OFF_OPn. change (N.to_nat OFF_OP) with 2%nat.
    unfold pif, py_getitem, Val.py_getitem. change 2%Z with (Z.of_nat 2). rewrite seq_index_nat.
    unfold idx. destruct (nth_error r 2) as [b|]; [|reflexivity].
    unfold vbool, pmap, py_ne, of_opt, pbind, mbind, lift, mret, PRaiseX, POk, mraise, mres, bind, ret, raise.
    cbn beta iota. rewrite py_ne_int. cbn beta iota.
    change (Z.of_nat 2) with (Z.of_N 2). rewrite Zeqb_N.
    change RAV_OP_DONE with 2%N. destruct (b =? 2)%N; reflexivity.
Qed.

(* ---------- HSM2Dongle.get_public_key (same statement as SrcEquivDongleM.srcm_get_public_key_ok,
   proved here so that the protocol-layer theorems do not depend on that file's pending proofs) ---------- *)

Lemma srcm_dongle_get_public_key_ok : forall (cm : string -> pv -> list pv -> pr pv) (self key_id : pv)
                                             (path_bin : bytes) (w : world),
  cm "to_binary" key_id [] = Val.POk (VBytes path_bin) ->
  srcm_HSM2Dongle__get_public_key cm self key_id w = mres VStr (get_public_key path_bin w).
Proof.
  intros cm self key_id path_bin w Hcm.
  unfold srcm_HSM2Dongle__get_public_key, get_public_key. rewrite Hcm.
  unfold pbind at 1.
  apply mres_bind with (f := VBytes).
  - unfold pbind, mbind, lift. exact (m_send_command_mres 4 path_bin w).
  - intros r w'. reflexivity.
Qed.
