(* Helper lemmas for Proofs/SrcEquivBlockM.v: more computation rules of the device-monad kit (Model/ValM.v),
   a generic "try: <one exchange> except HSM2DongleErrorResult" step against Model/Sign.v's on_error_result,
   script monotonicity of the block-operation models, Python's sorted(key=...) against the model's insertion
   sort, the integer-keyed dictionaries, and well-formedness of the bytes the block_utils models produce. *)
From PowHsm Require Import Gen.SrcM Model.Dongle Model.Sign Model.BlockOps.
From PowHsm Require Import Proofs.ValLemmas Proofs.ValLemmasAdmin Proofs.SrcEquivLedger Proofs.SrcEquivDongleM.
From PowHsm Require Import Proofs.ValLemmasSign Proofs.RlpProofs Proofs.Sha256Proofs.
From Coq Require Import Lia.
Open Scope N_scope.

(* ---------- computation rules ---------- *)

Lemma lift_pbind {A B} (p : pr A) (f : A -> pr B) :
  MV.pbind (lift p) (fun x => lift (f x)) = lift (Val.pbind p f).
Proof. destruct p; reflexivity. Qed.

Lemma py_and_POk (v : pv) (b : pm pv) : MV.py_and (MV.POk v) b = if py_truth v then b else MV.POk v.
Proof. reflexivity. Qed.

Lemma pif_PRaise {A} (e : pyexc) (t f : pm A) : MV.pif (MV.PRaise e) t f = MV.PRaise e.
Proof. reflexivity. Qed.

Lemma py_not_PRaise (e : pyexc) : MV.py_not (MV.PRaise e) = MV.PRaise e.
Proof. reflexivity. Qed.

Lemma pbind_PRaiseX {A B} (e : exn) (f : A -> pm B) : MV.pbind (MV.PRaiseX e) f = MV.PRaiseX e.
Proof. reflexivity. Qed.

Lemma mv_getitem_bytes2 (b : bytes) :
  MV.py_getitem (VBytes b) (VInt 2) =
  match idx b 2 with Some x => MV.POk (vN x) | None => MV.PRaise IndexError end.
Proof. exact (mv_getitem_bytes b 2). Qed.

Lemma mv_getitem_bytes3 (b : bytes) :
  MV.py_getitem (VBytes b) (VInt 3) =
  match idx b 3 with Some x => MV.POk (vN x) | None => MV.PRaise IndexError end.
Proof. exact (mv_getitem_bytes b 3). Qed.

Lemma mv_py_eq_N (a b : N) : MV.vbool (MV.py_eq (vN a) (vN b)) = MV.POk (VBool (a =? b)).
Proof. unfold MV.py_eq, vN. rewrite py_eq_int, Zeqb_N. reflexivity. Qed.

Lemma mv_py_bytes_nil : MV.py_bytes (VList []) = MV.POk (VBytes []).
Proof. reflexivity. Qed.

Lemma mv_list_append (xs : list pv) (x : pv) : MV.py_list_append (VList xs) x = MV.POk (VList (xs ++ [x])).
Proof. reflexivity. Qed.

Lemma mv_to_bytes_be (n : Z) (k : nat) :
  MV.py_to_bytes_be (VInt n) (VInt (Z.of_nat k)) =
  match to_bytes_be k n with Some b => MV.POk (VBytes b) | None => MV.PRaise OverflowError end.
Proof.
  unfold MV.py_to_bytes_be. cbn [py_to_bytes_be vint].
  replace (Z.of_nat k <? 0)%Z with false by (symmetry; apply Z.ltb_ge; lia).
  rewrite Nat2Z.id. destruct (to_bytes_be k n); reflexivity.
Qed.

Lemma mv_to_bytes_be_1 (n : Z) :
  MV.py_to_bytes_be (VInt n) (VInt 1) =
  match to_bytes_be 1 n with Some b => MV.POk (VBytes b) | None => MV.PRaise OverflowError end.
Proof. exact (mv_to_bytes_be n 1). Qed.
Lemma mv_to_bytes_be_2 (n : Z) :
  MV.py_to_bytes_be (VInt n) (VInt 2) =
  match to_bytes_be 2 n with Some b => MV.POk (VBytes b) | None => MV.PRaise OverflowError end.
Proof. exact (mv_to_bytes_be n 2). Qed.
Lemma mv_to_bytes_be_4 (n : Z) :
  MV.py_to_bytes_be (VInt n) (VInt 4) =
  match to_bytes_be 4 n with Some b => MV.POk (VBytes b) | None => MV.PRaise OverflowError end.
Proof. exact (mv_to_bytes_be n 4). Qed.

Lemma mv_py_len_list_nat (l : list pv) : MV.py_len (VList l) = MV.POk (VInt (Z.of_nat (length l))).
Proof. reflexivity. Qed.

Lemma mv_error_code (sw : N) : MV.m_error_code (ErrorResult sw) = MV.POk (vN sw).
Proof. reflexivity. Qed.

Lemma mres_ok' {A} (f : A -> pv) (a : A) (w : world) : mres f (Ok a, w) = (XOk (f a), w).
Proof. reflexivity. Qed.
Lemma mres_exn' {A} (f : A -> pv) (e : exn) (w : world) : mres f (Exn e, w) = (XRaise e, w).
Proof. reflexivity. Qed.

(* ---------- the model computations only consume the device script ---------- *)

Definition mono {A} (m : M A) : Prop :=
  forall w r w', m w = (r, w') -> (length (script w') <= length (script w))%nat.

Lemma mono_ret {A} (a : A) : mono (ret a).
Proof. intros w r w' H. inversion H; subst. lia. Qed.
Lemma mono_raise {A} (e : exn) : mono (@raise A e).
Proof. intros w r w' H. inversion H; subst. lia. Qed.
Lemma mono_bind {A B} (m : M A) (k : A -> M B) : mono m -> (forall a, mono (k a)) -> mono (bind m k).
Proof.
  intros Hm Hk w r w' H. unfold bind in H. destruct (m w) as [[a|e] w1] eqn:E.
  - apply Hm in E. apply Hk in H. lia.
  - inversion H; subst. apply Hm in E. exact E.
Qed.
Lemma mono_on_error {A} (m : M A) (h : N -> M A) : mono m -> (forall sw, mono (h sw)) -> mono (on_error_result m h).
Proof.
  intros Hm Hh w r w' H. unfold on_error_result, try_catch in H. destruct (m w) as [[a|e] w1] eqn:E.
  - inversion H; subst. apply Hm in E. exact E.
  - apply Hm in E. destruct e; try (inversion H; subst; exact E). apply Hh in H. lia.
Qed.
Lemma mono_of_opt {A} (o : option A) (e : pyexc) : mono (of_opt o e).
Proof. destruct o; [apply mono_ret|apply mono_raise]. Qed.
Lemma mono_idxM {A} (l : list A) (i : nat) : mono (idxM l i).
Proof. apply mono_of_opt. Qed.
Lemma mono_send (c : N) (d : bytes) : mono (send_command c d).
Proof. intros w r w' H. apply send_command_facts in H. apply H. Qed.
Lemma mono_chunks (cmd op : N) (nexts : list N) (data : bytes) (full : bool) (req : N) :
  mono (send_data_in_chunks cmd op nexts data full req).
Proof. intros w r w' H. apply send_chunks_facts in H. apply H. Qed.

Ltac mono_tac :=
  repeat first [ apply mono_ret | apply mono_raise | apply mono_send | apply mono_chunks | apply mono_idxM
               | apply mono_of_opt
               | apply mono_bind; [|intros ?] | apply mono_on_error; [|intros ?]
               | match goal with
                 | |- mono (match ?x with _ => _ end) => destruct x
                 | |- mono (if ?x then _ else _) => destruct x
                 end ].

Lemma mono_send_block_header (o : blockop) (b : bool) (raw : option bytes) : mono (send_block_header o b raw).
Proof. unfold send_block_header. mono_tac. Qed.

Lemma mono_send_brothers (o : blockop) (bros : list (option bytes)) : forall last, mono (send_brothers o bros last).
Proof.
  induction bros as [|b rest IH]; intros last; cbn [send_brothers]; [apply mono_ret|].
  apply mono_bind; [apply mono_send_block_header|]. intros [resp|c]; [apply IH|apply mono_ret].
Qed.

(* ---------- try: <one step of the protocol> except HSM2DongleErrorResult: <table> ---------- *)

(* as body_rel of ValLemmasSign, with the property of the exceptions that can come out as a parameter *)
Definition body_relP {X} (P : exn -> Prop) (E : pv -> X -> Prop) (body : pm pv) (m : M X) (w : world) : Prop :=
  match body w, m w with
  | (XOk v, w1), (Ok a, w2) => w1 = w2 /\ E v a /\ (length (script w1) <= length (script w))%nat
  | (XRaise e, w1), (Exn e', w2) => e = e' /\ w1 = w2 /\ P e
  | _, _ => False
  end.

Lemma try_stepP {A B} (g : B -> pv) (P : exn -> Prop) (ca : bool) (pats : list xpat) (body : pm pv)
      (h : exn -> pm pv) (k : pv -> pm pv) (m : M (A + Z)) (tbl : N -> Z) (f : A + Z -> M B)
      (E : pv -> A + Z -> Prop) (w : world) :
  body_relP P E body m w ->
  (forall sw w', caught ca pats (ErrorResult sw) = true /\
                 mbind (h (ErrorResult sw)) k w' = mres g (f (inr (tbl sw)) w')) ->
  (forall e w', P e -> match e with
                       | ErrorResult _ => True
                       | _ => (if caught ca pats e then mbind (h e) k w' else (XRaise e, w')) = (XRaise e, w')
                       end) ->
  (forall v a w', E v a -> (length (script w') <= length (script w))%nat -> k v w' = mres g (f a w')) ->
  MV.ptry_k body ca pats h k w =
  mres g (bind (on_error_result m (fun sw => ret (inr (tbl sw)))) f w).
Proof.
  intros Hb Her Hoth Hk. unfold body_relP in Hb.
  unfold MV.ptry_k, bind, on_error_result, try_catch.
  destruct (body w) as [[v|e|] w1]; destruct (m w) as [[a|e'] w2]; try contradiction.
  - destruct Hb as [-> [HE HL]]. apply Hk; assumption.
  - destruct Hb as [<- [-> HP]]. fold (caught ca pats e).
    specialize (Hoth e w2 HP). destruct e.
    1: { destruct (Her sw w2) as [-> Hh]. rewrite Hh. reflexivity. }
    all: exact Hoth.
Qed.

(* the exceptions of a device exchange followed by indexing the answer *)
Definition dev_exn (e : exn) : Prop :=
  match e with Py IndexError => True | Py _ => False | _ => True end.

Lemma send_dev_exn (cmd : N) (d : bytes) (w w' : world) (e : exn) :
  send_command cmd d w = (Exn e, w') -> dev_exn e.
Proof.
  intros H. destruct (send_command_facts _ _ _ _ _ H) as [_ Hn]. specialize (Hn e eq_refl).
  destruct e; try exact I. contradiction.
Qed.

(* ---------- sorted(l, key=...) ---------- *)

Lemma bytes_le_leb (a : bytes) : forall b, bytes_le a b = bytes_leb a b.
Proof. intros b. reflexivity. Qed.

Lemma insert_keyed_by (k : bytes) (v : pv) (l : list (bytes * pv)) : insert_keyed k v l = insert_by k v l.
Proof.
  induction l as [|[k' v'] r IH]; cbn [insert_keyed insert_by]; [reflexivity|].
  rewrite bytes_le_leb, IH. reflexivity.
Qed.

Lemma sort_keyed_by (l : list (bytes * pv)) : sort_keyed l = sort_by_key l.
Proof.
  unfold sort_keyed, sort_by_key. f_equal. generalize (@nil (bytes * pv)).
  induction l as [|kv l IH]; intros acc; cbn [fold_left]; [reflexivity|].
  rewrite insert_keyed_by. apply IH.
Qed.

Definition map_val {A B} (f : A -> B) (l : list (bytes * A)) : list (bytes * B) :=
  map (fun p => (fst p, f (snd p))) l.

Lemma insert_by_map {A B} (f : A -> B) (k : bytes) (v : A) (l : list (bytes * A)) :
  insert_by k (f v) (map_val f l) = map_val f (insert_by k v l).
Proof.
  unfold map_val. induction l as [|[k' v'] r IH]; cbn [insert_by map fst snd]; [reflexivity|].
  destruct (bytes_leb k' k); cbn [map fst snd]; [rewrite IH|]; reflexivity.
Qed.

Lemma sort_by_key_map {A B} (f : A -> B) (l : list (bytes * A)) :
  sort_by_key (map_val f l) = map f (sort_by_key l).
Proof.
  unfold sort_by_key.
  assert (H : forall acc, fold_left (fun acc kv => insert_by (fst kv) (snd kv) acc) (map_val f l) (map_val f acc) =
                          map_val f (fold_left (fun acc kv => insert_by (fst kv) (snd kv) acc) l acc)).
  { induction l as [|[k v] l IH]; intros acc; cbn [fold_left map_val map fst snd]; [reflexivity|].
    fold (map_val f l). rewrite insert_by_map. apply IH. }
  specialize (H []). cbn [map_val map] in H. fold (map_val f l) in H. rewrite H.
  unfold map_val. rewrite !map_map. cbn [snd]. reflexivity.
Qed.

(* ---------- dictionaries with integer keys ---------- *)

Definition intdict (l : list (N * Z)) : pv :=
  VObj "intdict" (map (fun p => (""%string, VList [vN (fst p); VInt (snd p)])) l).

Lemma assoc_get_tbl (l : list (N * Z)) (sw : N) :
  assoc_get (map (fun p => VList [vN (fst p); VInt (snd p)]) l) (Z.of_N sw) =
  match assoc_N sw l with Some c => Some (VInt c) | None => None end.
Proof.
  induction l as [|[k c] l IH]; [reflexivity|].
  cbn [map assoc_get assoc_N fst snd vN]. rewrite Zeqb_N. destruct (sw =? k); [reflexivity|exact IH].
Qed.

Lemma mv_get_default_intdict (l : list (N * Z)) (sw : N) (d : pv) :
  MV.py_get_default (intdict l) (vN sw) d =
  MV.POk (match assoc_N sw l with Some c => VInt c | None => d end).
Proof.
  unfold MV.py_get_default, intdict, py_get_default. cbn [String.eqb Ascii.eqb Bool.eqb vN vint].
  rewrite map_map. cbn [snd]. rewrite assoc_get_tbl. destruct (assoc_N sw l); reflexivity.
Qed.

(* ---------- enumerate(l, 1) ---------- *)

Definition enum_items (k : nat) (l : list pv) : list pv :=
  map (fun p => VList [VInt (1 + Z.of_nat (fst p)); snd p]) (combine (seq k (length l)) l).

Lemma mv_enumerate_list (l : list pv) : MV.py_enumerate (VList l) (VInt 1) = MV.POk (VList (enum_items 0 l)).
Proof. reflexivity. Qed.

Lemma enum_items_cons (k : nat) (x : pv) (l : list pv) :
  enum_items k (x :: l) = VList [VInt (1 + Z.of_nat k); x] :: enum_items (S k) l.
Proof. reflexivity. Qed.

(* ---------- well-formed bytes out of the block_utils / pow models ---------- *)

Lemma word_be_wf (x : N) : wf_bytes (word_be x).
Proof. unfold word_be. apply Forall_rev, le_bytes_wf. Qed.

Lemma concat_wf (l : list bytes) : Forall wf_bytes l -> wf_bytes (concat l).
Proof.
  induction 1 as [|x l Hx Hl IH]; cbn [concat]; [constructor|]. apply Forall_app. split; assumption.
Qed.

Lemma sha256_wf (m : bytes) : wf_bytes (sha256 m).
Proof.
  unfold sha256. destruct (sha_digest _) as [d|] eqn:E; [|constructor].
  unfold sha_digest in E. destruct (sha_pad _); [|discriminate]. inversion E; subst.
  apply concat_wf. apply Forall_forall. intros wb Hwb. apply in_map_iff in Hwb. destruct Hwb as [x [<- _]].
  apply word_be_wf.
Qed.

Lemma coinbase_hash_wf (tx h : bytes) : coinbase_tx_get_hash tx = Some h -> wf_bytes h.
Proof.
  unfold coinbase_tx_get_hash. destruct (sha_set_midstate _ _); [|discriminate].
  destruct (sha_digest _); [|discriminate]. intros H. inversion H; subst. apply Forall_rev, sha256_wf.
Qed.

Lemma length_prefix_wf (len off : N) : len < 256 ^ 8 -> off <= 192 -> wf_bytes (length_prefix len off).
Proof.
  intros Hl Ho. unfold length_prefix. destruct (len <? 56) eqn:E.
  - apply N.ltb_lt in E. constructor; [lia|constructor].
  - pose proof (be_min_length len Hl) as Hb. constructor; [lia|apply be_min_wf].
Qed.

Lemma encode_wf : forall i, bytes_ok i -> lens_ok i -> wf_bytes (encode i).
Proof.
  induction i as [b|l IH] using item_ind'; intros Hb Hl.
  - cbn [bytes_ok lens_ok] in Hb, Hl.
    assert (Hgen : wf_bytes (length_prefix (nlen b) 128 ++ b)).
    { apply Forall_app. split; [apply length_prefix_wf; [exact Hl|lia]|exact Hb]. }
    cbn [encode]. destruct b as [|x [|y r]]; try exact Hgen.
    destruct (x <? 128); [exact Hb|exact Hgen].
  - apply bytes_ok_lst in Hb. apply lens_ok_lst in Hl. destruct Hl as [Hlen Hl].
    cbn [encode]. apply Forall_app. split; [apply length_prefix_wf; [exact Hlen|lia]|].
    apply concat_wf. apply Forall_forall. intros e He. apply in_map_iff in He. destruct He as [x [<- Hx]].
    rewrite Forall_forall in IH, Hb, Hl. apply IH; auto.
Qed.

Lemma bytes_ok_mm_kept (blk : item) (leave : bool) : bytes_ok blk -> bytes_ok (mm_kept blk leave).
Proof.
  intro H. unfold mm_kept. destruct (19 <=? item_len blk)%nat; [apply bytes_ok_drop_last, H|].
  destruct leave; [exact H|apply bytes_ok_drop_last, H].
Qed.

Lemma remove_mm_fields_wf (b e : bytes) (leave : bool) :
  wf_bytes b -> remove_mm_fields (Some b) leave = Some e -> wf_bytes e.
Proof.
  intros Hwf H. destruct (decode b) as [blk|] eqn:Hd.
  - rewrite (remove_mm_fields_spec _ _ _ Hd) in H.
    destruct ((17 <=? item_len blk) && (item_len blk <=? 20))%nat; [|discriminate].
    inversion H; subst. destruct (decode_wf _ _ Hwf Hd) as [Hb Hl].
    apply encode_wf; [apply bytes_ok_mm_kept, Hb|apply lens_ok_mm_kept, Hl].
  - unfold remove_mm_fields in H. rewrite Hd in H. discriminate.
Qed.

Lemma remove_mm_fields_hex_wf (hx : str) (e : bytes) (leave : bool) :
  remove_mm_fields (fromhex hx) leave = Some e -> wf_bytes e.
Proof.
  destruct (fromhex hx) as [b|] eqn:E; [|discriminate].
  apply remove_mm_fields_wf. exact (fromhex_bytes _ _ E).
Qed.

(* ---------- membership of an error code in a literal list ---------- *)

Lemma mv_in1 (sw a : N) : MV.vbool (MV.py_in (vN sw) (VList [vN a])) = MV.POk (VBool (mem_N sw [a])).
Proof. unfold MV.py_in. change (VList [vN a]) with (VList (map vN [a])). rewrite py_in_N_list. reflexivity. Qed.

Lemma mv_in2 (sw a b : N) : MV.vbool (MV.py_in (vN sw) (VList [vN a; vN b])) = MV.POk (VBool (mem_N sw [a; b])).
Proof. unfold MV.py_in. change (VList [vN a; vN b]) with (VList (map vN [a; b])). rewrite py_in_N_list. reflexivity. Qed.

Lemma isa_er (e : exn) :
  exn_isa e EXC_HSM2DongleErrorResult = match e with ErrorResult _ => true | _ => false end.
Proof. destruct e; reflexivity. Qed.

(* ---------- the exchanges of the block operations as try bodies ---------- *)

(* metadata / initialization: one exchange, the operation the device asks for next, [the size of its request] *)
Lemma meta_body (F : pv -> pv -> pv) (Fb : pm pv) (cmd opc : N) (unexp : Z) (data : bytes) (w : world) :
  (forall w', Fb w' = (XOk (ret2 (rfalse unexp)), w')) ->
  body_relP dev_exn
    (fun v a => match a with inl q => exists r, v = F (VBytes r) (vN q) | inr c => v = ret2 (rfalse c) end)
    (MV.pbind (MV.m_send_command (vN cmd) (VBytes data)) (fun v_response =>
       MV.pif (MV.pbind (MV.py_getitem v_response (VInt 2)) (fun t7_ => MV.vbool (MV.py_ne t7_ (vN opc)))) Fb
         (MV.pbind (MV.py_getitem v_response (VInt 3)) (fun br => MV.POk (F v_response br)))))
    (r <- send_command cmd data ;; rop <- idxM r OFF_OPn ;;
     if negb (rop =? opc) then ret (inr unexp) else q <- idxM r OFF_DATAn ;; ret (inl q)) w.
Proof.
  intros HFb. unfold body_relP.
  pose proof (m_send_command_eq cmd data w) as Hs.
  change OFF_OPn with 2%nat. change OFF_DATAn with 3%nat.
  destruct (send_command cmd data w) as [[r|e] w1] eqn:Es.
  - destruct (send_command_facts _ _ _ _ _ Es) as [L _].
    rewrite (pbind_eq _ _ _ _ _ Hs), (bind_eq _ _ _ _ _ Es).
    rewrite mv_getitem_bytes2, mv_getitem_bytes3.
    pose proof (idxM_eq r 2 w1) as H2. destruct (idx r 2) as [op|].
    + rewrite (bind_eq _ _ _ _ _ H2).
      rewrite pbind_POk, mv_py_ne_N, pif_POk. cbn [py_truth].
      destruct (negb (op =? opc)).
      * rewrite HFb. cbn [ret]. auto.
      * pose proof (idxM_eq r 3 w1) as H3. destruct (idx r 3) as [q|].
        { rewrite (bind_eq _ _ _ _ _ H3), pbind_POk. cbn [MV.POk mret ret].
          split; [reflexivity|]. split; [exists r; reflexivity|exact L]. }
        { rewrite (bind_exn_eq _ _ _ _ _ H3), pbind_PRaise. cbn [MV.PRaise mraise].
          split; [reflexivity|]. split; [reflexivity|exact I]. }
    + rewrite (bind_exn_eq _ _ _ _ _ H2), pbind_PRaise. cbn [MV.pif mbind MV.PRaise mraise].
      split; [reflexivity|]. split; [reflexivity|exact I].
  - rewrite (pbind_raise_eq _ _ _ _ _ Hs), (bind_exn_eq _ _ _ _ _ Es).
    split; [reflexivity|]. split; [reflexivity|]. exact (send_dev_exn _ _ _ _ _ Es).
Qed.

Lemma init_body (Fb : pm pv) (cmd opc : N) (unexp : Z) (data : bytes) (w : world) :
  (forall w', Fb w' = (XOk (ret2 (rfalse unexp)), w')) ->
  body_relP dev_exn
    (fun v a => match a with inl _ => exists r, v = VList [VInt 1%Z; VList [VBytes r]] | inr c => v = ret2 (rfalse c) end)
    (MV.pbind (MV.m_send_command (vN cmd) (VBytes data)) (fun v_response =>
       MV.pif (MV.pbind (MV.py_getitem v_response (VInt 2)) (fun t5_ =>
                 MV.pbind (MV.POk (vN opc)) (fun t6_ => MV.vbool (MV.py_ne t5_ t6_)))) Fb
         (MV.POk (VList [VInt 1%Z; VList [v_response]]))))
    (r <- send_command cmd data ;; rop <- idxM r OFF_OPn ;;
     if negb (rop =? opc) then ret (inr unexp) else ret (inl tt)) w.
Proof.
  intros HFb. unfold body_relP.
  pose proof (m_send_command_eq cmd data w) as Hs.
  change OFF_OPn with 2%nat.
  destruct (send_command cmd data w) as [[r|e] w1] eqn:Es.
  - destruct (send_command_facts _ _ _ _ _ Es) as [L _].
    rewrite (pbind_eq _ _ _ _ _ Hs), (bind_eq _ _ _ _ _ Es).
    rewrite mv_getitem_bytes2.
    pose proof (idxM_eq r 2 w1) as H2. destruct (idx r 2) as [op|].
    + rewrite (bind_eq _ _ _ _ _ H2).
      rewrite !pbind_POk, mv_py_ne_N, pif_POk. cbn [py_truth].
      destruct (negb (op =? opc)).
      * rewrite HFb. cbn [ret]. auto.
      * cbn [MV.POk mret ret]. split; [reflexivity|]. split; [exists r; reflexivity|exact L].
    + rewrite (bind_exn_eq _ _ _ _ _ H2), pbind_PRaise. cbn [MV.pif mbind MV.PRaise mraise].
      split; [reflexivity|]. split; [reflexivity|exact I].
  - rewrite (pbind_raise_eq _ _ _ _ _ Hs), (bind_exn_eq _ _ _ _ _ Es).
    split; [reflexivity|]. split; [reflexivity|]. exact (send_dev_exn _ _ _ _ _ Es).
Qed.

(* the chunked send of a header *)
Definition chunk_exn (e : exn) : Prop := not_overflow e.

Lemma chunks_eq' (fuel : nat) (self name desc : pv) (cmd op : N) (nexts : list N) (data : bytes) (req : N) (w : world) :
  op < 256 -> (S (length (script w)) <= fuel)%nat ->
  srcm_HSM2Dongle___send_data_in_chunks fuel self (vN cmd) (vN op) (VList (map vN nexts)) (VBytes data)
                 (VBool false) (vN req) name desc w =
  match send_data_in_chunks cmd op nexts data false req w with
  | (Ok cr, w1) => (XOk (chunk_res cr), w1) | (Exn e, w1) => (XRaise e, w1) end.
Proof.
  intros Hop Hfuel.
  rewrite (srcm_send_data_in_chunks_ok fuel self name desc cmd op nexts data false req w Hop Hfuel). unfold mres.
  destruct (send_data_in_chunks cmd op nexts data false req w) as [[cr|e] w1]; reflexivity.
Qed.

Lemma chunk_body_blk (F : pv -> pv) (Fb : pm pv) (fuel : nat) (self name desc : pv) (cmd op : N) (nexts : list N)
      (unexp : Z) (data : bytes) (req : N) (w : world) :
  op < 256 -> (S (length (script w)) <= fuel)%nat ->
  (forall w', Fb w' = (XOk (ret2 (rfalse unexp)), w')) ->
  body_relP (fun _ => True)
    (fun v a => match a with
                | inl r => v = F (chunk_res (true, r))
                | inr c => v = ret2 (rfalse c) end)
    (MV.pbind (srcm_HSM2Dongle___send_data_in_chunks fuel self (vN cmd) (vN op) (VList (map vN nexts)) (VBytes data)
                 (VBool false) (vN req) name desc) (fun v_response =>
       MV.pif (MV.py_not (MV.py_getitem v_response (VInt 0))) Fb (MV.POk (F v_response))))
    (cr <- send_data_in_chunks cmd op nexts data false req ;;
     if fst cr then ret (inl (snd cr)) else ret (inr unexp)) w.
Proof.
  intros Hop Hfuel HFb. unfold body_relP.
  pose proof (chunks_eq' fuel self name desc cmd op nexts data req w Hop Hfuel) as Hs.
  destruct (send_data_in_chunks cmd op nexts data false req w) as [[[b r]|e] w1] eqn:Es;
    destruct (send_chunks_facts _ _ _ _ _ _ _ _ _ Es) as [L Hn].
  - rewrite (pbind_eq _ _ _ _ _ Hs), (bind_eq _ _ _ _ _ Es).
    unfold chunk_res at 1. cbn [fst snd]. rewrite mv_getitem_pair0, py_not_POk, pif_POk. cbn [py_truth].
    destruct b; cbn [negb].
    + cbn [MV.POk mret ret]. split; [reflexivity|]. split; [reflexivity|exact L].
    + rewrite HFb. cbn [ret]. split; [reflexivity|]. split; [reflexivity|exact L].
  - rewrite (pbind_raise_eq _ _ _ _ _ Hs), (bind_exn_eq _ _ _ _ _ Es).
    split; [reflexivity|]. split; [reflexivity|exact I].
Qed.

Lemma bind_ret_l {A B} (a : A) (k : A -> M B) (w : world) : bind (ret a) k w = k a w.
Proof. reflexivity. Qed.

(* header_name == "block" / "brother" *)
Lemma nm_bb : MV.vbool (MV.py_eq (VStr (s "block")) (VStr (s "block"))) = MV.POk (VBool true).
Proof. reflexivity. Qed.
Lemma nm_bB : MV.vbool (MV.py_eq (VStr (s "block")) (VStr (s "brother"))) = MV.POk (VBool false).
Proof. reflexivity. Qed.
Lemma nm_Bb : MV.vbool (MV.py_eq (VStr (s "brother")) (VStr (s "block"))) = MV.POk (VBool false).
Proof. reflexivity. Qed.
Lemma nm_BB : MV.vbool (MV.py_eq (VStr (s "brother")) (VStr (s "brother"))) = MV.POk (VBool true).
Proof. reflexivity. Qed.

Lemma mv_py_fromhex_none (x : str) : fromhex x = None -> MV.py_fromhex (VStr x) = MV.PRaise ValueError.
Proof. intros H. unfold MV.py_fromhex. cbn [py_fromhex]. rewrite H. reflexivity. Qed.

(* ---------- sequencing at the level of runs ---------- *)

Lemma mbind_assoc' {A B C} (m : pm A) (f : A -> pm B) (g : B -> pm C) (w : world) :
  mbind (mbind m f) g w = mbind m (fun a => mbind (f a) g) w.
Proof. unfold mbind. destruct (m w) as [[a|e|] w1]; reflexivity. Qed.

Lemma pbind_assoc_run {A B C} (m : pm A) (f : A -> pm B) (g : B -> pm C) (w : world) :
  mbind (MV.pbind m f) g w = mbind m (fun a => mbind (f a) g) w.
Proof. apply mbind_assoc'. Qed.

Lemma mbind_POk_run {A B} (a : A) (f : A -> pm B) (w : world) : mbind (MV.POk a) f w = f a w.
Proof. reflexivity. Qed.

Lemma mbind_PRaise_run {A B} (e : pyexc) (f : A -> pm B) (w : world) :
  mbind (MV.PRaise e) f w = (XRaise (Py e), w).
Proof. reflexivity. Qed.

(* the rest of a function after a try statement moves into the continuation of the try *)
Lemma mbind_ptry_k {A} (m : pm pv) (ca : bool) (pats : list xpat) (h : exn -> pm pv) (k : pv -> pm pv)
      (c : pv -> pm A) (w : world) :
  mbind (MV.ptry_k m ca pats h k) c w = MV.ptry_k m ca pats h (fun v => mbind (k v) c) w.
Proof.
  unfold MV.ptry_k, mbind at 1. destruct (m w) as [[v|e|] w1]; try reflexivity.
  destruct (ca || existsb (xpat_matches e) pats); [|reflexivity].
  exact (mbind_assoc' (h e) k c w1).
Qed.

(* a step that runs as a model computation, then the rest *)
Lemma mbind_step {A B} (m : pm pv) (mm : M A) (g : A -> pv) (f : pv -> pm B) (w : world) :
  m w = mres g (mm w) ->
  mbind m f w = match mm w with (Ok a, w1) => f (g a) w1 | (Exn e, w1) => (XRaise e, w1) end.
Proof. intros E. unfold mbind. rewrite E. destruct (mm w) as [[a|e] w1]; reflexivity. Qed.

(* ---------- brothers[block_number - 1] ---------- *)

Lemma mv_getitem_list_pred (l : list pv) (n : nat) :
  MV.pbind (MV.py_sub (VInt (1 + Z.of_nat n)) (VInt 1)) (fun t => MV.py_getitem (VList l) t) =
  match nth_error l n with Some v => MV.POk v | None => MV.PRaise IndexError end.
Proof.
  unfold MV.py_sub, py_sub, py_arith. cbn [vint]. rewrite lift_POk, pbind_POk.
  replace (1 + Z.of_nat n - 1)%Z with (Z.of_nat n) by lia.
  unfold MV.py_getitem, py_getitem.
  assert (H : seq_index l (Z.of_nat n) = nth_error l n).
  { unfold seq_index.
    destruct (Z.ltb_spec (Z.of_nat n) 0) as [Hlt|Hge]; [lia|]. cbn [orb].
    destruct (Z.ltb_spec (Z.of_nat n) 0) as [Hlt'|_]; [lia|]. cbn [orb].
    destruct (Z.leb_spec (Z.of_nat (length l)) (Z.of_nat n)) as [Hle|Hgt].
    - symmetry. apply nth_error_None. lia.
    - rewrite Nat2Z.id. reflexivity. }
  rewrite H. destruct (nth_error l n); reflexivity.
Qed.

Lemma tl_skipn {A} (n : nat) : forall l : list A, tl (skipn n l) = skipn (S n) l.
Proof.
  induction n as [|n IH]; intros [|x l]; try reflexivity.
  cbn [skipn]. rewrite IH. destruct l; reflexivity.
Qed.

Lemma idx0_skipn {A} (n : nat) (l : list A) : idx (skipn n l) 0 = nth_error l n.
Proof. unfold idx. rewrite nth_error_skipn, Nat.add_0_r. reflexivity. Qed.

(* ---------- the loop over the brothers of one block ---------- *)

Lemma bro_loop_gen {B} (g : B -> pv) (o : blockop) (fuel : nat) (body : pv -> pv -> pm pv) (kk : bytes + Z -> M B) :
  (forall (x : pv) (last : bytes) (n : pv) (hx : str) (w : world), (S (length (script w)) <= fuel)%nat ->
     body (VList [VList [x; VBytes last]]) (VList [n; VStr hx]) w =
     match send_block_header o true (fromhex hx) w with
     | (Ok (inl r), w') => (XOk (VList [VInt 0%Z; VList [VList [VBool true; VBytes r]]]), w')
     | (Ok (inr c), w') => (XOk (ret2 (rfalse c)), w')
     | (Exn e, w') => (XRaise e, w')
     end) ->
  forall (bl : list str) (k : nat) (K : pv -> pm pv) (x : pv) (last : bytes) (w : world),
    (S (length (script w)) <= fuel)%nat ->
    (forall x' resp w', (length (script w') <= length (script w))%nat ->
                        K (VList [VInt 1%Z; VList [VList [x'; VBytes resp]]]) w' = mres g (kk (inl resp) w')) ->
    (forall c w', (length (script w') <= length (script w))%nat -> K (ret2 (rfalse c)) w' = mres g (kk (inr c) w')) ->
    mbind (MV.pfold_t (enum_items k (map VStr bl)) (VList [VList [x; VBytes last]]) body) K w =
    mres g (bind (send_brothers o (map fromhex bl) last) kk w).
Proof.
  intros Hbody. induction bl as [|hx bl IH]; intros k K x last w Hfuel HK1 HK2.
  - cbn [map enum_items combine seq length MV.pfold_t send_brothers]. unfold enum_items. cbn [map length seq combine MV.pfold_t].
    rewrite bind_ret_l. apply HK1. lia.
  - cbn [map]. rewrite enum_items_cons. cbn [MV.pfold_t send_brothers].
    rewrite mbind_assoc'. unfold mbind at 1. rewrite (Hbody _ _ _ _ _ Hfuel).
    unfold bind at 1. unfold bind at 1.
    destruct (send_block_header o true (fromhex hx) w) as [[[r|c]|e] w1] eqn:Es.
    + pose proof (mono_send_block_header _ _ _ _ _ _ Es) as L.
      apply (IH (S k) K (VBool true) r w1); [lia| |].
      * intros x' resp w' Hw'. apply HK1. lia.
      * intros c w' Hw'. apply HK2. lia.
    + pose proof (mono_send_block_header _ _ _ _ _ _ Es) as L.
      apply HK2. exact L.
    + reflexivity.
Qed.

Lemma mv_for_t_list (l : list pv) (acc : pv) (body : pv -> pv -> pm pv) :
  MV.py_for_t (VList l) acc body = MV.pfold_t l acc body.
Proof. reflexivity. Qed.

Lemma bind_assoc_run' {A B C} (m : M A) (f : A -> M B) (g : B -> M C) (w : world) :
  bind (bind m f) g w = bind m (fun a => bind (f a) g) w.
Proof. unfold bind. destruct (m w) as [[a|e] w1]; reflexivity. Qed.

Lemma mv_py_gt0_nat (n : nat) :
  MV.vbool (MV.py_cmp CGt (VInt (Z.of_nat n)) (VInt 0)) = MV.POk (VBool (0 <? n)%nat).
Proof.
  unfold MV.py_cmp. rewrite py_cmp_int. rewrite vbool_lift_POk. f_equal. f_equal.
  apply bool_eq_iff. rewrite Z.ltb_lt, Nat.ltb_lt. lia.
Qed.

(* the brother-list metadata exchange *)
Lemma brolist_body (Fb : pm pv) (cmd opbm : N) (unexp : Z) (data : bytes) (cnt : nat) (w : world) :
  (forall w', Fb w' = (XOk (ret2 (rfalse unexp)), w')) ->
  body_relP dev_exn
    (fun v a => match a with
                | inl r => v = VList [VInt 1%Z; VList [VList [VNone; VBytes r]]]
                | inr c => v = ret2 (rfalse c) end)
    (MV.pbind (MV.pbind (MV.m_send_command (vN cmd) (VBytes data)) (fun t24 => MV.POk (VList [VNone; t24])))
       (fun v_response =>
          MV.pif (MV.py_and (MV.vbool (MV.py_cmp CGt (VInt (Z.of_nat cnt)) (VInt 0)))
                    (MV.pbind (MV.pbind (MV.py_getitem v_response (VInt 1)) (fun t26 => MV.py_getitem t26 (VInt 2)))
                       (fun t25 => MV.pbind (MV.POk (vN opbm)) (fun t27 => MV.vbool (MV.py_ne t25 t27)))))
            Fb (MV.POk (VList [VInt 1%Z; VList [v_response]]))))
    (r <- send_command cmd data ;;
     (if (0 <? cnt)%nat then
        rop2 <- idxM r OFF_OPn ;;
        if negb (rop2 =? opbm) then ret (inr unexp) else ret (inl r)
      else ret (inl r))) w.
Proof.
  intros HFb. unfold body_relP.
  pose proof (m_send_command_eq cmd data w) as Hs.
  change OFF_OPn with 2%nat.
  destruct (send_command cmd data w) as [[r|e] w1] eqn:Es.
  - destruct (send_command_facts _ _ _ _ _ Es) as [L _].
    rewrite (bind_eq _ _ _ _ _ Es).
    assert (Hs' : MV.pbind (MV.m_send_command (vN cmd) (VBytes data)) (fun t24 => MV.POk (VList [VNone; t24])) w =
                  (XOk (VList [VNone; VBytes r]), w1)) by (rewrite (pbind_eq _ _ _ _ _ Hs); reflexivity).
    rewrite (pbind_eq _ _ _ _ _ Hs').
    rewrite mv_py_gt0_nat, py_and_POk. cbn [py_truth].
    destruct (0 <? cnt)%nat.
    + rewrite mv_getitem_pair1, pbind_POk, mv_getitem_bytes2.
      pose proof (idxM_eq r 2 w1) as H2. destruct (idx r 2) as [op|].
      * rewrite (bind_eq _ _ _ _ _ H2). rewrite !pbind_POk, mv_py_ne_N, pif_POk. cbn [py_truth].
        destruct (negb (op =? opbm)).
        { rewrite HFb. cbn [ret]. auto. }
        { cbn [MV.POk mret ret]. split; [reflexivity|]. split; [reflexivity|exact L]. }
      * rewrite (bind_exn_eq _ _ _ _ _ H2), pbind_PRaise. cbn [MV.pif mbind MV.PRaise mraise].
        split; [reflexivity|]. split; [reflexivity|exact I].
    + rewrite pif_POk. cbn [py_truth MV.POk mret ret]. split; [reflexivity|]. split; [reflexivity|exact L].
  - rewrite (bind_exn_eq _ _ _ _ _ Es).
    assert (Hs' : MV.pbind (MV.m_send_command (vN cmd) (VBytes data)) (fun t24 => MV.POk (VList [VNone; t24])) w =
                  (XRaise e, w1)) by (rewrite (pbind_raise_eq _ _ _ _ _ Hs); reflexivity).
    rewrite (pbind_raise_eq _ _ _ _ _ Hs').
    split; [reflexivity|]. split; [reflexivity|]. exact (send_dev_exn _ _ _ _ _ Es).
Qed.

(* the checks at the end of an iteration of the block loop: partial success, success, or go on *)
Lemma tail_ok (b : bool) (x : pv) (r : bytes) (GP P T : pm pv) (st : pv) (C : pv -> pm pv) (pp ss : N)
      (okp okt : Z) (loop : M (bool * Z)) (g : bool * Z -> pv) (w : world) :
  (b = true -> GP = MV.POk (vN pp)) ->
  (b = true -> P w = (XOk (ret2 (g (true, okp))), w)) ->
  T w = (XOk (ret2 (g (true, okt))), w) ->
  (forall v, C (ret2 v) w = (XOk v, w)) ->
  C (VList [VInt 0%Z; st]) w = mres g (loop w) ->
  mbind (MV.pif (MV.py_and (MV.POk (VBool b))
                   (MV.pbind (MV.pbind (MV.py_getitem (VList [x; VBytes r]) (VInt 1))
                                       (fun t39 => MV.py_getitem t39 (VInt 2)))
                      (fun t38 => MV.pbind GP (fun t40 => MV.vbool (MV.py_eq t38 t40))))) P
           (MV.pif (MV.pbind (MV.pbind (MV.py_getitem (VList [x; VBytes r]) (VInt 1))
                                       (fun t43 => MV.py_getitem t43 (VInt 2)))
                      (fun t42 => MV.pbind (MV.POk (vN ss)) (fun t44 => MV.vbool (MV.py_eq t42 t44)))) T
              (MV.POk (VList [VInt 0%Z; st])))) C w =
  mres g (bind (idxM r OFF_OPn)
               (fun rop3 => if b && (rop3 =? pp) then ret (true, okp)
                            else if rop3 =? ss then ret (true, okt) else loop) w).
Proof.
  intros HGP HP HT HC2 HC0. change OFF_OPn with 2%nat.
  rewrite py_and_POk, !mv_getitem_pair1, !pbind_POk, !mv_getitem_bytes2. cbn [py_truth].
  pose proof (idxM_eq r 2 w) as H2. destruct (idx r 2) as [rop|].
  2: { rewrite (bind_exn_eq _ _ _ _ _ H2). destruct b; reflexivity. }
  rewrite (bind_eq _ _ _ _ _ H2). rewrite !pbind_POk.
  assert (Htail : mbind (MV.pif (MV.pbind (MV.POk (vN ss)) (fun t44 => MV.vbool (MV.py_eq (vN rop) t44))) T
                           (MV.POk (VList [VInt 0%Z; st]))) C w =
                  mres g ((if rop =? ss then ret (true, okt) else loop) w)).
  { rewrite pbind_POk, mv_py_eq_N, pif_POk. cbn [py_truth]. destruct (rop =? ss).
    - unfold mbind. rewrite HT. apply HC2.
    - exact HC0. }
  destruct b; cbn [andb].
  - rewrite (HGP eq_refl), pbind_POk, mv_py_eq_N, pif_POk. cbn [py_truth]. destruct (rop =? pp).
    + unfold mbind. rewrite (HP eq_refl). apply HC2.
    + exact Htail.
  - rewrite pif_POk. cbn [py_truth]. exact Htail.
Qed.

Lemma pbind_step {A B} (m : pm pv) (mm : M A) (g : A -> pv) (f : pv -> pm B) (w : world) :
  m w = mres g (mm w) ->
  MV.pbind m f w = match mm w with (Ok a, w1) => f (g a) w1 | (Exn e, w1) => (XRaise e, w1) end.
Proof. apply mbind_step. Qed.

(* ---------- all_some ---------- *)

Lemma all_some_map_option {A B C} (f : A -> option B) (g : B -> C) (l : list A) :
  all_some (map (fun x => match f x with Some b => Some (g b) | None => None end) l) =
  match all_some (map f l) with Some r => Some (map g r) | None => None end.
Proof.
  induction l as [|x l IH]; [reflexivity|]. cbn [map all_some].
  destruct (f x) as [b|]; [|reflexivity]. rewrite IH. destruct (all_some (map f l)); reflexivity.
Qed.

Lemma all_some_Forall {A B} (P : B -> Prop) (f : A -> option B) (l : list A) (r : list B) :
  (forall x b, f x = Some b -> P b) -> all_some (map f l) = Some r -> Forall P r.
Proof.
  intros Hf. revert r. induction l as [|x l IH]; intros r H; cbn [map all_some] in H.
  - inversion H; subst. constructor.
  - destruct (f x) as [b|] eqn:E; [|discriminate]. destruct (all_some (map f l)) as [r'|]; [|discriminate].
    inversion H; subst. constructor; [exact (Hf _ _ E)|apply IH; reflexivity].
Qed.

Lemma map_fromhex_hex (l : list bytes) : Forall wf_bytes l -> map fromhex (map hex l) = map Some l.
Proof.
  induction 1 as [|b l Hb Hl IH]; [reflexivity|]. cbn [map]. rewrite IH, (fromhex_hex' _ Hb). reflexivity.
Qed.

(* list(map(f, l)) for an f that is a pure oracle call *)
Lemma pmap_list_lift (f : pv -> pr pv) (l : list pv) :
  MV.pmap_list l (fun x => lift (f x)) = lift (Val.pmap_list l f).
Proof.
  induction l as [|x l IH]; [reflexivity|]. cbn [MV.pmap_list Val.pmap_list]. rewrite IH.
  destruct (f x) as [y| |]; try reflexivity. cbn [Val.pbind]. destruct (Val.pmap_list l f); reflexivity.
Qed.
