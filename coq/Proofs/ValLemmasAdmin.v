(* Kit facts used by Proofs/SrcEquivAdmin.v: non-negative indices and two-sided slices, byte-list
   membership, decimal / hex text is ASCII, bytes.fromhex only produces bytes. *)
From PowHsm Require Import Py.ValGen.
From PowHsm Require Import Proofs.ValLemmas.
From Coq Require Import Lia.
Open Scope N_scope.

(* ---------- indices and slices with non-negative bounds ---------- *)

Lemma seq_index_nonneg {A} (l : list A) (i : Z) :
  (0 <= i)%Z -> seq_index l i = nth_error l (Z.to_nat i).
Proof.
  intros H. unfold seq_index. cbv zeta.
  assert (E : (i <? 0)%Z = false) by (apply Z.ltb_ge; exact H).
  rewrite E. cbv iota. rewrite E. cbn [orb].
  destruct (Z.leb_spec (Z.of_nat (length l)) i) as [H2|H2]; [|reflexivity].
  symmetry. apply nth_error_None. lia.
Qed.

Lemma seq_slice_from_Z {A} (l : list A) (a : Z) :
  (0 <= a)%Z -> seq_slice l (Some a) None = skipn (Z.to_nat a) l.
Proof.
  intros H. rewrite <- (Z2Nat.id a) at 1 by exact H. apply seq_slice_from.
Qed.

Lemma seq_slice_range {A} (l : list A) (a n : Z) :
  (0 <= a)%Z -> (0 <= n)%Z ->
  seq_slice l (Some a) (Some (a + n)%Z) = firstn (Z.to_nat n) (skipn (Z.to_nat a) l).
Proof.
  intros Ha Hn. unfold seq_slice, clamp_index. cbv zeta.
  destruct (Z.ltb_spec a 0) as [H1|H1]; [lia|].
  destruct (Z.ltb_spec (a + n) 0) as [H2|H2]; [lia|].
  destruct (Nat.le_gt_cases (length l) (Z.to_nat a)) as [Hle|Hgt].
  - replace (Z.to_nat (Z.max 0 (Z.min (Z.of_nat (length l)) a))) with (length l) by lia.
    rewrite skipn_all, skipn_all2 by lia. rewrite !firstn_nil. reflexivity.
  - replace (Z.to_nat (Z.max 0 (Z.min (Z.of_nat (length l)) a))) with (Z.to_nat a) by lia.
    destruct (Z.le_gt_cases (a + n) (Z.of_nat (length l))) as [Hin|Hout].
    + replace (Z.to_nat (Z.max 0 (Z.min (Z.of_nat (length l)) (a + n))) - Z.to_nat a)%nat
        with (Z.to_nat n) by lia.
      reflexivity.
    + replace (Z.to_nat (Z.max 0 (Z.min (Z.of_nat (length l)) (a + n))) - Z.to_nat a)%nat
        with (length l - Z.to_nat a)%nat by lia.
      rewrite !firstn_all2; [reflexivity| |]; rewrite skipn_length; lia.
Qed.

Lemma nth_error_skipn {A} (n k : nat) (l : list A) :
  nth_error (skipn n l) k = nth_error l (n + k).
Proof.
  revert l. induction n as [|n IH]; intros l; [reflexivity|].
  destruct l as [|x l]; [destruct k; reflexivity|]. cbn [skipn Nat.add nth_error]. apply IH.
Qed.

Lemma skipn_add {A} (n k : nat) (l : list A) : skipn (n + k) l = skipn k (skipn n l).
Proof.
  revert l. induction n as [|n IH]; intros l; [reflexivity|].
  destruct l as [|x l]; [destruct k; reflexivity|]. cbn [skipn Nat.add]. apply IH.
Qed.

(* ---------- operations on bytes objects ---------- *)

Lemma py_getitem_bytes (b : bytes) (i : Z) :
  (0 <= i)%Z ->
  py_getitem (VBytes b) (VInt i) =
  match nth_error b (Z.to_nat i) with Some x => POk (VInt (Z.of_N x)) | None => PRaise IndexError end.
Proof. intros H. cbn [py_getitem]. rewrite seq_index_nonneg by exact H. reflexivity. Qed.

Lemma py_slice_bytes_from (b : bytes) (a : Z) :
  (0 <= a)%Z -> py_slice (VBytes b) (Some a) None = POk (VBytes (skipn (Z.to_nat a) b)).
Proof. intros H. cbn [py_slice]. rewrite seq_slice_from_Z by exact H. reflexivity. Qed.

Lemma py_slice_v_bytes_from (b : bytes) (a : Z) :
  (0 <= a)%Z ->
  py_slice_v (VBytes b) (Some (VInt a)) None = POk (VBytes (skipn (Z.to_nat a) b)).
Proof. intros H. cbn [py_slice_v vint]. apply py_slice_bytes_from. exact H. Qed.

Lemma py_slice_v_bytes_range (b : bytes) (a n : Z) :
  (0 <= a)%Z -> (0 <= n)%Z ->
  py_slice_v (VBytes b) (Some (VInt a)) (Some (VInt (a + n)%Z)) =
  POk (VBytes (firstn (Z.to_nat n) (skipn (Z.to_nat a) b))).
Proof.
  intros Ha Hn. cbn [py_slice_v vint py_slice]. rewrite seq_slice_range by assumption. reflexivity.
Qed.

Lemma py_slice_bytes_range (b : bytes) (a n : Z) :
  (0 <= a)%Z -> (0 <= n)%Z ->
  py_slice (VBytes b) (Some a) (Some (a + n)%Z) =
  POk (VBytes (firstn (Z.to_nat n) (skipn (Z.to_nat a) b))).
Proof.
  intros Ha Hn. cbn [py_slice]. rewrite seq_slice_range by assumption. reflexivity.
Qed.

Lemma py_add_int (x y : Z) : py_add (VInt x) (VInt y) = POk (VInt (x + y)%Z).
Proof. reflexivity. Qed.

Lemma py_not_in_two (t a c : N) :
  py_not_in (VInt (Z.of_N t)) (VList [VInt (Z.of_N a); VInt (Z.of_N c)]) =
  POk (negb (mem_N t [a; c])).
Proof.
  unfold py_not_in, py_in. rewrite !py_eq_int, !Zeqb_N. cbn [mem_N].
  destruct (t =? a); [reflexivity|]. destruct (t =? c); reflexivity.
Qed.

Lemma py_or_bool (x : bool) (m : pr pv) :
  py_or (POk (VBool x)) m = if x then POk (VBool true) else m.
Proof. destruct x; reflexivity. Qed.

Lemma Zltb_nat_N (k : nat) (n : N) : (Z.of_nat k <? Z.of_N n)%Z = (N.of_nat k <? n)%N.
Proof. apply bool_eq_iff. rewrite Z.ltb_lt, N.ltb_lt. lia. Qed.

(* ---------- str(int) ---------- *)

Lemma dec_Z_of_N (n : N) : dec_Z (Z.of_N n) = dec_N n.
Proof.
  unfold dec_Z. destruct (Z.ltb_spec (Z.of_N n) 0) as [H|H]; [lia|]. rewrite N2Z.id. reflexivity.
Qed.

Lemma dec_Z_of_nat (k : nat) : dec_Z (Z.of_nat k) = dec_N (N.of_nat k).
Proof. rewrite <- dec_Z_of_N. f_equal. lia. Qed.

Lemma dec_aux_ascii (f : nat) : forall (n : N) (acc : str),
  Forall (fun c => c < 128) acc -> Forall (fun c => c < 128) (dec_aux f n acc).
Proof.
  induction f as [|f IH]; intros n acc H; cbn [dec_aux]; [exact H|]. cbv zeta.
  assert (H' : Forall (fun c => c < 128) (48 + n mod 10 :: acc)).
  { constructor; [|exact H]. pose proof (N.mod_upper_bound n 10). lia. }
  destruct (n <? 10); [exact H'|]. apply IH. exact H'.
Qed.

Lemma dec_N_ascii (n : N) : Forall (fun c => c < 128) (dec_N n).
Proof. unfold dec_N. apply dec_aux_ascii. constructor. Qed.

Lemma forallb_Forall_lt (k : N) (l : list N) :
  Forall (fun c => c < k) l -> forallb (fun c => c <? k) l = true.
Proof.
  intros H. apply forallb_forall. intros x Hx. apply N.ltb_lt.
  rewrite Forall_forall in H. apply H. exact Hx.
Qed.

Lemma dec_N_ascii_b (n : N) : forallb (fun c => c <? 128) (dec_N n) = true.
Proof. apply forallb_Forall_lt, dec_N_ascii. Qed.

Lemma dec_Z_ascii_b (z : Z) : forallb (fun c => c <? 128) (dec_Z z) = true.
Proof.
  unfold dec_Z. destruct (z <? 0)%Z; [cbn [forallb]|]; rewrite dec_N_ascii_b; reflexivity.
Qed.

(* ---------- hex text ---------- *)

Lemma hexval_lt16 (c h : N) : hexval c = Some h -> h < 16.
Proof.
  unfold hexval.
  destruct ((48 <=? c) && (c <=? 57)) eqn:E1.
  { intros H. inversion H. apply andb_prop in E1. destruct E1 as [E1 E1'].
    apply N.leb_le in E1, E1'. lia. }
  destruct ((97 <=? c) && (c <=? 102)) eqn:E2.
  { intros H. inversion H. apply andb_prop in E2. destruct E2 as [E2 E2'].
    apply N.leb_le in E2, E2'. lia. }
  destruct ((65 <=? c) && (c <=? 70)) eqn:E3; [|discriminate].
  intros H. inversion H. apply andb_prop in E3. destruct E3 as [E3 E3'].
  apply N.leb_le in E3, E3'. lia.
Qed.

Lemma fromhex_aux_bytes : forall (x : str) (pend : option N) (b : bytes),
  (forall h, pend = Some h -> h < 16) -> fromhex_aux x pend = Some b -> wf_bytes b.
Proof.
  induction x as [|c r IH]; intros pend b Hp H; cbn [fromhex_aux] in H.
  - destruct pend; [discriminate|]. inversion H. constructor.
  - destruct pend as [h|].
    + destruct (hexval c) as [l|] eqn:El; [|discriminate].
      destruct (fromhex_aux r None) as [bs|] eqn:Er; [|discriminate].
      inversion H; subst. constructor.
      * pose proof (Hp h eq_refl). pose proof (hexval_lt16 _ _ El). lia.
      * apply (IH None); [discriminate|exact Er].
    + destruct (is_pyspace c).
      * apply (IH None); [discriminate|exact H].
      * destruct (hexval c) as [h|] eqn:Eh; [|discriminate].
        apply (IH (Some h)); [|exact H]. intros h' E. inversion E; subst.
        eapply hexval_lt16. exact Eh.
Qed.

Lemma fromhex_bytes (x : str) (b : bytes) : fromhex x = Some b -> wf_bytes b.
Proof. apply fromhex_aux_bytes. discriminate. Qed.

Lemma hexdigit_ascii (n : N) : n < 16 -> hexdigit n < 128.
Proof. intros H. unfold hexdigit. destruct (n <? 10); lia. Qed.

Lemma hex_ascii (b : bytes) : wf_bytes b -> Forall (fun c => c < 128) (hex b).
Proof.
  induction 1 as [|x b Hx Hb IH]; [constructor|]. cbn [hex].
  assert (H1 : x / 16 < 16) by (apply N.div_lt_upper_bound; lia).
  assert (H2 : x mod 16 < 16) by (apply N.mod_upper_bound; lia).
  constructor; [apply hexdigit_ascii, H1|]. constructor; [apply hexdigit_ascii, H2|exact IH].
Qed.

Lemma hex_ascii_b (b : bytes) : wf_bytes b -> forallb (fun c => c <? 128) (hex b) = true.
Proof. intros H. apply forallb_Forall_lt, hex_ascii, H. Qed.
