(* C02: requests are classified exactly as the protocol specification prescribes, and a
   request that is not accepted causes no exchange with the device. *)
From PowHsm Require Import Model.LedgerProtocol.
From Coq Require Import ZifyBool ZifyNat ZifyN Lia.
Open Scope N_scope.

(* ---------- strings ---------- *)
Lemma str_eqb_eq (a b : str) : str_eqb a b = true <-> a = b.
Proof.
  unfold str_eqb. revert b. induction a as [|x a IH]; intros [|y b]; cbn [list_eqb]; split;
    intro H; try reflexivity; try discriminate.
  - apply andb_true_iff in H. destruct H as [H1 H2].
    apply N.eqb_eq in H1. apply IH in H2. subst. reflexivity.
  - inversion H; subst. rewrite N.eqb_refl. cbn [andb]. apply IH. reflexivity.
Qed.

Lemma str_eqb_refl (a : str) : str_eqb a a = true.
Proof. apply str_eqb_eq. reflexivity. Qed.

Lemma py_eq_str_iff j x : py_eq_str j x = true <-> j = JStr x.
Proof.
  destruct j; cbn [py_eq_str]; split; intro H; try discriminate.
  - apply str_eqb_eq in H. subst. reflexivity.
  - inversion H; subst. apply str_eqb_refl.
Qed.

Lemma str_in_iff x l : str_in x l = true <-> In x l.
Proof.
  unfold str_in. rewrite existsb_exists. split.
  - intros [y [Hy He]]. apply str_eqb_eq in He. subst. exact Hy.
  - intro H. exists x. split; [exact H | apply str_eqb_refl].
Qed.

(* ======================================================================================= *)
(* A.2  The generic gate: the docs' rules in the docs' order                                *)
(* ======================================================================================= *)

Definition unhashable_code (m : pmode) : option Z :=
  match m with V5 => GATE_UNHASHABLE_COMMAND_V5 | V1 => GATE_UNHASHABLE_COMMAND_V1 end.

(* the version rule has been passed: "version" carries the mode's number, or the command is
   the version query and there is no "version" member *)
Definition version_passed (m : pmode) (req : obj) (command : json) : Prop :=
  match jget KEY_VERSION req with
  | Some v => py_eq_int v (c_version (codes_of m)) = true
  | None => py_eq_str command CMDNAME_VERSION_COMMAND = true
  end.

(* rule 1: not a JSON object -> format error *)
Lemma gate_not_object m r :
  is_jobj r = false -> gate_request m r = GReject (c_format (codes_of m)).
Proof. destruct r; cbn [is_jobj]; intro H; try discriminate; reflexivity. Qed.

(* rule 2: no "command" member -> invalid request *)
Lemma gate_no_command m req :
  jget KEY_COMMAND req = None ->
  gate_request m (JObj req) = GReject (c_invalid_request (codes_of m)).
Proof. intro H. unfold gate_request. rewrite H. reflexivity. Qed.

(* rule 3: command is not "version" and there is no "version" member -> invalid request *)
Lemma gate_no_version m req command :
  jget KEY_COMMAND req = Some command ->
  py_eq_str command CMDNAME_VERSION_COMMAND = false ->
  jget KEY_VERSION req = None ->
  gate_request m (JObj req) = GReject (c_invalid_request (codes_of m)).
Proof.
  intros Hc Hv Hn. unfold gate_request. rewrite Hc. unfold jhas. rewrite Hn, Hv. reflexivity.
Qed.

(* rule 4: "version" present and different (Python ==) from the mode's number -> wrong version *)
Lemma gate_wrong_version m req command v :
  jget KEY_COMMAND req = Some command ->
  jget KEY_VERSION req = Some v ->
  py_eq_int v (c_version (codes_of m)) = false ->
  gate_request m (JObj req) = GReject (c_wrong_version (codes_of m)).
Proof.
  intros Hc Hv Hn. unfold gate_request. rewrite Hc. unfold jhas. rewrite Hv, Hn.
  rewrite andb_false_r. reflexivity.
Qed.

(* common prefix of rules 5-7 *)
Lemma gate_after_version m req command :
  jget KEY_COMMAND req = Some command ->
  version_passed m req command ->
  gate_request m (JObj req) =
    if negb (hashable command) then
      match unhashable_code m with Some code => GReject code | None => GCrash TypeError end
    else
      match command with
      | JStr cmd =>
          if negb (str_in cmd (known_commands m)) then GReject (c_unknown_cmd (codes_of m)) else
          match validator_name m cmd with
          | Some vn =>
              match run_validator m vn req with
              | Some v => if (v <? 0)%Z then GReject v else GAccept cmd req
              | None => GCrash KeyError
              end
          | None => GCrash KeyError
          end
      | _ => GReject (c_unknown_cmd (codes_of m))
      end.
Proof.
  intros Hc Hv. unfold gate_request. rewrite Hc. unfold version_passed in Hv. unfold jhas.
  destruct (jget KEY_VERSION req) as [v|] eqn:Ev.
  - rewrite Hv. rewrite andb_false_r. cbn [negb]. destruct m; reflexivity.
  - rewrite Hv. cbn [negb andb]. destruct m; reflexivity.
Qed.

(* rule 5: the command is a list or an object -> what the generated table says the source does *)
Lemma gate_unhashable m req command :
  jget KEY_COMMAND req = Some command ->
  version_passed m req command ->
  hashable command = false ->
  gate_request m (JObj req) =
    match unhashable_code m with Some code => GReject code | None => GCrash TypeError end.
Proof. intros Hc Hv Hh. rewrite (gate_after_version m req command Hc Hv), Hh. reflexivity. Qed.

(* rule 6: the command is not one of the mode's command names -> unknown command *)
Lemma gate_unknown_command m req command :
  jget KEY_COMMAND req = Some command ->
  version_passed m req command ->
  hashable command = true ->
  (forall cmd, command = JStr cmd -> ~ In cmd (known_commands m)) ->
  gate_request m (JObj req) = GReject (c_unknown_cmd (codes_of m)).
Proof.
  intros Hc Hv Hh Hk. rewrite (gate_after_version m req command Hc Hv), Hh. cbn [negb].
  destruct command; try reflexivity.
  destruct (str_in x (known_commands m)) eqn:Ei; [|reflexivity].
  apply str_in_iff in Ei. exfalso. exact (Hk x eq_refl Ei).
Qed.

(* rule 7: a known command -> its validator decides *)
Lemma gate_known_command m req cmd vn v :
  jget KEY_COMMAND req = Some (JStr cmd) ->
  version_passed m req (JStr cmd) ->
  In cmd (known_commands m) ->
  validator_name m cmd = Some vn ->
  run_validator m vn req = Some v ->
  gate_request m (JObj req) = if (v <? 0)%Z then GReject v else GAccept cmd req.
Proof.
  intros Hc Hv Hk Hn Hr. rewrite (gate_after_version m req _ Hc Hv). cbn [hashable negb].
  apply str_in_iff in Hk. rewrite Hk. cbn [negb]. rewrite Hn, Hr. reflexivity.
Qed.

(* The rules are exhaustive: which of them applies to a request is decided by this verdict;
   each constructor's guard is stated exactly in [classify_*_iff] below. *)
Inductive verdict :=
| VFormat | VInvalidRequest | VWrongVersion | VUnhashable | VUnknown
| VValidate (cmd : str) (req : obj).

Definition classify_request (m : pmode) (r : json) : verdict :=
  match r with
  | JObj req =>
      match jget KEY_COMMAND req with
      | None => VInvalidRequest
      | Some command =>
          match jget KEY_VERSION req with
          | None => if py_eq_str command CMDNAME_VERSION_COMMAND
                    then (if str_in CMDNAME_VERSION_COMMAND (known_commands m)
                          then VValidate CMDNAME_VERSION_COMMAND req else VUnknown)
                    else VInvalidRequest
          | Some v =>
              if negb (py_eq_int v (c_version (codes_of m))) then VWrongVersion else
              if negb (hashable command) then VUnhashable else
              match command with
              | JStr cmd => if str_in cmd (known_commands m) then VValidate cmd req else VUnknown
              | _ => VUnknown
              end
          end
      end
  | _ => VFormat
  end.

Definition gate_of_verdict (m : pmode) (v : verdict) : gate :=
  let c := codes_of m in
  match v with
  | VFormat => GReject (c_format c)
  | VInvalidRequest => GReject (c_invalid_request c)
  | VWrongVersion => GReject (c_wrong_version c)
  | VUnhashable => match unhashable_code m with Some code => GReject code | None => GCrash TypeError end
  | VUnknown => GReject (c_unknown_cmd c)
  | VValidate cmd req =>
      match validator_name m cmd with
      | Some vn =>
          match run_validator m vn req with
          | Some v => if (v <? 0)%Z then GReject v else GAccept cmd req
          | None => GCrash KeyError
          end
      | None => GCrash KeyError
      end
  end.

Theorem gate_request_classified m r :
  gate_request m r = gate_of_verdict m (classify_request m r).
Proof.
  destruct r as [| | | | |l|req]; try reflexivity.
  unfold classify_request.
  destruct (jget KEY_COMMAND req) as [command|] eqn:Ec.
  2:{ rewrite (gate_no_command m req Ec). reflexivity. }
  destruct (jget KEY_VERSION req) as [v|] eqn:Ev.
  - destruct (py_eq_int v (c_version (codes_of m))) eqn:Ei; cbn [negb].
    2:{ rewrite (gate_wrong_version m req command v Ec Ev Ei). reflexivity. }
    assert (Hp : version_passed m req command) by (unfold version_passed; rewrite Ev; exact Ei).
    rewrite (gate_after_version m req command Ec Hp).
    destruct (hashable command) eqn:Eh; cbn [negb]; [|reflexivity].
    destruct command; try reflexivity.
    destruct (str_in x (known_commands m)); reflexivity.
  - destruct (py_eq_str command CMDNAME_VERSION_COMMAND) eqn:Es.
    2:{ rewrite (gate_no_version m req command Ec Es Ev). reflexivity. }
    assert (Hp : version_passed m req command) by (unfold version_passed; rewrite Ev; exact Es).
    rewrite (gate_after_version m req command Ec Hp).
    apply py_eq_str_iff in Es. subst command. cbn [hashable negb].
    destruct (str_in CMDNAME_VERSION_COMMAND (known_commands m)); reflexivity.
Qed.

(* exact guards of every verdict *)
Lemma classify_format_iff m r : classify_request m r = VFormat <-> is_jobj r = false.
Proof.
  destruct r; cbn [classify_request is_jobj]; split; intro H; try reflexivity; try discriminate.
  destruct (jget KEY_COMMAND kv); [|discriminate].
  destruct (jget KEY_VERSION kv).
  - destruct (negb _); [discriminate|]. destruct (negb _); [discriminate|].
    destruct j; try discriminate. destruct (str_in _ _); discriminate.
  - destruct (py_eq_str _ _); [|discriminate]. destruct (str_in _ _); discriminate.
Qed.

Lemma classify_invalid_request_iff m r :
  classify_request m r = VInvalidRequest <->
  exists req, r = JObj req /\
    (jget KEY_COMMAND req = None \/
     exists command, jget KEY_COMMAND req = Some command /\
                     py_eq_str command CMDNAME_VERSION_COMMAND = false /\
                     jget KEY_VERSION req = None).
Proof.
  split.
  - destruct r; cbn [classify_request]; intro H; try discriminate.
    exists kv. split; [reflexivity|].
    destruct (jget KEY_COMMAND kv) as [command|]; [right|left; reflexivity].
    exists command. split; [reflexivity|].
    destruct (jget KEY_VERSION kv).
    + destruct (negb _); [discriminate|]. destruct (negb _); [discriminate|].
      destruct command; try discriminate. destruct (str_in _ _); discriminate.
    + destruct (py_eq_str _ _); [|split; reflexivity]. destruct (str_in _ _); discriminate.
  - intros [req [-> [H | [command [Hc [Hs Hv]]]]]]; cbn [classify_request].
    + rewrite H. reflexivity.
    + rewrite Hc, Hv, Hs. reflexivity.
Qed.

Lemma classify_wrong_version_iff m r :
  classify_request m r = VWrongVersion <->
  exists req command v, r = JObj req /\ jget KEY_COMMAND req = Some command /\
    jget KEY_VERSION req = Some v /\ py_eq_int v (c_version (codes_of m)) = false.
Proof.
  split.
  - destruct r; cbn [classify_request]; intro H; try discriminate.
    destruct (jget KEY_COMMAND kv) as [command|] eqn:Ec; [|discriminate].
    destruct (jget KEY_VERSION kv) as [v|] eqn:Ev.
    + exists kv, command, v. split; [reflexivity|]. split; [exact Ec|]. split; [exact Ev|].
      destruct (py_eq_int v _); [|reflexivity]. cbn [negb] in H.
      destruct (negb _); [discriminate|].
      destruct command; try discriminate. destruct (str_in _ _); discriminate.
    + destruct (py_eq_str _ _); [|discriminate]. destruct (str_in _ _); discriminate.
  - intros [req [command [v [-> [Hc [Hv Hi]]]]]]. cbn [classify_request].
    rewrite Hc, Hv, Hi. reflexivity.
Qed.

Lemma classify_unhashable_iff m r :
  classify_request m r = VUnhashable <->
  exists req command, r = JObj req /\ jget KEY_COMMAND req = Some command /\
    version_passed m req command /\ hashable command = false.
Proof.
  split.
  - destruct r; cbn [classify_request]; intro H; try discriminate.
    destruct (jget KEY_COMMAND kv) as [command|] eqn:Ec; [|discriminate].
    exists kv, command. split; [reflexivity|]. split; [exact Ec|].
    unfold version_passed.
    destruct (jget KEY_VERSION kv) as [v|].
    + destruct (py_eq_int v _); [|discriminate]. split; [reflexivity|]. cbn [negb] in H.
      destruct (hashable command); [|reflexivity]. cbn [negb] in H.
      destruct command; try discriminate. destruct (str_in _ _); discriminate.
    + destruct (py_eq_str _ _); [|discriminate]. destruct (str_in _ _); discriminate.
  - intros [req [command [-> [Hc [Hp Hh]]]]]. cbn [classify_request]. rewrite Hc.
    unfold version_passed in Hp. destruct (jget KEY_VERSION req) as [v|].
    + rewrite Hp, Hh. reflexivity.
    + apply py_eq_str_iff in Hp. subst. discriminate.
Qed.

Lemma classify_unknown_iff m r :
  classify_request m r = VUnknown <->
  exists req command, r = JObj req /\ jget KEY_COMMAND req = Some command /\
    version_passed m req command /\ hashable command = true /\
    (forall cmd, command = JStr cmd -> ~ In cmd (known_commands m)).
Proof.
  split.
  - destruct r; cbn [classify_request]; intro H; try discriminate.
    destruct (jget KEY_COMMAND kv) as [command|] eqn:Ec; [|discriminate].
    exists kv, command. split; [reflexivity|]. split; [exact Ec|].
    unfold version_passed.
    destruct (jget KEY_VERSION kv) as [v|].
    + destruct (py_eq_int v _); [|discriminate]. split; [reflexivity|]. cbn [negb] in H.
      destruct (hashable command); [|discriminate]. split; [reflexivity|]. cbn [negb] in H.
      intros cmd ->. destruct (str_in cmd (known_commands m)) eqn:Ei; [discriminate|].
      intro Hin. apply str_in_iff in Hin. congruence.
    + destruct (py_eq_str command _) eqn:Es; [|discriminate]. split; [reflexivity|].
      apply py_eq_str_iff in Es. subst command. split; [reflexivity|].
      intros cmd Hcmd. inversion Hcmd; subst cmd.
      destruct (str_in CMDNAME_VERSION_COMMAND (known_commands m)) eqn:Ei; [discriminate|].
      intro Hin. apply str_in_iff in Hin. congruence.
  - intros [req [command [-> [Hc [Hp [Hh Hk]]]]]]. cbn [classify_request]. rewrite Hc.
    unfold version_passed in Hp. destruct (jget KEY_VERSION req) as [v|].
    + rewrite Hp, Hh. cbn [negb]. destruct command; try reflexivity.
      destruct (str_in x (known_commands m)) eqn:Ei; [|reflexivity].
      apply str_in_iff in Ei. exfalso. exact (Hk x eq_refl Ei).
    + rewrite Hp. apply py_eq_str_iff in Hp. subst command.
      destruct (str_in _ (known_commands m)) eqn:Ei; [|reflexivity].
      apply str_in_iff in Ei. exfalso. exact (Hk _ eq_refl Ei).
Qed.

Lemma classify_validate_iff m r cmd req :
  classify_request m r = VValidate cmd req <->
  r = JObj req /\ jget KEY_COMMAND req = Some (JStr cmd) /\
  version_passed m req (JStr cmd) /\ In cmd (known_commands m).
Proof.
  split.
  - destruct r; cbn [classify_request]; intro H; try discriminate.
    destruct (jget KEY_COMMAND kv) as [command|] eqn:Ec; [|discriminate].
    unfold version_passed.
    destruct (jget KEY_VERSION kv) as [v|] eqn:Ev.
    + destruct (py_eq_int v _) eqn:Ei; [|discriminate]. cbn [negb] in H.
      destruct (hashable command); [|discriminate]. cbn [negb] in H.
      destruct command; try discriminate.
      destruct (str_in x (known_commands m)) eqn:Es; [|discriminate].
      inversion H; subst. rewrite Ec, Ev. repeat split; auto. apply str_in_iff. exact Es.
    + destruct (py_eq_str command _) eqn:Es; [|discriminate].
      apply py_eq_str_iff in Es. subst command.
      destruct (str_in _ (known_commands m)) eqn:Ei; [|discriminate].
      inversion H; subst. rewrite Ec, Ev.
      split; [reflexivity|]. split; [reflexivity|]. split; [apply str_eqb_refl|].
      apply str_in_iff. exact Ei.
  - intros [-> [Hc [Hp Hk]]]. cbn [classify_request]. rewrite Hc.
    apply str_in_iff in Hk.
    unfold version_passed in Hp. destruct (jget KEY_VERSION req) as [v|].
    + rewrite Hp. cbn [negb hashable]. rewrite Hk. reflexivity.
    + rewrite Hp. apply py_eq_str_iff in Hp. inversion Hp; subst. rewrite Hk. reflexivity.
Qed.

(* ======================================================================================= *)
(* A.3  Validator specifications                                                           *)
(* ======================================================================================= *)

(* a member that is a hex string decoding to a byte string with property P *)
Definition hex_member (o : obj) (k : str) (P : bytes -> Prop) : Prop :=
  exists x b, jget k o = Some (JStr x) /\ fromhex x = Some b /\ P b.

Definition nonempty_hex_json (j : json) : Prop :=
  exists x b, j = JStr x /\ fromhex x = Some b /\ 0 < nlen b.

Lemma is_hex_string_of_length_iff x n :
  is_hex_string_of_length x n = true <-> exists b, fromhex x = Some b /\ nlen b = n.
Proof.
  unfold is_hex_string_of_length. destruct (fromhex x) as [b|]; split.
  - intro H. exists b. split; [reflexivity | lia].
  - intros [b' [Hb Hn]]. inversion Hb; subst. lia.
  - discriminate.
  - intros [b' [Hb _]]. discriminate.
Qed.

Lemma is_nonempty_hex_string_iff x :
  is_nonempty_hex_string x = true <-> exists b, fromhex x = Some b /\ 0 < nlen b.
Proof.
  unfold is_nonempty_hex_string. destruct (fromhex x) as [b|]; split.
  - intro H. exists b. split; [reflexivity | lia].
  - intros [b' [Hb Hn]]. inversion Hb; subst. lia.
  - discriminate.
  - intros [b' [Hb _]]. discriminate.
Qed.

Lemma has_hex_field_of_length_iff o k n :
  has_hex_field_of_length o k n = true <-> hex_member o k (fun b => nlen b = n).
Proof.
  unfold has_hex_field_of_length, hex_member. split.
  - destruct (jget k o) as [[]|]; try discriminate. intro H.
    apply is_hex_string_of_length_iff in H. destruct H as [b [H1 H2]]. exists x, b. auto.
  - intros [x [b [Hj [Hf Hn]]]]. rewrite Hj. apply is_hex_string_of_length_iff. exists b. auto.
Qed.

Lemma has_nonempty_hex_field_iff o k :
  has_nonempty_hex_field o k = true <-> hex_member o k (fun b => 0 < nlen b).
Proof.
  unfold has_nonempty_hex_field, hex_member. split.
  - destruct (jget k o) as [[]|]; try discriminate. intro H.
    apply is_nonempty_hex_string_iff in H. destruct H as [b [H1 H2]]. exists x, b. auto.
  - intros [x [b [Hj [Hf Hn]]]]. rewrite Hj. apply is_nonempty_hex_string_iff. exists b. auto.
Qed.

Lemma all_nonempty_hex_strs_iff l :
  all_nonempty_hex_strs l = true <-> Forall nonempty_hex_json l.
Proof.
  unfold all_nonempty_hex_strs. rewrite forallb_forall, Forall_forall.
  split; intros H j Hj; specialize (H j Hj).
  - destruct j; try discriminate. apply is_nonempty_hex_string_iff in H.
    destruct H as [b [H1 H2]]. exists x, b. auto.
  - destruct H as [x [b [-> [H1 H2]]]]. apply is_nonempty_hex_string_iff. exists b. auto.
Qed.

Lemma all_strs_iff l : all_strs l = true <-> Forall (fun j => exists x, j = JStr x) l.
Proof.
  unfold all_strs. rewrite forallb_forall, Forall_forall.
  split; intros H j Hj; specialize (H j Hj).
  - destruct j; try discriminate. eauto.
  - destruct H as [x ->]. reflexivity.
Qed.

(* every validator answers 0 or one of its own codes *)
Lemma validate_key_id_cases c req :
  validate_key_id c req = 0%Z \/ validate_key_id c req = c_invalid_keyid c.
Proof.
  unfold validate_key_id. destruct (jget (s "keyId") req) as [[]|]; auto.
  destruct (bip32_path x); auto.
Qed.

Lemma validate_auth_cases c req b :
  validate_auth c req b = 0%Z \/ validate_auth c req b = c_invalid_auth c.
Proof.
  unfold validate_auth. destruct (jget (s "auth") req) as [[]|]; auto.
  - destruct (negb _); auto.
    destruct (jget (s "receipt_merkle_proof") kv) as [[]|]; auto.
    destruct l; auto. destruct (all_nonempty_hex_strs _); auto.
  - destruct b; auto.
Qed.

Lemma validate_message_cases c req k :
  validate_message c req k = 0%Z \/ validate_message c req k = c_invalid_message c.
Proof.
  unfold validate_message. destruct (jget (s "message") req) as [[]|]; auto.
  destruct (_ && _); auto. destruct (_ && _); auto. destruct (_ && _); auto.
Qed.

Lemma validate_heartbeat_cases c req n :
  validate_heartbeat c req n = 0%Z \/ validate_heartbeat c req n = c_hb_ud c.
Proof.
  unfold validate_heartbeat. destruct (jget (s "udValue") req) as [[]|]; auto.
  destruct (is_hex_string_of_length _ _); auto.
Qed.

Lemma validate_update_ancestor_block_cases c req :
  validate_update_ancestor_block c req = 0%Z \/
  validate_update_ancestor_block c req = c_input_blocks c.
Proof.
  unfold validate_update_ancestor_block. destruct (jget (s "blocks") req) as [[]|]; auto.
  destruct (_ <? _); auto. destruct (all_strs _); auto.
Qed.

Lemma validate_advance_blockchain_cases c req :
  validate_advance_blockchain c req = 0%Z \/
  validate_advance_blockchain c req = c_input_blocks c \/
  validate_advance_blockchain c req = c_brothers c.
Proof.
  unfold validate_advance_blockchain. destruct (jget (s "blocks") req) as [[]|]; auto.
  destruct l; auto. destruct (negb (all_strs _)); auto.
  destruct (jget (s "brothers") req) as [[]|]; auto.
  destruct (negb (Nat.eqb _ _)); auto. destruct (negb (forallb _ _)); auto.
  destruct (forallb _ _); auto.
Qed.

(* ---------- heartbeat ---------- *)
Theorem validate_heartbeat_ok_iff c req n :
  c_hb_ud c <> 0%Z ->
  (validate_heartbeat c req n = 0%Z <-> hex_member req (s "udValue") (fun b => nlen b = n)).
Proof.
  intro Hc. unfold validate_heartbeat, hex_member. split.
  - destruct (jget (s "udValue") req) as [[]|]; try contradiction.
    destruct (is_hex_string_of_length x n) eqn:E; [|contradiction]. intros _.
    apply is_hex_string_of_length_iff in E. destruct E as [b [H1 H2]]. exists x, b. auto.
  - intros [x [b [Hj [Hf Hn]]]]. rewrite Hj.
    replace (is_hex_string_of_length x n) with true; [reflexivity|].
    symmetry. apply is_hex_string_of_length_iff. exists b. auto.
Qed.

(* ---------- keyId ---------- *)
Theorem validate_key_id_ok_iff c req :
  c_invalid_keyid c <> 0%Z ->
  (validate_key_id c req = 0%Z <->
   exists x p, jget (s "keyId") req = Some (JStr x) /\ bip32_path x = Some p).
Proof.
  intro Hc. unfold validate_key_id. split.
  - destruct (jget (s "keyId") req) as [[]|]; try contradiction.
    destruct (bip32_path x) as [p|] eqn:E; [|contradiction]. intros _. exists x, p. auto.
  - intros [x [p [Hj Hp]]]. rewrite Hj, Hp. reflexivity.
Qed.

(* ---------- auth ---------- *)
Definition auth_shape (auth : obj) : Prop :=
  hex_member auth (s "receipt") (fun b => 0 < nlen b) /\
  exists l, jget (s "receipt_merkle_proof") auth = Some (JArr l) /\ l <> [] /\
            Forall nonempty_hex_json l.

Theorem validate_auth_ok_iff c req mandatory :
  c_invalid_auth c <> 0%Z ->
  (validate_auth c req mandatory = 0%Z <->
   (jget (s "auth") req = None /\ mandatory = false) \/
   exists auth, jget (s "auth") req = Some (JObj auth) /\ auth_shape auth).
Proof.
  intro Hc. unfold validate_auth, auth_shape. split.
  - destruct (jget (s "auth") req) as [[]|]; try contradiction.
    + destruct (has_nonempty_hex_field kv (s "receipt")) eqn:Er; cbn [negb]; [|contradiction].
      destruct (jget (s "receipt_merkle_proof") kv) as [[]|] eqn:Ep; try contradiction.
      destruct l as [|j l]; [contradiction|].
      destruct (all_nonempty_hex_strs (j :: l)) eqn:Ea; [|contradiction]. intros _.
      right. exists kv. split; [reflexivity|]. split.
      * apply has_nonempty_hex_field_iff. exact Er.
      * exists (j :: l). split; [exact Ep|]. split; [discriminate|].
        apply all_nonempty_hex_strs_iff. exact Ea.
    + destruct mandatory; [contradiction|]. intros _. left. auto.
  - intros [[Hn Hm] | [auth [Ha [Hr [l [Hp [Hl Hf]]]]]]].
    + rewrite Hn, Hm. reflexivity.
    + rewrite Ha. apply has_nonempty_hex_field_iff in Hr. rewrite Hr. cbn [negb]. rewrite Hp.
      apply all_nonempty_hex_strs_iff in Hf. rewrite Hf.
      destruct l; [contradiction|reflexivity].
Qed.

(* ---------- message ---------- *)
Definition input_ok (m : obj) : Prop :=
  exists z, jget (s "input") m = Some (JInt z) /\
            (SIGN_INPUT_RANGE_CHECKED = true -> (0 <= z <= 4294967295)%Z).

Definition hash_shape (m : obj) : Prop :=
  length m = 1%nat /\ hex_member m (s "hash") (fun b => nlen b = 32).

Definition legacy_shape (m : obj) : Prop :=
  length m = 3%nat /\ hex_member m (s "tx") (fun b => 0 < nlen b) /\ input_ok m /\
  jget (s "sighashComputationMode") m = Some (JStr (s "legacy")).

Definition segwit_shape (m : obj) : Prop :=
  length m = 5%nat /\ hex_member m (s "tx") (fun b => 0 < nlen b) /\ input_ok m /\
  jget (s "sighashComputationMode") m = Some (JStr (s "segwit")) /\
  hex_member m (s "witnessScript") (fun b => 0 < nlen b) /\
  exists v, jget (s "outpointValue") m = Some (JInt v) /\ (0 < v <= 2 ^ 64 - 1)%Z.

Lemma has_input_field_iff m : has_input_field m = true <-> input_ok m.
Proof.
  unfold has_input_field, input_ok. split.
  - destruct (jget (s "input") m) as [[]|]; try discriminate.
    intro H. exists z. split; [reflexivity|]. intro Hc. rewrite Hc in H. lia.
  - intros [z [Hj Hr]]. rewrite Hj. destruct SIGN_INPUT_RANGE_CHECKED; [|reflexivity].
    specialize (Hr eq_refl). lia.
Qed.

Lemma mode_test_iff m x :
  has_str_field m (s "sighashComputationMode") &&
  match jget (s "sighashComputationMode") m with
  | Some j => py_eq_str j x | None => false end = true
  <-> jget (s "sighashComputationMode") m = Some (JStr x).
Proof.
  unfold has_str_field. destruct (jget (s "sighashComputationMode") m) as [j|]; split;
    try discriminate.
  - intro H. apply andb_true_iff in H. destruct H as [_ H]. apply py_eq_str_iff in H. congruence.
  - intro H. inversion H; subst. cbn [andb py_eq_str]. apply str_eqb_refl.
Qed.

Lemma outpoint_test_iff m :
  match jget (s "outpointValue") m with
  | Some (JInt v) => (0 <? v)%Z && (v <=? MAX_U64)%Z | _ => false end = true
  <-> exists v, jget (s "outpointValue") m = Some (JInt v) /\ (0 < v <= 2 ^ 64 - 1)%Z.
Proof.
  change (2 ^ 64 - 1)%Z with MAX_U64. unfold MAX_U64.
  destruct (jget (s "outpointValue") m) as [[]|]; split; try discriminate;
    try (intros [v [Hv _]]; discriminate).
  - intro H. exists z. split; [reflexivity | lia].
  - intros [v [Hv Hr]]. inversion Hv; subst. lia.
Qed.

Lemma hash_test_iff m :
  Nat.eqb (length m) 1 && has_hex_field_of_length m (s "hash") 32 = true <-> hash_shape m.
Proof.
  unfold hash_shape. rewrite andb_true_iff, Nat.eqb_eq, has_hex_field_of_length_iff. reflexivity.
Qed.

Lemma legacy_test_iff m :
  Nat.eqb (length m) 3 && has_nonempty_hex_field m (s "tx") && has_input_field m
  && has_str_field m (s "sighashComputationMode")
  && match jget (s "sighashComputationMode") m with
     | Some j => py_eq_str j (s "legacy") | None => false end = true
  <-> legacy_shape m.
Proof.
  unfold legacy_shape. rewrite <- andb_assoc.
  rewrite !andb_true_iff, Nat.eqb_eq, has_nonempty_hex_field_iff, has_input_field_iff.
  rewrite <- andb_true_iff, mode_test_iff. tauto.
Qed.

Lemma segwit_test_iff m :
  Nat.eqb (length m) 5 && has_nonempty_hex_field m (s "tx") && has_input_field m
  && has_str_field m (s "sighashComputationMode")
  && match jget (s "sighashComputationMode") m with
     | Some j => py_eq_str j (s "segwit") | None => false end
  && has_nonempty_hex_field m (s "witnessScript")
  && match jget (s "outpointValue") m with
     | Some (JInt v) => (0 <? v)%Z && (v <=? MAX_U64)%Z | _ => false end = true
  <-> segwit_shape m.
Proof.
  unfold segwit_shape.
  rewrite (andb_true_iff _ (match jget (s "outpointValue") m with
                            | Some (JInt v) => _ | _ => false end)).
  rewrite outpoint_test_iff.
  rewrite (andb_true_iff _ (has_nonempty_hex_field m (s "witnessScript"))).
  rewrite (has_nonempty_hex_field_iff m (s "witnessScript")).
  rewrite <- andb_assoc.
  rewrite !andb_true_iff, Nat.eqb_eq, has_nonempty_hex_field_iff, has_input_field_iff.
  rewrite <- andb_true_iff, mode_test_iff. tauto.
Qed.

Definition hash_allowed (k : msg_kind) : bool := match k with WTx => false | _ => true end.
Definition tx_allowed (k : msg_kind) : bool := match k with WHash => false | _ => true end.

Theorem validate_message_ok_iff c req what :
  c_invalid_message c <> 0%Z ->
  (validate_message c req what = 0%Z <->
   exists m, jget (s "message") req = Some (JObj m) /\
     ((hash_allowed what = true /\ hash_shape m) \/
      (tx_allowed what = true /\ (legacy_shape m \/ segwit_shape m)))).
Proof.
  intro Hc. unfold validate_message.
  destruct (jget (s "message") req) as [[| | | | | |m]|];
    try (split; [contradiction | intros [m' [Hm _]]; discriminate]).
  fold (hash_allowed what). fold (tx_allowed what).
  rewrite <- !andb_assoc.
  pose proof (hash_test_iff m) as Hh.
  pose proof (legacy_test_iff m) as Hl. rewrite <- !andb_assoc in Hl.
  pose proof (segwit_test_iff m) as Hs. rewrite <- !andb_assoc in Hs.
  destruct (hash_allowed what); cbn [andb].
  - match goal with |- context [if ?b then 0%Z else _] => destruct b eqn:E1 end.
    + split; [|reflexivity]. intros _. exists m. split; [reflexivity|]. left. tauto.
    + destruct (tx_allowed what); cbn [andb].
      * match goal with |- context [if ?b then 0%Z else _] => destruct b eqn:E2 end.
        { split; [|reflexivity]. intros _. exists m. split; [reflexivity|]. right. tauto. }
        match goal with |- context [if ?b then 0%Z else _] => destruct b eqn:E3 end.
        { split; [|reflexivity]. intros _. exists m. split; [reflexivity|]. right. tauto. }
        split; [contradiction|]. intros [m' [Hm H]]. inversion Hm; subst m'.
        exfalso. destruct H as [[_ H] | [_ [H | H]]].
        -- apply Hh in H. discriminate.
        -- apply Hl in H. discriminate.
        -- apply Hs in H. discriminate.
      * split; [contradiction|]. intros [m' [Hm H]]. inversion Hm; subst m'.
        exfalso. destruct H as [[_ H] | [H _]]; [|discriminate].
        apply Hh in H. discriminate.
  - destruct (tx_allowed what); cbn [andb].
    + match goal with |- context [if ?b then 0%Z else _] => destruct b eqn:E2 end.
      { split; [|reflexivity]. intros _. exists m. split; [reflexivity|]. right. tauto. }
      match goal with |- context [if ?b then 0%Z else _] => destruct b eqn:E3 end.
      { split; [|reflexivity]. intros _. exists m. split; [reflexivity|]. right. tauto. }
      split; [contradiction|]. intros [m' [Hm H]]. inversion Hm; subst m'.
      exfalso. destruct H as [[H _] | [_ [H | H]]].
      * discriminate.
      * apply Hl in H. discriminate.
      * apply Hs in H. discriminate.
    + split; [contradiction|]. intros [m' [Hm H]]. exfalso.
      destruct H as [[H _] | [H _]]; discriminate.
Qed.

(* ---------- advanceBlockchain ---------- *)
Definition is_str_json (j : json) : Prop := exists x, j = JStr x.

Definition blocks_ok (req : obj) : Prop :=
  exists bl, jget (s "blocks") req = Some (JArr bl) /\ bl <> [] /\ Forall is_str_json bl.

Definition brothers_ok (req : obj) : Prop :=
  exists bl bros, jget (s "blocks") req = Some (JArr bl) /\
    jget (s "brothers") req = Some (JArr bros) /\ length bros = length bl /\
    Forall (fun b => exists l, b = JArr l /\ Forall nonempty_hex_json l) bros.

Lemma brothers_test_iff bros :
  forallb (fun b => match b with JArr l => all_nonempty_hex_strs l | _ => false end) bros = true
  <-> Forall (fun b => exists l, b = JArr l /\ Forall nonempty_hex_json l) bros.
Proof.
  rewrite forallb_forall, Forall_forall. split; intros H b Hb; specialize (H b Hb).
  - destruct b; try discriminate. exists l. split; [reflexivity|].
    apply all_nonempty_hex_strs_iff. exact H.
  - destruct H as [l [-> H]]. apply all_nonempty_hex_strs_iff. exact H.
Qed.

Lemma brothers_test_is_jarr bros :
  forallb (fun b => match b with JArr l => all_nonempty_hex_strs l | _ => false end) bros = true ->
  forallb is_jarr bros = true.
Proof.
  rewrite !forallb_forall. intros H b Hb. specialize (H b Hb). destruct b; try discriminate.
  reflexivity.
Qed.

(* the blocks check comes first *)
Theorem validate_advance_blocks_first c req :
  ~ blocks_ok req -> validate_advance_blockchain c req = c_input_blocks c.
Proof.
  intro Hn. unfold validate_advance_blockchain.
  destruct (jget (s "blocks") req) as [[| | | | |bl|]|] eqn:Eb; try reflexivity.
  destruct bl as [|b bl]; [reflexivity|].
  destruct (all_strs (b :: bl)) eqn:Ea; [|reflexivity].
  exfalso. apply Hn. exists (b :: bl). split; [exact Eb|]. split; [discriminate|].
  apply all_strs_iff. exact Ea.
Qed.

Theorem validate_advance_brothers_second c req :
  blocks_ok req -> ~ brothers_ok req -> validate_advance_blockchain c req = c_brothers c.
Proof.
  intros [bl [Hb [Hne Hs]]] Hn. unfold validate_advance_blockchain. rewrite Hb.
  apply all_strs_iff in Hs. rewrite Hs. cbn [negb].
  destruct bl as [|b bl]; [contradiction|].
  destruct (jget (s "brothers") req) as [[| | | | |bros|]|] eqn:Er; try reflexivity.
  destruct (Nat.eqb (length bros) (length (b :: bl))) eqn:El; cbn [negb]; [|reflexivity].
  destruct (forallb is_jarr bros); cbn [negb]; [|reflexivity].
  match goal with |- context [if ?t then 0%Z else _] => destruct t eqn:Ef end; [|reflexivity].
  exfalso. apply Hn. exists (b :: bl), bros. split; [exact Hb|]. split; [exact Er|].
  split; [apply Nat.eqb_eq; exact El|]. apply brothers_test_iff. exact Ef.
Qed.

Theorem validate_advance_ok c req :
  blocks_ok req -> brothers_ok req -> validate_advance_blockchain c req = 0%Z.
Proof.
  intros [bl [Hb [Hne Hs]]] [bl' [bros [Hb' [Hr [Hl Hf]]]]].
  rewrite Hb in Hb'. inversion Hb'; subst bl'.
  unfold validate_advance_blockchain. rewrite Hb.
  apply all_strs_iff in Hs. rewrite Hs. cbn [negb].
  destruct bl as [|b bl]; [contradiction|]. rewrite Hr.
  apply Nat.eqb_eq in Hl. rewrite Hl. cbn [negb].
  apply brothers_test_iff in Hf. rewrite (brothers_test_is_jarr bros Hf). cbn [negb].
  rewrite Hf. reflexivity.
Qed.

Theorem validate_advance_blockchain_ok_iff c req :
  c_input_blocks c <> 0%Z -> c_brothers c <> 0%Z ->
  (validate_advance_blockchain c req = 0%Z <-> blocks_ok req /\ brothers_ok req).
Proof.
  intros H1 H2. split.
  - intro H0. split.
    + destruct (jget (s "blocks") req) as [[| | | | |bl|]|] eqn:Eb;
        try (exfalso; unfold validate_advance_blockchain in H0; rewrite Eb in H0; contradiction).
      unfold validate_advance_blockchain in H0. rewrite Eb in H0.
      destruct bl as [|b bl]; [contradiction|].
      destruct (all_strs (b :: bl)) eqn:Ea; [|contradiction].
      exists (b :: bl). split; [exact Eb|]. split; [discriminate|]. apply all_strs_iff. exact Ea.
    + unfold validate_advance_blockchain in H0.
      destruct (jget (s "blocks") req) as [[| | | | |bl|]|] eqn:Eb; try contradiction.
      destruct bl as [|b bl]; [contradiction|].
      destruct (negb (all_strs (b :: bl))); [contradiction|].
      destruct (jget (s "brothers") req) as [[| | | | |bros|]|] eqn:Er; try contradiction.
      destruct (Nat.eqb (length bros) (length (b :: bl))) eqn:El; cbn [negb] in H0;
        [|contradiction].
      destruct (negb (forallb is_jarr bros)); [contradiction|].
      match type of H0 with (if ?t then _ else _) = _ => destruct t eqn:Ef end; [|contradiction].
      exists (b :: bl), bros. split; [exact Eb|]. split; [exact Er|].
      split; [apply Nat.eqb_eq; exact El|]. apply brothers_test_iff. exact Ef.
  - intros [Ha Hb]. apply validate_advance_ok; assumption.
Qed.

(* ---------- updateAncestorBlock ---------- *)
Theorem validate_update_ancestor_block_ok_iff c req :
  c_input_blocks c <> 0%Z ->
  (validate_update_ancestor_block c req = 0%Z <->
   exists bl, jget (s "blocks") req = Some (JArr bl) /\
              MINIMUM_UPDATE_ANCESTOR_BLOCKS <= nlen bl /\ Forall is_str_json bl).
Proof.
  intro Hc. unfold validate_update_ancestor_block. split.
  - destruct (jget (s "blocks") req) as [[| | | | |bl|]|]; try contradiction.
    destruct (nlen bl <? MINIMUM_UPDATE_ANCESTOR_BLOCKS) eqn:El; [contradiction|].
    destruct (all_strs bl) eqn:Ea; [|contradiction]. intros _.
    exists bl. split; [reflexivity|]. split; [lia|]. apply all_strs_iff. exact Ea.
  - intros [bl [Hb [Hl Hs]]]. rewrite Hb.
    replace (nlen bl <? MINIMUM_UPDATE_ANCESTOR_BLOCKS) with false by lia.
    apply all_strs_iff in Hs. rewrite Hs. reflexivity.
Qed.

(* ---------- sign (v5): keyId, then optional auth, then message of either kind ---------- *)
Theorem validate_sign_v5_order c req :
  (c_invalid_keyid c < 0)%Z -> (c_invalid_auth c < 0)%Z ->
  validate_sign_v5 c req =
    if negb (validate_key_id c req =? 0)%Z then c_invalid_keyid c
    else if negb (validate_auth c req false =? 0)%Z then c_invalid_auth c
    else validate_message c req WAny.
Proof.
  intros Hk Ha. unfold validate_sign_v5.
  destruct (validate_key_id_cases c req) as [E|E]; rewrite E.
  - change (0 <? 0)%Z with false. cbn [Z.eqb negb].
    destruct (validate_auth_cases c req false) as [E'|E']; rewrite E'.
    + reflexivity.
    + replace (c_invalid_auth c <? 0)%Z with true by lia.
      replace (c_invalid_auth c =? 0)%Z with false by lia. reflexivity.
  - replace (c_invalid_keyid c <? 0)%Z with true by lia.
    replace (c_invalid_keyid c =? 0)%Z with false by lia. reflexivity.
Qed.

Theorem validate_sign_v5_ok_iff c req :
  (c_invalid_keyid c < 0)%Z -> (c_invalid_auth c < 0)%Z -> (c_invalid_message c < 0)%Z ->
  (validate_sign_v5 c req = 0%Z <->
   validate_key_id c req = 0%Z /\ validate_auth c req false = 0%Z /\
   validate_message c req WAny = 0%Z).
Proof.
  intros Hk Ha Hm. rewrite (validate_sign_v5_order c req Hk Ha).
  destruct (validate_key_id_cases c req) as [E|E]; rewrite E;
  destruct (validate_auth_cases c req false) as [E'|E']; rewrite E';
  destruct (validate_message_cases c req WAny) as [E''|E'']; rewrite E'';
  try replace (c_invalid_auth c =? 0)%Z with false by lia;
  try replace (c_invalid_keyid c =? 0)%Z with false by lia;
  cbn [Z.eqb negb]; split; try lia; intros [? [? ?]]; lia.
Qed.

(* ---------- sign (v1): keyId, then message = 32-byte hex string ---------- *)
Theorem validate_sign_v1_ok_iff c req :
  (c_invalid_keyid c < 0)%Z -> (c_invalid_message c < 0)%Z ->
  (validate_sign_v1 c req = 0%Z <->
   validate_key_id c req = 0%Z /\ hex_member req (s "message") (fun b => nlen b = 32)).
Proof.
  intros Hk Hm. unfold validate_sign_v1.
  destruct (validate_key_id_cases c req) as [E|E]; rewrite E.
  - change (0 <? 0)%Z with false. cbv iota. unfold hex_member. split.
    + destruct (jget (s "message") req) as [[]|]; try lia.
      destruct (is_hex_string_of_length x 32) eqn:Ex; [|lia]. intros _.
      apply is_hex_string_of_length_iff in Ex. destruct Ex as [b [H1 H2]].
      split; [reflexivity|]. exists x, b. auto.
    + intros [_ [x [b [Hj [Hf Hn]]]]]. rewrite Hj.
      replace (is_hex_string_of_length x 32) with true; [reflexivity|].
      symmetry. apply is_hex_string_of_length_iff. exists b. auto.
  - replace (c_invalid_keyid c <? 0)%Z with true by lia. split; [lia|]. intros [? _]. lia.
Qed.

(* key precedence in v1 *)
Theorem validate_sign_v1_key_first c req :
  (c_invalid_keyid c < 0)%Z -> validate_key_id c req <> 0%Z ->
  validate_sign_v1 c req = c_invalid_keyid c.
Proof.
  intros Hk Hn. unfold validate_sign_v1.
  destruct (validate_key_id_cases c req) as [E|E]; [contradiction|]. rewrite E.
  replace (c_invalid_keyid c <? 0)%Z with true by lia. reflexivity.
Qed.

(* ---------- the codes of the two modes (closed checks on the generated tables) ---------- *)
Definition validator_code_list (c : codes) : list Z :=
  [c_invalid_keyid c; c_invalid_auth c; c_invalid_message c; c_input_blocks c; c_brothers c;
   c_hb_ud c].
Definition generic_code_list (c : codes) : list Z :=
  [c_format c; c_invalid_request c; c_unknown_cmd c; c_wrong_version c].

Lemma codes_negative m :
  Forall (fun z => (z < 0)%Z) (generic_code_list (codes_of m) ++ validator_code_list (codes_of m)).
Proof. destruct m; repeat constructor. Qed.

(* v5: the documented numbers *)
Lemma v5_codes :
  generic_code_list (codes_of V5) = [-901; -902; -903; -904]%Z /\
  validator_code_list (codes_of V5) = [-103; -101; -102; -204; -205; -301]%Z /\
  c_version (codes_of V5) = 5%Z.
Proof. repeat split. Qed.

(* v1: every rejection is -2, except a wrong version (-666) and the block/heartbeat codes that
   no v1 command can produce *)
Lemma v1_codes :
  let c := codes_of V1 in
  c_format c = (-2)%Z /\ c_invalid_request c = (-2)%Z /\ c_unknown_cmd c = (-2)%Z /\
  c_invalid_keyid c = (-2)%Z /\ c_invalid_auth c = (-2)%Z /\ c_invalid_message c = (-2)%Z /\
  c_wrong_version c = (-666)%Z /\ c_version c = 1%Z /\
  unhashable_code V1 = Some (-2)%Z.
Proof. repeat split. Qed.

(* ======================================================================================= *)
(* A.2 (cont.)  Which codes the gate can answer                                            *)
(* ======================================================================================= *)

(* the codes a validator (by generated method name) can answer *)
Definition validator_codes (m : pmode) (vn : str) : list Z :=
  let c := codes_of m in
  if str_eqb vn (s "<lambda>") then []
  else if str_eqb vn (s "_validate_sign") then
         match m with
         | V5 => [c_invalid_keyid c; c_invalid_auth c; c_invalid_message c]
         | V1 => [c_invalid_keyid c; c_invalid_message c]
         end
  else if str_eqb vn (s "_validate_get_pubkey") then [c_invalid_keyid c]
  else if str_eqb vn (s "_validate_advance_blockchain") then [c_input_blocks c; c_brothers c]
  else if str_eqb vn (s "_validate_update_ancestor_block") then [c_input_blocks c]
  else if str_eqb vn (s "_validate_signer_heartbeat") then [c_hb_ud c]
  else if str_eqb vn (s "_validate_ui_heartbeat") then [c_hb_ud c]
  else [].

Lemma validate_sign_v5_cases c req :
  validate_sign_v5 c req = 0%Z \/
  In (validate_sign_v5 c req) [c_invalid_keyid c; c_invalid_auth c; c_invalid_message c].
Proof.
  unfold validate_sign_v5.
  destruct (validate_key_id_cases c req) as [E|E]; rewrite E.
  2:{ destruct (_ <? 0)%Z; cbn [In]; auto.
      destruct (validate_auth_cases c req false) as [E'|E']; rewrite E'.
      2:{ destruct (_ <? 0)%Z; cbn [In]; auto.
          destruct (validate_message_cases c req WAny) as [E''|E'']; rewrite E''; auto. }
      change (0 <? 0)%Z with false. cbv iota.
      destruct (validate_message_cases c req WAny) as [E''|E'']; rewrite E''; auto. }
  change (0 <? 0)%Z with false. cbv iota.
  destruct (validate_auth_cases c req false) as [E'|E']; rewrite E'.
  2:{ destruct (_ <? 0)%Z; cbn [In]; auto.
      destruct (validate_message_cases c req WAny) as [E''|E'']; rewrite E''; auto. }
  change (0 <? 0)%Z with false. cbv iota.
  destruct (validate_message_cases c req WAny) as [E''|E'']; rewrite E''; cbn [In]; auto.
Qed.

Lemma validate_sign_v1_cases c req :
  validate_sign_v1 c req = 0%Z \/
  In (validate_sign_v1 c req) [c_invalid_keyid c; c_invalid_message c].
Proof.
  unfold validate_sign_v1.
  assert (Hm : match jget (s "message") req with
               | Some (JStr x) => if is_hex_string_of_length x 32 then 0%Z else c_invalid_message c
               | _ => c_invalid_message c end = 0%Z \/
               match jget (s "message") req with
               | Some (JStr x) => if is_hex_string_of_length x 32 then 0%Z else c_invalid_message c
               | _ => c_invalid_message c end = c_invalid_message c).
  { destruct (jget (s "message") req) as [[]|]; auto. destruct (is_hex_string_of_length _ _); auto. }
  destruct (validate_key_id_cases c req) as [E|E]; rewrite E.
  - change (0 <? 0)%Z with false. cbv iota. destruct Hm as [H|H]; rewrite H; cbn [In]; auto.
  - destruct (_ <? 0)%Z; cbn [In]; auto. destruct Hm as [H|H]; rewrite H; cbn [In]; auto.
Qed.

Lemma run_validator_codes m vn req v :
  run_validator m vn req = Some v -> v = 0%Z \/ In v (validator_codes m vn).
Proof.
  unfold run_validator, validator_codes.
  destruct (str_eqb vn (s "<lambda>")); [intro H; inversion H; auto|].
  destruct (str_eqb vn (s "_validate_sign")).
  { intro H; inversion H; subst v. destruct m.
    - apply validate_sign_v5_cases.
    - apply validate_sign_v1_cases. }
  destruct (str_eqb vn (s "_validate_get_pubkey")).
  { intro H; inversion H; subst v.
    destruct (validate_key_id_cases (codes_of m) req) as [E|E]; rewrite E; cbn [In]; auto. }
  destruct (str_eqb vn (s "_validate_advance_blockchain")).
  { intro H; inversion H; subst v.
    destruct (validate_advance_blockchain_cases (codes_of m) req) as [E|[E|E]]; rewrite E;
      cbn [In]; auto. }
  destruct (str_eqb vn (s "_validate_update_ancestor_block")).
  { intro H; inversion H; subst v.
    destruct (validate_update_ancestor_block_cases (codes_of m) req) as [E|E]; rewrite E;
      cbn [In]; auto. }
  destruct (str_eqb vn (s "_validate_signer_heartbeat")).
  { intro H; inversion H; subst v.
    destruct (validate_heartbeat_cases (codes_of m) req SIGNER_HBT_UD_VALUE_SIZE) as [E|E];
      rewrite E; cbn [In]; auto. }
  destruct (str_eqb vn (s "_validate_ui_heartbeat")).
  { intro H; inversion H; subst v.
    destruct (validate_heartbeat_cases (codes_of m) req UI_HBT_UD_VALUE_SIZE) as [E|E];
      rewrite E; cbn [In]; auto. }
  discriminate.
Qed.

(* a rejection carries a generic code, the generated unhashable-command code, or a code of
   the validator attached to the request's (known) command *)
Theorem gate_total_codes m r code :
  gate_request m r = GReject code ->
  In code (generic_code_list (codes_of m)) \/
  unhashable_code m = Some code \/
  exists cmd req vn, classify_request m r = VValidate cmd req /\
                     validator_name m cmd = Some vn /\ In code (validator_codes m vn) /\
                     run_validator m vn req = Some code.
Proof.
  rewrite gate_request_classified. unfold generic_code_list.
  destruct (classify_request m r) as [| | | | |cmd req] eqn:Ec; cbn [gate_of_verdict In];
    intro H; try (inversion H; subst; tauto).
  - destruct (unhashable_code m); [|discriminate]. inversion H; subst. auto.
  - destruct (validator_name m cmd) as [vn|] eqn:Ev; [|discriminate].
    destruct (run_validator m vn req) as [v|] eqn:Er; [|discriminate].
    destruct (v <? 0)%Z eqn:Ez; [|discriminate]. inversion H; subst v.
    right; right. exists cmd, req, vn. repeat split; auto.
    destruct (run_validator_codes m vn req code Er) as [E|E]; [lia|exact E].
Qed.

(* coarse version: the finite set of numbers *)
Corollary gate_reject_code_set m r code :
  gate_request m r = GReject code ->
  In code (generic_code_list (codes_of m) ++ validator_code_list (codes_of m)) \/
  unhashable_code m = Some code.
Proof.
  intro H. destruct (gate_total_codes m r code H) as [Hg | [Hu | [cmd [req [vn [_ [_ [Hi _]]]]]]]].
  - left. apply in_or_app. auto.
  - auto.
  - left. apply in_or_app. right. unfold validator_codes in Hi. unfold validator_code_list.
    repeat match type of Hi with
           | In _ (if ?b then _ else _) => destruct b
           | In _ (match ?m with V5 => _ | V1 => _ end) => destruct m
           end; cbn [In] in *; tauto.
Qed.

(* In v5 the generic codes are pairwise distinct and distinct from every validator code, so the
   code alone tells which rule fired (closed checks on the generated numbers). *)
Lemma v5_generic_codes_separate :
  NoDup (generic_code_list (codes_of V5) ++ validator_code_list (codes_of V5)) /\
  unhashable_code V5 = Some (c_unknown_cmd (codes_of V5)).
Proof.
  split; [|reflexivity].
  repeat (constructor; [cbn; intuition discriminate|]). constructor.
Qed.

Lemma gate_v5_code_verdict r code :
  gate_request V5 r = GReject code ->
  match classify_request V5 r with
  | VFormat => code = (-901)%Z
  | VInvalidRequest => code = (-902)%Z
  | VWrongVersion => code = (-904)%Z
  | VUnhashable | VUnknown => code = (-903)%Z
  | VValidate _ _ => In code [-103; -101; -102; -204; -205; -301]%Z
  end.
Proof.
  intro H. rewrite gate_request_classified in H.
  destruct (classify_request V5 r) as [| | | | |cmd req] eqn:Ec; cbn [gate_of_verdict] in H;
    try (inversion H; reflexivity).
  destruct (validator_name V5 cmd) as [vn|]; [|discriminate].
  destruct (run_validator V5 vn req) as [v|] eqn:Er; [|discriminate].
  destruct (v <? 0)%Z eqn:Ez; [|discriminate]. inversion H; subst v.
  destruct (run_validator_codes V5 vn req code Er) as [E|Hi]; [lia|].
  unfold validator_codes in Hi.
  repeat match type of Hi with
         | In _ (if ?b then _ else _) => destruct b
         end; cbn [In] in Hi; cbn [In];
  repeat match goal with H : _ \/ _ |- _ => destruct H end; try contradiction; subst; cbn; tauto.
Qed.

Theorem gate_v5_format_iff r :
  gate_request V5 r = GReject (-901)%Z <-> is_jobj r = false.
Proof.
  split.
  - intro H. apply (classify_format_iff V5). pose proof (gate_v5_code_verdict r _ H) as Hv.
    destruct (classify_request V5 r); try reflexivity; try discriminate.
    cbn [In] in Hv. intuition discriminate.
  - intro H. rewrite (gate_not_object V5 r H). reflexivity.
Qed.

Theorem gate_v5_invalid_request_iff r :
  gate_request V5 r = GReject (-902)%Z <->
  exists req, r = JObj req /\
    (jget KEY_COMMAND req = None \/
     exists command, jget KEY_COMMAND req = Some command /\
                     py_eq_str command CMDNAME_VERSION_COMMAND = false /\
                     jget KEY_VERSION req = None).
Proof.
  rewrite <- (classify_invalid_request_iff V5). split.
  - intro H. pose proof (gate_v5_code_verdict r _ H) as Hv.
    destruct (classify_request V5 r); try reflexivity; try discriminate.
    cbn [In] in Hv. intuition discriminate.
  - intro H. rewrite gate_request_classified, H. reflexivity.
Qed.

Theorem gate_v5_wrong_version_iff r :
  gate_request V5 r = GReject (-904)%Z <->
  exists req command v, r = JObj req /\ jget KEY_COMMAND req = Some command /\
    jget KEY_VERSION req = Some v /\ py_eq_int v 5 = false.
Proof.
  rewrite <- (classify_wrong_version_iff V5). split.
  - intro H. pose proof (gate_v5_code_verdict r _ H) as Hv.
    destruct (classify_request V5 r); try reflexivity; try discriminate.
    cbn [In] in Hv. intuition discriminate.
  - intro H. rewrite gate_request_classified, H. reflexivity.
Qed.

Theorem gate_v5_unknown_iff r :
  gate_request V5 r = GReject (-903)%Z <->
  exists req command, r = JObj req /\ jget KEY_COMMAND req = Some command /\
    version_passed V5 req command /\
    (forall cmd, command = JStr cmd -> ~ In cmd KNOWN_COMMANDS_V5).
Proof.
  split.
  - intro H. pose proof (gate_v5_code_verdict r _ H) as Hv.
    destruct (classify_request V5 r) eqn:Ec; try discriminate.
    + apply classify_unhashable_iff in Ec. destruct Ec as [req [command [-> [Hc [Hp Hh]]]]].
      exists req, command. repeat split; auto. intros cmd ->. discriminate.
    + apply classify_unknown_iff in Ec. destruct Ec as [req [command [-> [Hc [Hp [Hh Hk]]]]]].
      exists req, command. repeat split; auto.
    + cbn [In] in Hv. intuition discriminate.
  - intros [req [command [-> [Hc [Hp Hk]]]]].
    destruct (hashable command) eqn:Eh.
    + rewrite (gate_unknown_command V5 req command Hc Hp Eh Hk). reflexivity.
    + rewrite (gate_unhashable V5 req command Hc Hp Eh). reflexivity.
Qed.

(* the codes answered for a known command are among those docs/protocol.md lists for it *)
Lemma v5_validator_codes_documented :
  forallb (fun cmd =>
    match validator_name V5 cmd, assoc_str cmd DOC_CODES with
    | Some vn, Some doc => forallb (fun z => mem_Z z doc) (validator_codes V5 vn)
    | _, _ => false
    end) KNOWN_COMMANDS_V5 = true.
Proof. vm_compute. reflexivity. Qed.

Lemma mem_Z_In z l : mem_Z z l = true <-> In z l.
Proof.
  induction l as [|y l IH]; cbn [mem_Z In]; [split; [discriminate|contradiction]|].
  rewrite orb_true_iff, IH, Z.eqb_eq. split; intros [H|H]; auto.
Qed.

Theorem gate_v5_documented r code :
  gate_request V5 r = GReject code ->
  In code DOC_GENERIC \/
  exists cmd req doc, classify_request V5 r = VValidate cmd req /\
                      assoc_str cmd DOC_CODES = Some doc /\ In code doc.
Proof.
  intro H. destruct (gate_total_codes V5 r code H) as [Hg | [Hu | [cmd [req [vn [Hc [Hv [Hi _]]]]]]]].
  - left. cbn in Hg. cbn. intuition.
  - left. inversion Hu. cbn. auto.
  - right. exists cmd, req.
    apply classify_validate_iff in Hc as Hc'. destruct Hc' as [_ [_ [_ Hk]]].
    pose proof v5_validator_codes_documented as Hd.
    rewrite forallb_forall in Hd. specialize (Hd cmd Hk). rewrite Hv in Hd.
    destruct (assoc_str cmd DOC_CODES) as [doc|]; [|discriminate].
    exists doc. repeat split; auto. rewrite forallb_forall in Hd.
    apply mem_Z_In. apply Hd. exact Hi.
Qed.

(* ======================================================================================= *)
(* A.4  Acceptance means the validator ran and did not object                              *)
(* ======================================================================================= *)
Theorem accept_runs_validated m r cmd req :
  gate_request m r = GAccept cmd req ->
  r = JObj req /\ jget KEY_COMMAND req = Some (JStr cmd) /\ version_passed m req (JStr cmd) /\
  In cmd (known_commands m) /\
  exists vn v, validator_name m cmd = Some vn /\ run_validator m vn req = Some v /\ (0 <= v)%Z.
Proof.
  rewrite gate_request_classified.
  destruct (classify_request m r) as [| | | | |cmd' req'] eqn:Ec; cbn [gate_of_verdict];
    try discriminate.
  - destruct (unhashable_code m); discriminate.
  - destruct (validator_name m cmd') as [vn|] eqn:Ev; [|discriminate].
    destruct (run_validator m vn req') as [v|] eqn:Er; [|discriminate].
    destruct (v <? 0)%Z eqn:Ez; [discriminate|]. intro H. inversion H; subst cmd' req'.
    apply classify_validate_iff in Ec. destruct Ec as [Hr [Hc [Hp Hk]]].
    repeat split; auto. exists vn, v. repeat split; auto. lia.
Qed.

(* with the generated codes all negative, "did not object" is "returned 0" *)
Corollary accept_validator_zero m r cmd req :
  gate_request m r = GAccept cmd req ->
  exists vn, validator_name m cmd = Some vn /\ run_validator m vn req = Some 0%Z.
Proof.
  intro H. destruct (accept_runs_validated m r cmd req H) as [_ [_ [_ [_ [vn [v [Hn [Hr Hv]]]]]]]].
  exists vn. split; [exact Hn|].
  destruct (run_validator_codes m vn req v Hr) as [E|E]; [subst; exact Hr|].
  exfalso. pose proof (codes_negative m) as Hneg. rewrite Forall_forall in Hneg.
  assert (Hin : In v (generic_code_list (codes_of m) ++ validator_code_list (codes_of m))).
  { apply in_or_app. right. unfold validator_codes in E. unfold validator_code_list.
    repeat match type of E with
           | In _ (if ?b then _ else _) => destruct b
           | In _ (match ?m with V5 => _ | V1 => _ end) => destruct m
           end; cbn [In] in *; tauto. }
  specialize (Hneg v Hin). lia.
Qed.

(* ======================================================================================= *)
(* A.1  A request that is not accepted causes no exchange with the device                  *)
(* ======================================================================================= *)
Section NoExchange.
Variable keccak : bytes -> bytes.
Variable kind : dongle_kind.

Theorem rejected_no_exchange m request code w :
  gate_request m request = GReject code ->
  handle_request keccak kind m request w = (Ok (JObj [(KEY_ERRORCODE, JInt code)]), w).
Proof. intro H. unfold handle_request. rewrite H. reflexivity. Qed.

(* second-stage rejections of the v5 sign operation: all before ensure_connection *)
Definition sign_is_hash (req : obj) : bool :=
  match jget (s "message") req with Some (JObj m) => jhas (s "hash") m | _ => false end.

Let c5 := codes_of V5.

(* a hash request whose message is not exactly the hash shape *)
Lemma op_sign_v5_reject_hash req w :
  sign_is_hash req = true -> validate_message c5 req WHash <> 0%Z ->
  op_sign_v5 kind req w = (Ok (c_invalid_message c5, None), w).
Proof.
  intros Hh Hm. unfold op_sign_v5. fold (sign_is_hash req). rewrite Hh. fold c5.
  destruct (validate_message_cases c5 req WHash) as [E|E]; [contradiction|]. rewrite E.
  reflexivity.
Qed.

(* auth missing or malformed *)
Lemma op_sign_v5_reject_auth req w :
  sign_is_hash req = false -> validate_auth c5 req true <> 0%Z ->
  op_sign_v5 kind req w = (Ok (c_invalid_auth c5, None), w).
Proof.
  intros Hh Ha. unfold op_sign_v5. fold (sign_is_hash req). rewrite Hh. fold c5.
  destruct (validate_auth_cases c5 req true) as [E|E]; [contradiction|]. rewrite E.
  reflexivity.
Qed.

(* message of the wrong kind (not a transaction shape) *)
Lemma op_sign_v5_reject_message req w :
  sign_is_hash req = false -> validate_auth c5 req true = 0%Z ->
  validate_message c5 req WTx <> 0%Z ->
  op_sign_v5 kind req w = (Ok (c_invalid_message c5, None), w).
Proof.
  intros Hh Ha Hm. unfold op_sign_v5. fold (sign_is_hash req). rewrite Hh. fold c5.
  rewrite Ha. change (0 <? 0)%Z with false. cbv iota.
  destruct (validate_message_cases c5 req WTx) as [E|E]; [contradiction|]. rewrite E.
  reflexivity.
Qed.

(* transaction that cannot be stripped of its signatures, or whose stripped form does not
   deserialize *)
Lemma op_sign_v5_reject_tx req msg x txraw w :
  sign_is_hash req = false -> validate_auth c5 req true = 0%Z ->
  validate_message c5 req WTx = 0%Z ->
  jget (s "message") req = Some (JObj msg) -> jget (s "tx") msg = Some (JStr x) ->
  fromhex x = Some txraw ->
  (unsign_tx txraw = None \/
   exists utx, unsign_tx txraw = Some utx /\ deserialize_tx utx = None) ->
  op_sign_v5 kind req w = (Ok (c_invalid_message c5, None), w).
Proof.
  intros Hh Ha Hm Hj Ht Hf Hu. unfold op_sign_v5. fold (sign_is_hash req). rewrite Hh. fold c5.
  rewrite Ha, Hm. change (0 <? 0)%Z with false. cbv iota.
  unfold bind at 1. unfold jobj_field. rewrite Hj. cbn [ret].
  unfold bind at 1. unfold hex_field, bind at 1, jstr_field. rewrite Ht. cbn [ret].
  rewrite Hf. cbn [of_opt ret].
  destruct Hu as [Hu | [utx [Hu Hd]]].
  - rewrite Hu. reflexivity.
  - rewrite Hu, Hd. reflexivity.
Qed.

(* the three branches in one statement *)
Theorem op_sign_v5_reject_no_exchange req w :
  (sign_is_hash req = true /\ validate_message c5 req WHash <> 0%Z) \/
  (sign_is_hash req = false /\ validate_auth c5 req true <> 0%Z) \/
  (sign_is_hash req = false /\ validate_auth c5 req true = 0%Z /\
   validate_message c5 req WTx <> 0%Z) \/
  (sign_is_hash req = false /\ validate_auth c5 req true = 0%Z /\
   validate_message c5 req WTx = 0%Z /\
   exists msg x txraw, jget (s "message") req = Some (JObj msg) /\
     jget (s "tx") msg = Some (JStr x) /\ fromhex x = Some txraw /\
     (unsign_tx txraw = None \/
      exists utx, unsign_tx txraw = Some utx /\ deserialize_tx utx = None)) ->
  exists code, In code [c_invalid_auth c5; c_invalid_message c5] /\
               op_sign_v5 kind req w = (Ok (code, None), w).
Proof.
  intros [[H1 H2] | [[H1 H2] | [[H1 [H2 H3]] | [H1 [H2 [H3 [msg [x [txraw [H4 [H5 [H6 H7]]]]]]]]]]]].
  - exists (c_invalid_message c5). split; [cbn; auto|]. apply op_sign_v5_reject_hash; assumption.
  - exists (c_invalid_auth c5). split; [cbn; auto|]. apply op_sign_v5_reject_auth; assumption.
  - exists (c_invalid_message c5). split; [cbn; auto|]. apply op_sign_v5_reject_message; assumption.
  - exists (c_invalid_message c5). split; [cbn; auto|].
    eapply op_sign_v5_reject_tx; eassumption.
Qed.

(* ... and the reply the client sees for them: {"errorcode": code}, world untouched *)
Theorem sign_v5_second_stage_reply r req code w :
  gate_request V5 r = GAccept CMDNAME_SIGN_COMMAND req ->
  op_sign_v5 kind req w = (Ok (code, None), w) -> (code < 0)%Z ->
  handle_request keccak kind V5 r w = (Ok (JObj [(KEY_ERRORCODE, JInt code)]), w).
Proof.
  intros Hg Ho Hc. unfold handle_request. rewrite Hg.
  change (assoc_str CMDNAME_SIGN_COMMAND DISPATCH_V5) with (Some (s "_sign")).
  assert (Hr : run_operation keccak kind V5 (s "_sign") req = Some (op_sign_v5 kind req))
    by reflexivity.
  cbv beta iota. rewrite Hr.
  unfold bind. rewrite Ho. replace (code <? 0)%Z with true by lia. reflexivity.
Qed.

End NoExchange.

(* ======================================================================================= *)
(* Non-vacuity                                                                             *)
(* ======================================================================================= *)
Definition hex32 : str := s "aabbccddeeff00112233445566778899aabbccddeeff00112233445566778899".
Definition keyid_ok : str := s "m/44'/0'/0'/0/0".

Definition ex_version_req : obj := [(KEY_COMMAND, JStr (s "version"))].
Definition ex_sign_hash_req : obj :=
  [(KEY_COMMAND, JStr (s "sign")); (KEY_VERSION, JInt 5); (s "keyId", JStr keyid_ok);
   (s "message", JObj [(s "hash", JStr hex32)])].
Definition ex_sign_noauth_req : obj :=
  [(KEY_COMMAND, JStr (s "sign")); (KEY_VERSION, JInt 5); (s "keyId", JStr keyid_ok);
   (s "message", JObj [(s "tx", JStr (s "00")); (s "input", JInt 0);
                       (s "sighashComputationMode", JStr (s "legacy"))])].
Definition ex_auth : json :=
  JObj [(s "receipt", JStr (s "00")); (s "receipt_merkle_proof", JArr [JStr (s "00")])].
Definition ex_sign_badtx_req : obj :=
  [(KEY_COMMAND, JStr (s "sign")); (KEY_VERSION, JInt 5); (s "keyId", JStr keyid_ok);
   (s "auth", ex_auth);
   (s "message", JObj [(s "tx", JStr (s "00")); (s "input", JInt 0);
                       (s "sighashComputationMode", JStr (s "legacy"))])].
Definition ex_sign_badmsg_req : obj :=
  [(KEY_COMMAND, JStr (s "sign")); (KEY_VERSION, JInt 5); (s "keyId", JStr keyid_ok);
   (s "auth", ex_auth);
   (s "message", JObj [(s "tx", JStr (s "00")); (s "input", JInt 4294967296);
                       (s "sighashComputationMode", JStr (s "legacy"))])].

Example ex_gate_format : gate_request V5 (JArr []) = GReject (-901)%Z.
Proof. vm_compute. reflexivity. Qed.
Example ex_gate_no_command : gate_request V5 (JObj []) = GReject (-902)%Z.
Proof. vm_compute. reflexivity. Qed.
Example ex_gate_no_version :
  gate_request V5 (JObj [(KEY_COMMAND, JStr (s "sign"))]) = GReject (-902)%Z.
Proof. vm_compute. reflexivity. Qed.
Example ex_gate_wrong_version :
  gate_request V5 (JObj [(KEY_COMMAND, JStr (s "sign")); (KEY_VERSION, JInt 4)]) = GReject (-904)%Z.
Proof. vm_compute. reflexivity. Qed.
(* Python ==: 5.0 and (in v1) True are the right version *)
Example ex_gate_float_version :
  gate_request V5 (JObj [(KEY_COMMAND, JStr (s "version")); (KEY_VERSION, JFloat (Some 5%Z))])
  = GAccept (s "version") [(KEY_COMMAND, JStr (s "version")); (KEY_VERSION, JFloat (Some 5%Z))].
Proof. vm_compute. reflexivity. Qed.
Example ex_gate_true_version_v1 :
  gate_request V1 (JObj [(KEY_COMMAND, JStr (s "version")); (KEY_VERSION, JBool true)])
  = GAccept (s "version") [(KEY_COMMAND, JStr (s "version")); (KEY_VERSION, JBool true)].
Proof. vm_compute. reflexivity. Qed.
Example ex_gate_unhashable :
  gate_request V5 (JObj [(KEY_COMMAND, JArr []); (KEY_VERSION, JInt 5)]) = GReject (-903)%Z.
Proof. vm_compute. reflexivity. Qed.
Example ex_gate_unknown :
  gate_request V5 (JObj [(KEY_COMMAND, JInt 7); (KEY_VERSION, JInt 5)]) = GReject (-903)%Z.
Proof. vm_compute. reflexivity. Qed.
Example ex_gate_v1_unknown_v5_command :
  gate_request V1 (JObj [(KEY_COMMAND, JStr (s "blockchainState")); (KEY_VERSION, JInt 1)])
  = GReject (-2)%Z.
Proof. vm_compute. reflexivity. Qed.
Example ex_gate_accept_version : gate_request V5 (JObj ex_version_req) = GAccept (s "version") ex_version_req.
Proof. vm_compute. reflexivity. Qed.
Example ex_gate_accept_sign : gate_request V5 (JObj ex_sign_hash_req) = GAccept (s "sign") ex_sign_hash_req.
Proof. vm_compute. reflexivity. Qed.
Example ex_gate_keyid :
  gate_request V5 (JObj [(KEY_COMMAND, JStr (s "getPubKey")); (KEY_VERSION, JInt 5);
                         (s "keyId", JStr (s "m/44'/0'/0'/0"))]) = GReject (-103)%Z.
Proof. vm_compute. reflexivity. Qed.
(* blocks take precedence over brothers *)
Example ex_gate_blocks_first :
  gate_request V5 (JObj [(KEY_COMMAND, JStr (s "advanceBlockchain")); (KEY_VERSION, JInt 5);
                         (s "blocks", JArr []); (s "brothers", JInt 0)]) = GReject (-204)%Z.
Proof. vm_compute. reflexivity. Qed.
Example ex_gate_brothers :
  gate_request V5 (JObj [(KEY_COMMAND, JStr (s "advanceBlockchain")); (KEY_VERSION, JInt 5);
                         (s "blocks", JArr [JStr (s "zz")]); (s "brothers", JArr [])])
  = GReject (-205)%Z.
Proof. vm_compute. reflexivity. Qed.
Example ex_gate_heartbeat :
  gate_request V5 (JObj [(KEY_COMMAND, JStr (s "signerHeartbeat")); (KEY_VERSION, JInt 5);
                         (s "udValue", JStr hex32)]) = GReject (-301)%Z.
Proof. vm_compute. reflexivity. Qed.
Example ex_outpoint_bounds :
  let mk v := [(s "message", JObj [(s "tx", JStr (s "00")); (s "input", JInt 0);
                 (s "sighashComputationMode", JStr (s "segwit"));
                 (s "witnessScript", JStr (s "00")); (s "outpointValue", JInt v)])] in
  validate_message (codes_of V5) (mk 0%Z) WAny = (-102)%Z /\
  validate_message (codes_of V5) (mk 1%Z) WAny = 0%Z /\
  validate_message (codes_of V5) (mk (2 ^ 64 - 1)%Z) WAny = 0%Z /\
  validate_message (codes_of V5) (mk (2 ^ 64)%Z) WAny = (-102)%Z.
Proof. vm_compute. repeat split. Qed.

(* second-stage sign rejections on a world whose comm-issue flag is set: had the operation
   reached ensure_connection, the trace would have grown *)
Definition ex_world : world := mkWorld [] [] true [] true None [] [].

Example ex_sign_no_auth :
  gate_request V5 (JObj ex_sign_noauth_req) = GAccept (s "sign") ex_sign_noauth_req /\
  handle_request (fun b => b) KTcp V5 (JObj ex_sign_noauth_req) ex_world
  = (Ok (JObj [(KEY_ERRORCODE, JInt (-101))]), ex_world).
Proof. vm_compute. split; reflexivity. Qed.
Example ex_sign_bad_message :
  gate_request V5 (JObj ex_sign_badmsg_req) = GReject (-102)%Z.
Proof. vm_compute. reflexivity. Qed.
Example ex_sign_bad_tx :
  gate_request V5 (JObj ex_sign_badtx_req) = GAccept (s "sign") ex_sign_badtx_req /\
  handle_request (fun b => b) KTcp V5 (JObj ex_sign_badtx_req) ex_world
  = (Ok (JObj [(KEY_ERRORCODE, JInt (-102))]), ex_world).
Proof. vm_compute. split; reflexivity. Qed.
(* the hypotheses of op_sign_v5_reject_tx are satisfiable *)
Example ex_sign_bad_tx_hyps :
  sign_is_hash ex_sign_badtx_req = false /\
  validate_auth (codes_of V5) ex_sign_badtx_req true = 0%Z /\
  validate_message (codes_of V5) ex_sign_badtx_req WTx = 0%Z /\
  unsign_tx [0] = None.
Proof. vm_compute. repeat split. Qed.
(* hash-and-extra-member message: the hash branch rejects it in the operation *)
Example ex_sign_hash_extra :
  let req := [(KEY_COMMAND, JStr (s "sign")); (KEY_VERSION, JInt 5); (s "keyId", JStr keyid_ok);
              (s "message", JObj [(s "hash", JStr hex32); (s "tx", JStr (s "00"))])] in
  gate_request V5 (JObj req) = GReject (-102)%Z.
Proof. vm_compute. reflexivity. Qed.
