(* C13 on the translated request path: for a getPubKey request the gate accepts, whatever key bytes the device
   answers are the reply's pubKey, hex-encoded, with errorcode 0, and the only APDU sent is GET_PUBLIC_KEY with the
   requested path - stated of __internal_handle_request as translated from the source. *)
From PowHsm Require Import Gen.Src Gen.SrcM Model.Dongle Model.LedgerProtocol.
From PowHsm Require Import Proofs.ValLemmas Proofs.SrcEquivBase Proofs.SrcEquivLedger Proofs.SrcEquivDongleM
  Proofs.SrcEquivProtoM Proofs.SrcEquivSignProtoM Proofs.SrcEquivBlockM Proofs.SrcEquivBlockProtoM Proofs.SrcEquivGateM
  Proofs.SrcLiftGate.
From PowHsm Require Proofs.C13.

Section WithEnv.
Variable keccak : bytes -> bytes.
Variable kind : dongle_kind.
Variable init : pm pv.
Variable cm : string -> pv -> list pv -> pr pv.

Theorem src_pubkey_reply_verbatim : forall fuel self request (req : obj) path els k sc cn op tr p rp fs,
  let w := mkWorld (Data k :: sc) cn op tr false p rp fs in
  env_ok keccak kind init cm fuel w ->
  gate_request V5 request = GAccept (s "getPubKey") req ->
  jget (s "keyId") req = Some (JStr path) -> bip32_path path = Some els ->
  srcm_HSM2ProtocolLedger____internal_handle_request fuel cm init self (of_json request) w =
  (XOk (of_json (JObj [(s "pubKey", JStr (hex k)); (KEY_ERRORCODE, JInt 0)])),
   mkWorld sc cn op (Apdu (CLA :: CMD_GET_PUBLIC_KEY :: path_to_binary els) (Data k) :: tr) false p rp fs).
Proof.
  intros fuel self request req path els k sc cn op tr p rp fs w Henv Hg Hk Hp.
  rewrite (src_is_model keccak kind init cm fuel self request w Henv).
  unfold handle_request. rewrite Hg.
  match goal with |- context [assoc_str ?a ?b] =>
    replace (assoc_str a b) with (Some (s "_get_pubkey")) by reflexivity end.
  match goal with |- context [run_operation ?a ?b ?c ?d ?e] =>
    replace (run_operation a b c d e) with (Some (op_get_pubkey kind V5 req)) by reflexivity end.
  pose proof (C13.pubkey_verbatim kind V5 req path k sc cn op tr p rp fs Hk els Hp) as Hop.
  fold w in Hop. unfold bind. rewrite Hop. reflexivity.
Qed.

End WithEnv.
