(* Refinement lemmas: the functions translated from the Python source text (Gen/Src.v) compute what
   the hand-written models compute.  Part 1: comm/utils.py, comm/bip32.py, ledger/version.py, ledger/pin.py. *)
From PowHsm Require Import Gen.Src Model.CommProtocol.
From PowHsm Require Import Proofs.ValLemmas.

(* ---------- comm/utils.py ---------- *)

Lemma src_is_nonempty_hex_string_ok : forall j : json,
  src_comm_utils__is_nonempty_hex_string (of_json j) =
  POk (VBool (match j with JStr x => is_nonempty_hex_string x | _ => false end)).
Proof.
  intros j. unfold src_comm_utils__is_nonempty_hex_string. rewrite py_fromhex_of_json.
  destruct j as [| b | z | i | x | l | kv]; try reflexivity.
  unfold is_nonempty_hex_string, nlen. destruct (fromhex x) as [b|]; [|reflexivity].
  cbn [pbind py_len]. rewrite py_cmp_int. cbn [vbool pmap ptry]. rewrite Zltb_0_nat. reflexivity.
Qed.

Lemma src_is_hex_string_of_length_ok : forall (j : json) (n : N),
  src_comm_utils__is_hex_string_of_length (of_json j) (VInt (Z.of_N n)) (VBool false) =
  POk (VBool (match j with JStr x => is_hex_string_of_length x n | _ => false end)).
Proof.
  intros j n. unfold src_comm_utils__is_hex_string_of_length.
  cbn [py_and py_truth pif]. rewrite py_fromhex_of_json.
  destruct j as [| b | z | i | x | l | kv]; try reflexivity.
  unfold is_hex_string_of_length, nlen. destruct (fromhex x) as [b|]; [|reflexivity].
  cbn [pbind py_len]. rewrite py_eq_int. cbn [vbool pmap ptry]. rewrite Zeqb_nat_N. reflexivity.
Qed.

Lemma src_has_nonempty_hex_field_ok : forall (mp : obj) (name : str),
  src_comm_utils__has_nonempty_hex_field (of_obj mp) (VStr name) =
  POk (VBool (has_nonempty_hex_field mp name)).
Proof.
  intros mp name. unfold src_comm_utils__has_nonempty_hex_field, has_nonempty_hex_field.
  rewrite py_in_of_obj, py_getitem_of_obj. unfold jhas.
  destruct (jget name mp) as [j|]; [|reflexivity].
  cbn [vbool pmap py_and py_truth pbind]. rewrite py_type_of_json, py_eq_type.
  rewrite src_is_nonempty_hex_string_ok.
  destruct j as [| b | z | i | x | l | kv]; reflexivity.
Qed.

Lemma src_has_hex_field_of_length_ok : forall (mp : obj) (name : str) (n : N),
  src_comm_utils__has_hex_field_of_length (of_obj mp) (VStr name) (VInt (Z.of_N n)) =
  POk (VBool (has_hex_field_of_length mp name n)).
Proof.
  intros mp name n. unfold src_comm_utils__has_hex_field_of_length, has_hex_field_of_length.
  rewrite py_in_of_obj, py_getitem_of_obj. unfold jhas.
  destruct (jget name mp) as [j|]; [|reflexivity].
  cbn [vbool pmap py_and py_truth pbind]. rewrite py_type_of_json, py_eq_type.
  rewrite src_is_hex_string_of_length_ok.
  destruct j as [| b | z | i | x | l | kv]; reflexivity.
Qed.

Lemma src_has_field_of_type_int_ok : forall (mp : obj) (name : str),
  src_comm_utils__has_field_of_type (of_obj mp) (VStr name) (VType TInt) =
  POk (VBool (has_int_field mp name)).
Proof.
  intros mp name. unfold src_comm_utils__has_field_of_type, has_int_field.
  rewrite py_in_of_obj, py_getitem_of_obj. unfold jhas.
  destruct (jget name mp) as [j|]; [|reflexivity].
  cbn [vbool pmap py_and py_truth pbind]. rewrite py_type_of_json, py_eq_type.
  destruct j as [| b | z | i | x | l | kv]; reflexivity.
Qed.

Lemma src_has_field_of_type_str_ok : forall (mp : obj) (name : str),
  src_comm_utils__has_field_of_type (of_obj mp) (VStr name) (VType TStr) =
  POk (VBool (has_str_field mp name)).
Proof.
  intros mp name. unfold src_comm_utils__has_field_of_type, has_str_field.
  rewrite py_in_of_obj, py_getitem_of_obj. unfold jhas.
  destruct (jget name mp) as [j|]; [|reflexivity].
  cbn [vbool pmap py_and py_truth pbind]. rewrite py_type_of_json, py_eq_type.
  destruct j as [| b | z | i | x | l | kv]; reflexivity.
Qed.

(* ---------- comm/bip32.py ---------- *)

Definition elem_obj (i : N) : pv := VObj "BIP32Element" [("_index", VInt (Z.of_N i))].
Definition path_obj (els : list N) : pv := VObj "BIP32Path" [("_elements", VList (map elem_obj els))].

Lemma len_snoc_nonzero {A} (l : list A) (c : A) : (Z.of_nat (length (l ++ [c])) =? 0)%Z = false.
Proof. rewrite app_length. cbn [length]. apply Z.eqb_neq. lia. Qed.

Lemma str_eqb_quote (c : N) : str_eqb [c] (s "'") = (c =? QUOTE).
Proof. change (s "'") with [QUOTE]. unfold str_eqb. cbn [list_eqb]. apply Bool.andb_true_r. Qed.

(* the part of BIP32Element.__init__ after the hardening mark has been looked at:
   [base] is 0 or 2^31, [sx] the digits *)
Lemma elem_tail_ok (zbase : Z) (base : N) (sx : str) :
  (zbase = 0%Z /\ base = 0%N) \/ (zbase = 2147483648%Z /\ base = (2 ^ 31)%N) ->
  pif (py_not (py_isdecimal (VStr sx)))
    (PRaise ValueError)
    (pbind (py_int (VStr sx)) (fun v_val =>
  pif (vbool (py_cmp CGe v_val (VInt (2147483648)%Z)))
    (pbind (POk (VStr (s "BIP32Element must be specified with an integer between 0 and 2^31"))) (fun v_message =>
  PRaise ValueError))
    (pbind (POk v_val) (fun t4_ => pbind (py_add (VInt zbase) t4_) (fun v_index =>
  pif (py_or (vbool (py_cmp CLt v_index (VInt (0)%Z)))
    (vbool (py_cmp CGt v_index (VInt (4294967296)%Z))))
    (pbind (POk (VStr (s "Invalid index for BIP32 element"))) (fun v_message =>
  PRaise ValueError))
    (pbind (POk v_index) (fun t5_ => pbind (py_setattr (VObj "BIP32Element" []) "_index" t5_) (fun v_self =>
  POk v_self))))))))
  =
  if negb (is_decimal sx) then PRaise ValueError else
  match int_of_decimal sx with
  | None => PRaise ValueError
  | Some v =>
      if 2 ^ 31 <=? v then PRaise ValueError else
      if 2 ^ 32 <? base + v then PRaise ValueError else POk (elem_obj (base + v))
  end.
Proof.
  intros Hbase. cbn [py_isdecimal py_not pmap py_truth py_int].
  destruct (is_decimal sx) eqn:Hd; cbn [negb pif py_truth]; [|reflexivity].
  destruct (int_of_decimal sx) as [v|]; [|reflexivity].
  cbn [pbind]. rewrite py_cmp_int. cbn [vbool pmap pif py_truth].
  change (2 ^ 31)%N with 2147483648%N in *. change (2 ^ 32)%N with 4294967296%N.
  destruct (Z.leb_spec 2147483648 (Z.of_N v)) as [H1|H1];
    destruct (N.leb_spec 2147483648 v) as [H2|H2]; try lia; [reflexivity|].
  cbn [pbind py_add py_arith vint]. rewrite !py_cmp_int. cbn [vbool pmap py_or py_truth].
  destruct (Z.ltb_spec (zbase + Z.of_N v) 0) as [H3|H3]; [lia|].
  destruct (Z.ltb_spec 4294967296 (zbase + Z.of_N v)) as [H4|H4];
    destruct (N.ltb_spec 4294967296 (base + v)) as [H5|H5]; try lia.
  cbn [pif py_truth pbind py_setattr]. unfold elem_obj. replace (Z.of_N (base + v)) with (zbase + Z.of_N v)%Z by lia. reflexivity.
Qed.

Lemma src_bip32_element_ok : forall x : str,
  src_BIP32Element____init__ (VObj "BIP32Element" []) (VStr x) =
  match bip32_element x with Some i => POk (elem_obj i) | None => PRaise ValueError end.
Proof.
  intros x. unfold src_BIP32Element____init__, bip32_element.
  destruct (rev x) as [|c r] eqn:Hrev.
  - apply rev_nil_inv in Hrev. subst x. reflexivity.
  - apply rev_cons_inv in Hrev. set (l := rev r) in *. clearbody l. subst x.
    cbn [py_type pbind]. rewrite py_ne_type.
    cbn [pty_eqb negb vbool pmap py_or py_truth py_len pbind]. rewrite py_eq_int.
    rewrite len_snoc_nonzero. cbn [pmap pif py_truth py_getitem].
    rewrite seq_index_last. cbn [pbind]. rewrite py_eq_str, str_eqb_quote.
    cbn [vbool pmap pif py_truth].
    destruct (c =? QUOTE) eqn:Hq.
    + cbn [pbind py_slice]. rewrite seq_slice_but_last, removelast_last.
      etransitivity;
        [exact (elem_tail_ok 2147483648%Z (2 ^ 31)%N l (or_intror (conj eq_refl eq_refl)))|].
      destruct (negb (is_decimal l)); [reflexivity|].
      destruct (int_of_decimal l) as [v|]; [|reflexivity].
      destruct (2 ^ 31 <=? v); [reflexivity|].
      destruct (2 ^ 32 <? 2 ^ 31 + v); reflexivity.
    + cbn [pbind].
      etransitivity;
        [exact (elem_tail_ok 0%Z 0%N (l ++ [c]) (or_introl (conj eq_refl eq_refl)))|].
      destruct (negb (is_decimal (l ++ [c]))); [reflexivity|].
      destruct (int_of_decimal (l ++ [c])) as [v|]; [|reflexivity].
      destruct (2 ^ 31 <=? v); [reflexivity|].
      destruct (2 ^ 32 <? 0 + v); reflexivity.
Qed.

Lemma len_cons_nonzero {A} (a : A) (l : list A) : (Z.of_nat (length (a :: l)) =? 0)%Z = false.
Proof. cbn [length]. apply Z.eqb_neq. lia. Qed.

Lemma seq_slice_first2 {A} (l : list A) : seq_slice l None (Some 2%Z) = firstn 2 l.
Proof. exact (seq_slice_first l 2). Qed.

Lemma seq_slice_from2 {A} (l : list A) : seq_slice l (Some 2%Z) None = skipn 2 l.
Proof. exact (seq_slice_from l 2). Qed.

Lemma Zeqb_nat_5 (k : nat) : (Z.of_nat k =? 5)%Z = Nat.eqb k 5.
Proof. apply (Zeqb_nat_nat k 5). Qed.

Lemma fassoc_hd (k : string) (v : pv) (r : list (string * pv)) : fassoc k ((k, v) :: r) = Some v.
Proof. cbn [fassoc]. rewrite String.eqb_refl. reflexivity. Qed.

(* case analysis on the binary digits of a code point against a numeral pattern *)
Ltac kill_N a H :=
  let p := fresh "p" in
  destruct a as [|p]; [reflexivity|];
  repeat (destruct p as [p|p|]; try reflexivity);
  try (exfalso; apply H; reflexivity).

Lemma bip32_path_not_m (x : str) : str_eqb (firstn 2 x) (s "m/") = false -> bip32_path x = None.
Proof.
  destruct x as [|a [|b rest]]; intros E.
  - reflexivity.
  - unfold bip32_path. destruct a as [|p]; [reflexivity|].
    repeat (destruct p as [p|p|]; try reflexivity).
  - destruct (N.eqb_spec a 109) as [Ha|Ha]; destruct (N.eqb_spec b 47) as [Hb|Hb].
    + subst a b. discriminate E.
    + subst a. unfold bip32_path. kill_N b Hb.
    + unfold bip32_path. kill_N a Ha.
    + unfold bip32_path. kill_N a Ha.
Qed.

Lemma src_bip32_path_ok : forall x : str,
  src_BIP32Path____init__ (VObj "BIP32Path" []) (VStr x) (VInt 5) =
  match bip32_path x with Some els => POk (path_obj els) | None => PRaise ValueError end.
Proof.
  intros x. unfold src_BIP32Path____init__.
  cbn [py_type pbind]. rewrite py_ne_type.
  cbn [pty_eqb negb vbool pmap py_or py_truth py_len pbind]. rewrite py_eq_int.
  destruct x as [|a x']; [reflexivity|].
  rewrite len_cons_nonzero. cbn [pmap pif py_truth py_slice pbind].
  rewrite seq_slice_first2, seq_slice_from2, py_ne_str.
  destruct (str_eqb (firstn 2 (a :: x')) (s "m/")) eqn:E.
  2:{ rewrite (bip32_path_not_m _ E). reflexivity. }
  apply str_eqb_eq in E. destruct x' as [|b rest]; [discriminate E|].
  cbn [firstn] in E. change (s "m/") with [109; 47] in E. injection E as Ha Hb. subst a b.
  cbn [negb vbool pmap pif py_truth skipn]. change (s "/") with [SLASH].
  cbn [py_split pbind py_list_map py_iter]. rewrite split_chr_split_on.
  rewrite (pmap_list_all_some VStr elem_obj (split_on SLASH rest [])
             (fun x_ => src_BIP32Element____init__ (VObj "BIP32Element" []) x_) bip32_element
             src_bip32_element_ok).
  change (bip32_path (109 :: 47 :: rest)) with
    (match all_some (map bip32_element (split_on SLASH rest [])) with
     | Some els => if Nat.eqb (length els) 5 then Some els else None
     | None => None
     end).
  destruct (all_some (map bip32_element (split_on SLASH rest []))) as [els|]; [|reflexivity].
  cbn [pmap pbind py_setattr py_and py_truth py_getattr]. rewrite fassoc_hd.
  cbn [py_len pbind]. rewrite py_ne_int, map_length, Zeqb_nat_5.
  cbn [vbool pmap pif py_truth].
  destruct (Nat.eqb (length els) 5); reflexivity.
Qed.

